"""Content-hash build cache over /repo sources: one static library per sanitizer flavour,
plus harness executables.  Nothing here looks at mtimes: an object is reused only when the
SHA-256 of (compiler flags, source bytes, bytes of every header in its recorded .d file)
is unchanged, so any edit under /repo is picked up."""
import os, re, sys, json, hashlib, subprocess, fcntl, shlex
from concurrent.futures import ThreadPoolExecutor

REPO = os.environ.get("VERIF_REPO", "/repo")
VERIF = os.path.dirname(os.path.dirname(os.path.abspath(__file__)))
BUILD = os.path.join(VERIF, ".build" if REPO == "/repo" else ".build-" + hashlib.sha1(REPO.encode()).hexdigest()[:8])
GUARD = "TBOX_VERIF_HOOKS"

MODULES = ["base", "util", "event", "eventx", "log", "network", "terminal", "main",
           "coroutine", "http", "flow", "alarm", "crypto", "jsonrpc"]

FLAVOURS = {
    "asan": dict(cxx="g++", cc="gcc",
                 flags=["-O1", "-g1", "-fno-omit-frame-pointer",
                        "-fsanitize=address,undefined", "-fno-sanitize-recover=all",
                        "-fno-sanitize=nonnull-attribute"]),
    "tsan": dict(cxx="g++", cc="gcc", flags=["-O1", "-g1", "-fsanitize=thread"]),
    "plain": dict(cxx="g++", cc="gcc", flags=["-O1", "-g1"]),
    "fuzz": dict(cxx="clang++-14", cc="clang-14",
                 flags=["-O1", "-g1", "-fsanitize=fuzzer-no-link,address,undefined",
                        "-fno-sanitize-recover=all", "-fno-sanitize=object-size",
                        "-fno-sanitize=nonnull-attribute"],
                 # clang rejects util/variables.h (nlohmann::basic_json<> used while only forward-declared;
                 # gcc accepts it): force-include the full json header in C++ TUs of this flavour
                 cxx_extra=["-include", os.path.join(REPO, "3rd-party", "nlohmann", "json.hpp")]),
}


def _version_defs():
    txt = open(os.path.join(REPO, "version.mk")).read()
    out = []
    for k in ("MAJOR", "MINOR", "REVISION"):
        m = re.search(r"TBOX_VERSION_%s\s*:=\s*(\d+)" % k, txt)
        out.append("-DTBOX_VERSION_%s=%s" % (k, m.group(1) if m else "0"))
    return out


def common_flags(hooks=True):
    f = ["-I" + os.path.join(REPO, "modules"), "-I" + os.path.join(REPO, "3rd-party"),
         "-DHAVE_EPOLL=1", "-DHAVE_SELECT=1", "-pthread", "-w"] + _version_defs()
    if hooks:
        f.append("-D" + GUARD)
    return f


def module_sources(mod):
    cm = os.path.join(REPO, "modules", mod, "CMakeLists.txt")
    txt = open(cm).read()
    txt = re.sub(r"#.*", "", txt)
    srcs = []
    for m in re.finditer(r"[A-Za-z0-9_/.\-]+\.(?:cpp|c)\b", txt):
        s = m.group(0)
        if s.endswith("_test.cpp") or s in srcs:
            continue
        if os.path.exists(os.path.join(REPO, "modules", mod, s)):
            srcs.append(s)
    return srcs


def _sha(*parts):
    h = hashlib.sha256()
    for p in parts:
        if isinstance(p, str):
            p = p.encode()
        h.update(p)
        h.update(b"\0")
    return h.hexdigest()


def _file_bytes(p):
    try:
        with open(p, "rb") as f:
            return f.read()
    except OSError:
        return b"<missing>"


def _parse_deps(dfile):
    try:
        txt = open(dfile).read()
    except OSError:
        return None
    txt = txt.replace("\\\n", " ")
    if ":" not in txt:
        return None
    deps = shlex.split(txt.split(":", 1)[1])
    return deps


def _sys_header(p):
    return p.startswith("/usr/")


def _key(cmd, src, deps):
    h = hashlib.sha256()
    h.update(" ".join(cmd).encode())
    h.update(_file_bytes(src))
    for d in sorted(set(deps)):
        if _sys_header(d):
            continue
        h.update(d.encode())
        h.update(_file_bytes(d))
    return h.hexdigest()


def compile_one(cmd, src, obj):
    """cmd: full compiler argv without -c/-o/-MMD. returns (ok, log, rebuilt)"""
    dfile = obj + ".d"
    kfile = obj + ".key"
    deps = _parse_deps(dfile)
    if deps is not None and os.path.exists(obj) and os.path.exists(kfile):
        if open(kfile).read() == _key(cmd, src, deps):
            return True, "", False
    os.makedirs(os.path.dirname(obj), exist_ok=True)
    full = cmd + ["-MMD", "-MF", dfile, "-c", src, "-o", obj]
    p = subprocess.run(full, capture_output=True, text=True)
    if p.returncode != 0:
        for f in (kfile,):
            if os.path.exists(f):
                os.unlink(f)
        return False, " ".join(full) + "\n" + p.stderr, True
    deps = _parse_deps(dfile) or []
    with open(kfile, "w") as f:
        f.write(_key(cmd, src, deps))
    return True, p.stderr, True


class BuildError(Exception):
    pass


def build_lib(flavour, jobs=16, quiet=False):
    """Build libtbox_<flavour>.a from /repo's current working tree. Returns path."""
    fl = FLAVOURS[flavour]
    bdir = os.path.join(BUILD, flavour)
    os.makedirs(bdir, exist_ok=True)
    lock = open(os.path.join(bdir, ".lock"), "w")
    fcntl.flock(lock, fcntl.LOCK_EX)
    try:
        tasks = []
        for mod in MODULES:
            for s in module_sources(mod):
                src = os.path.join(REPO, "modules", mod, s)
                obj = os.path.join(bdir, "obj", mod, s.replace("/", "__") + ".o")
                isc = s.endswith(".c")
                cmd = [fl["cc"] if isc else fl["cxx"]] + ([] if isc else ["-std=gnu++11"] + fl.get("cxx_extra", [])) + fl["flags"] + \
                    common_flags() + ['-DMODULE_ID="tbox.%s"' % mod]
                tasks.append((cmd, src, obj))
        rebuilt = 0
        errs = []
        with ThreadPoolExecutor(jobs) as ex:
            for ok, log, rb in ex.map(lambda t: compile_one(*t), tasks):
                rebuilt += rb
                if not ok:
                    errs.append(log)
        if errs:
            raise BuildError("compile failed (%s):\n%s" % (flavour, "\n".join(errs[:3])))
        lib = os.path.join(bdir, "libtbox.a")
        objs = [t[2] for t in tasks]
        listkey = _sha(*objs)
        lk = lib + ".list"
        if rebuilt or not os.path.exists(lib) or not os.path.exists(lk) or open(lk).read() != listkey:
            if os.path.exists(lib):
                os.unlink(lib)
            p = subprocess.run(["ar", "rcs", lib] + objs, capture_output=True, text=True)
            if p.returncode != 0:
                raise BuildError("ar failed: " + p.stderr)
            open(lk, "w").write(listkey)
        if not quiet:
            sys.stderr.write("[vbuild] %s: %d TUs, %d rebuilt\n" % (flavour, len(tasks), rebuilt))
        return lib
    finally:
        fcntl.flock(lock, fcntl.LOCK_UN)
        lock.close()


def build_harness(name, sources, flavour, extra_flags=(), link_flags=(), jobs=16, std="gnu++11"):
    """Compile harness sources (paths relative to /verif) and link against the flavour lib."""
    fl = FLAVOURS[flavour]
    lib = build_lib(flavour, jobs=jobs, quiet=True)
    bdir = os.path.join(BUILD, flavour, "harness", name)
    os.makedirs(bdir, exist_ok=True)
    lock = open(os.path.join(bdir, ".lock"), "w")
    fcntl.flock(lock, fcntl.LOCK_EX)
    try:
        objs = []
        tasks = []
        for s in sources:
            src = os.path.join(VERIF, s)
            obj = os.path.join(bdir, s.replace("/", "__") + ".o")
            cmd = [fl["cxx"], "-std=" + std] + fl.get("cxx_extra", []) + fl["flags"] + common_flags() + \
                ["-I" + os.path.join(VERIF, "harness"), '-DMODULE_ID="verif"'] + list(extra_flags)
            tasks.append((cmd, src, obj))
            objs.append(obj)
        errs = []
        rebuilt = 0
        with ThreadPoolExecutor(jobs) as ex:
            for ok, log, rb in ex.map(lambda t: compile_one(*t), tasks):
                rebuilt += rb
                if not ok:
                    errs.append(log)
        if errs:
            raise BuildError("harness compile failed (%s/%s):\n%s" % (name, flavour, "\n".join(errs[:3])))
        exe = os.path.join(bdir, name)
        lflags = [f.replace("fuzzer-no-link", "fuzzer") if "fuzzer" in " ".join(link_flags) else f
                  for f in fl["flags"]]
        linkcmd = [fl["cxx"]] + lflags + objs + [lib, "-lpthread", "-ldl", "-lrt"] + list(link_flags) + ["-o", exe]
        lkey = _sha(" ".join(linkcmd), *[_file_bytes(o + ".key") for o in objs], _file_bytes(lib + ".list"),
                    str(os.path.getmtime(lib)))
        kf = exe + ".key"
        if not (os.path.exists(exe) and os.path.exists(kf) and open(kf).read() == lkey):
            p = subprocess.run(linkcmd, capture_output=True, text=True)
            if p.returncode != 0:
                raise BuildError("link failed (%s/%s): %s\n%s" % (name, flavour, " ".join(linkcmd), p.stderr[-4000:]))
            open(kf, "w").write(lkey)
        return exe
    finally:
        fcntl.flock(lock, fcntl.LOCK_UN)
        lock.close()


if __name__ == "__main__":
    import time
    for f in sys.argv[1:] or ["asan", "tsan", "plain"]:
        t = time.time()
        build_lib(f)
        sys.stderr.write("[vbuild] %s done in %.1fs\n" % (f, time.time() - t))
