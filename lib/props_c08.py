"""C08 configuration (see lib/props.py for the format)."""

_H = "c08_handles"
# a corrupted (cyclic) free list could spin; a case normally takes milliseconds
_WD = ["--watchdog", "120"]

PROP = dict(
    harnesses={_H: dict(sources=["harness/c08_handles.cpp"])},
    legs=[
        dict(name="cabinet", harness=_H, flavour="asan", mode="cabinet", args=_WD, case_timeout=240, quick=100000, thorough=2000000, leaks=True),
        # 16-operation alphabet, every history of the given depth (16^5 quick, 16^7 thorough)
        dict(name="cabinet-x5", harness=_H, flavour="asan", mode="cabinet-x", args=["--depth", "5"] + _WD, case_timeout=240,
             quick=1048576, thorough=0, scalable=False, exhaustive=True, leaks=True),
        dict(name="cabinet-x7", harness=_H, flavour="asan", mode="cabinet-x", args=["--depth", "7"] + _WD, case_timeout=240,
             quick=0, thorough=268435456, scalable=False, exhaustive=True, leaks=True),
        dict(name="pool", harness=_H, flavour="asan", mode="pool", args=_WD, case_timeout=240, quick=60000, thorough=2000000, leaks=True),
        dict(name="fd", harness=_H, flavour="asan", mode="fd", args=_WD, case_timeout=240, quick=60000, thorough=2000000, leaks=True),
        # 36-operation alphabet on three handles, every history of the given depth (36^4 quick, 36^5 thorough)
        dict(name="fd-x4", harness=_H, flavour="asan", mode="fd-x", args=["--depth", "4"] + _WD, case_timeout=240,
             quick=1679616, thorough=0, scalable=False, exhaustive=True, leaks=True),
        dict(name="fd-x5", harness=_H, flavour="asan", mode="fd-x", args=["--depth", "5"] + _WD, case_timeout=240,
             quick=0, thorough=60466176, scalable=False, exhaustive=True, leaks=True),
        dict(name="lifetime", harness=_H, flavour="asan", mode="lifetime", args=_WD, case_timeout=240, quick=30000, thorough=1000000, leaks=True),
    ],
    rule=("cabinet: seeded histories of 60-260 operations on one Cabinet (alloc with/without object, update, free, at/[], clear, "
          "reserve, free/update/at/[] with tokens that are not live - stale ones, null ones (Token(), a reset() token, id 0 with any "
          "position incl. one past the end and SIZE_MAX) and forged ones (a live or not-yet-issued id paired with another or an "
          "out-of-range position) - which must all do nothing, foreach whose visitor frees the current / another / a stale entry or looks entries up; live-entry cap drawn from "
          "{3,6,16,48}; grow/drain/churn phases so that the free list gets long and is threaded in varied orders). After every operation: "
          "size()/empty() equal the model, every live token resolves through at() and [] to the object stored with it, the 64 most "
          "recently freed tokens plus up to 192 older ones (all of them when fewer) resolve to nothing, free/update of stale tokens are "
          "refused and change nothing, a token returned by alloc differs from every token the cabinet ever issued, foreach presents each "
          "entry that is live at the end exactly once and nothing that is not live at the moment of the visit. A cabinet case is "
          "non-trivial when a slot was reused and a stale token was looked up whose slot holds a newer live entry. "
          "cabinet-x: every history of fixed depth over 16 operations {alloc(obj), alloc(), free #0..#4, update #0..#2, clear, "
          "foreach{nothing}, foreach{free current}, foreach{free another}, free(null token), update(null token)} (#k = k-th issued token mod the number issued, live or "
          "stale), all stale tokens probed after every step. "
          "pool: 40-200 alloc/free operations on 1-2 ObjectPool<T>, T in {1-byte probe, 24-byte probe, 224-byte probe, 56-byte chain "
          "node whose constructor allocates 0-3 descendants from the same pool and whose destructor frees them (alloc/free re-entered "
          "while the outer call runs; a node's storage counts as in use from the first statement of its constructor)}, three "
          "constructor shapes (default, two values, move-only argument), retention limit in {0,1,2,3,64,unbounded}, LIFO/FIFO/random "
          "free order, pool destruction with parked blocks; non-trivial when a parked block was reused and a block was released to the "
          "heap or a pool died with parked blocks. "
          "fd: 30-150 operations on 2-6 Fd handles over recording close functions (descriptor values drawn from {0,1,2,3,12,13,255,"
          "1023,1024,65535,INT_MAX, unique large ones}; 0 most often), negative values {-1,-2,-100,INT_MIN} with a recording close "
          "function (never to be closed), real pipe descriptors with the default close, real pipe descriptors with a recording "
          "close function (in a quarter of the cases descriptor number 0 is freed first so that a pipe end becomes descriptor 0; "
          "restored at the end of the case), and Fd(-1): construct, copy/move "
          "construct, copy/move assign (incl. self and between handles that already share a record), assign from a temporary, swap, "
          "reset, close, destroy; non-trivial when a descriptor was closed by the release of its last of >= 3 copies and another one by "
          "explicit close() while shared or by being assigned over. fd-x: every history of fixed depth over 36 operations on three "
          "handles (the k-th descriptor of a history has the value 0, 1, INT_MAX, 2, 12). lifetime: 30-130 operations on 1-3 LifetimeTag and 2-6 Watcher objects. "
          "distinct = distinct operation-script hashes among the non-trivial cases"),
    assumptions=[
        "cabinet visitors only remove entries (the header allows exactly that during foreach); they never alloc or clear",
        "every pooled object is given back to the pool it came from before that pool is destroyed; constructors do not throw; a "
        "constructor/destructor of the pooled type may call alloc()/free() of the same pool (chain and tree nodes do)",
        "ids are size_t counters: wrap-around at 2^64 allocations is out of reach and not exercised",
        "the pool's retention behaviour (take a parked block if there is one, malloc otherwise; park on free while fewer than the "
        "limit are parked) and the meaning of the ObjectPoolStat fields are taken from the comments in object_pool.hpp",
        "Fd::close() closes immediately whatever the number of copies (fd.h says so); a descriptor closed that way is not closed again",
        "real descriptors are identified by (number, pipe inode); the harness opens no other descriptors while a case runs "
        "(duplicates of stdout/stderr are taken once at start-up; descriptor 0 of the harness process is temporarily replaced by a "
        "pipe end in some fd cases and put back when the case ends - nothing in the harness reads stdin)",
        "what get()/isNull() answer for a handle built on a negative value other than -1 is not judged",
        "lifetime leg: a Watcher that observes nothing (default-constructed, reset or moved-from) is never used as the source of a "
        "copy - the property text says nothing about watchers; see findings/c08.md for what happens if it is",
        "heap accounting uses the ASan allocator hooks on the main thread only (the harness kit's watchdog thread is ignored)",
    ],
    technique=("lock-step reference models (token map + set of every token ever issued; live-address registry with constructor/"
               "destructor counters; per-descriptor reference counts with recorded close calls and fcntl/fstat on real pipes; tag "
               "identity per watcher) over random and exhaustively enumerated operation histories, under ASan+UBSan with pool "
               "poisoning, per-case heap accounting through the ASan allocator hooks and LeakSanitizer at exit"),
    level_text=("Every operation of every generated history is checked against an independent model while AddressSanitizer/UBSan "
                "watch the real code (parked pool blocks poisoned); small alphabets are enumerated completely (cabinet: 16 operations "
                "to depth 5 quick / 7 thorough; Fd: 36 operations on 3 handles to depth 4 / 5). Held on the histories explored, not a proof."),
    level_note=("trusts the models in harness/c08_handles.cpp, gcc ASan/UBSan/LSan and the ASan malloc/free hooks used for the heap "
                "accounting; id wrap-around and throwing constructors are not explored"),
    required_counters={"all": [
        # cabinet: generation ids + intrusive free list
        "cab_alloc_reused_slot", "cab_alloc_new_slot", "cab_stale_lookup_slot_reused", "cab_stale_lookup_after_clear",
        "cab_alloc_after_clear", "cab_clear_nonempty", "cab_free_stale_rejected", "cab_update_stale_rejected",
        "cab_foreach_free_current", "cab_foreach_free_other", "token_relation_checks",
        # tokens that are not live and were never valid: id 0 (also the marker of a free cell) and forged (id,pos) pairs
        "cab_null_token_free", "cab_null_token_update", "cab_null_token_lookup", "cab_null_token_free_on_free_slot",
        "cab_null_token_update_on_free_slot", "cab_null_token_nonzero_pos", "cab_forged_token_ops",
        # pool: placement new / explicit destructor around the block cache
        "pool_alloc_from_free_list", "pool_alloc_from_heap", "pool_free_parked", "pool_free_released",
        "pool_destroy_with_parked", "pool_keep_0", "pool_keep_1to3", "pool_keep_64", "pool_keep_unbounded",
        "pool_type_tiny", "pool_type_small", "pool_type_big", "pool_type_nested_chain",
        # alloc()/free() re-entered from a constructor/destructor of the pooled type, with blocks parked at that moment
        "pool_nested_alloc_in_ctor", "pool_nested_alloc_in_ctor_with_parked_blocks",
        "pool_nested_chain_built_entirely_from_parked_blocks", "pool_nested_free_in_dtor",
        # fd: reference-counted detail record
        "fd_close_on_last_release", "fd_close_by_assignment", "fd_explicit_close", "fd_explicit_close_while_shared",
        "fd_close_again_noop", "fd_assign_same_record", "fd_self_assign", "fd_copy_construct", "fd_move_construct",
        "fd_copy_assign", "fd_move_assign", "fd_swap", "fd_reset", "fd_destroy",
        "fd_desc_fake_func", "fd_desc_real_default", "fd_desc_real_func", "fd_desc_negative_func",
        # boundary descriptor values: 0 is a descriptor, negative values are not
        "fd_value_zero_desc", "fd_value_zero_released_by_last_copy", "fd_value_zero_explicit_close", "fd_value_zero_real_desc",
        "fd_value_one_or_two_released_by_last_copy", "fd_value_int_max_released_by_last_copy",
        # lifetime tag
        "lt_watcher_outlives_tag", "lt_tag_destroy_watched", "lt_tag_destroy_unwatched", "lt_watcher_copy", "lt_watcher_move",
        # the heap accounting was really in place
        "heap_tracker_installed", "leak_checks",
    ]},
)
