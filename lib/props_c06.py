"""C06 configuration (see lib/props.py for the format)."""

PROP = dict(
    harnesses={"c06_stream": dict(sources=["harness/c06_stream.cpp"])},
    legs=[
        dict(name="bfd", harness="c06_stream", flavour="asan", mode="bfd", quick=20000, thorough=0,
             args=["--watchdog", "120"], case_timeout=300),
        dict(name="grid", harness="c06_stream", flavour="asan", mode="grid", quick=2880, thorough=2880, scalable=False, exhaustive=True,
             args=["--watchdog", "120"], case_timeout=300),
        dict(name="tcp", harness="c06_stream", flavour="asan", mode="tcp", quick=10000, thorough=0,
             args=["--watchdog", "120"], case_timeout=300),
        dict(name="bfd-large", harness="c06_stream", flavour="asan", mode="bfd", quick=0, thorough=600000,
             args=["--watchdog", "300", "--thorough", "1"], case_timeout=600),
        dict(name="tcp-large", harness="c06_stream", flavour="asan", mode="tcp", quick=0, thorough=300000,
             args=["--watchdog", "300", "--thorough", "1"], case_timeout=600),
    ],
    rule="tbd",
    assumptions=[],
    technique="tbd",
    level_text="tbd",
    level_note="tbd",
    required_counters={"all": []},
)
