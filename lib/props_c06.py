"""C06 configuration (see lib/props.py for the format)."""

PROP = dict(
    harnesses={"c06_stream": dict(sources=["harness/c06_stream.cpp"])},
    legs=[
        dict(name="bfd", harness="c06_stream", flavour="asan", mode="bfd", quick=3000, thorough=60000,
             args=["--watchdog", "120"], case_timeout=300),
        dict(name="tcp", harness="c06_stream", flavour="asan", mode="tcp", quick=1500, thorough=30000,
             args=["--watchdog", "120"], case_timeout=300),
    ],
    rule="tbd",
    assumptions=[],
    technique="tbd",
    level_text="tbd",
    level_note="tbd",
    required_counters={"all": []},
)
