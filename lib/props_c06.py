"""C06 configuration (see lib/props.py for the format)."""

_WD = ["--watchdog", "120"]

PROP = dict(
    harnesses={"c06_stream": dict(sources=["harness/c06_stream.cpp"])},
    legs=[
        # one BufferedFd (two on pipes) against a raw non-blocking peer: unix socket pair, pipes, loopback TCP
        dict(name="bfd", harness="c06_stream", flavour="asan", mode="bfd", quick=20000, thorough=0,
             args=_WD, case_timeout=300),
        # 3 transports x 6 send-size classes x enabled-at-start or not x 4 thresholds x 5 consumption patterns x 4 close kinds
        dict(name="grid", harness="c06_stream", flavour="asan", mode="grid", quick=2880, thorough=2880, scalable=False,
             exhaustive=True, args=_WD, case_timeout=300),
        # TcpServer<->raw clients, TcpClient<->raw listener, TcpAcceptor/TcpConnector + own TcpConnection, TcpServer<->TcpClient
        dict(name="tcp", harness="c06_stream", flavour="asan", mode="tcp", quick=10000, thorough=0,
             args=_WD, case_timeout=300),
        dict(name="bfd-large", harness="c06_stream", flavour="asan", mode="bfd", quick=0, thorough=200000,
             args=["--watchdog", "300", "--thorough", "1"], case_timeout=600),
        dict(name="tcp-large", harness="c06_stream", flavour="asan", mode="tcp", quick=0, thorough=80000,
             args=["--watchdog", "300", "--thorough", "1"], case_timeout=600),
    ],
    rule=("One case = one seeded scenario on real kernel objects, the loop (epoll 3/4, select 1/4) driven pass by pass. Byte i of "
          "stream s is f(s,i), so loss, duplication and reordering show at the offset where they happen. "
          "bfd: a BufferedFd on a unix socket pair / a loopback TCP pair (SO_SNDBUF from the kernel minimum to the default), or two "
          "BufferedFds on two pipes (4-64 KiB), against a raw non-blocking peer; 6-40 script steps: send (1 B-256 KiB, quick up to "
          "1 MiB, thorough up to 8 MiB; sizes biased to 1,7,1023-1025,4095-4097), bursts of 2-6 sends, sends issued from inside the "
          "send-complete and the receive callback, sends before enable() (half of the cases start disabled), disable()/enable() "
          "cycles, peer reads of 1/7/100/1 Ki/4 Ki/64 Ki/all bytes (or none for many steps: full kernel buffer, partial writes, "
          "EAGAIN), peer writes, receive threshold in {0,1,7,4096} with the callback consuming nothing / 1 byte / half / all but one / "
          "everything / a mix, re-configuration of the receive callback, 0-4 loop passes between steps; buffer housekeeping in 3/5 of the cases (never / sometimes / "
          "often per case): shrinkRecvBuffer() / Buffer::shrink() from inside the receive callback right after a partial consumption, from "
          "the send-complete callback and between steps, shrinkSendBuffer() from both callbacks and between sends while the send queue is "
          "partly drained and non-empty, and receive callbacks that copy (construct / assign) the Buffer they are given; one close event in ~45% of "
          "the cases: peer shutdown(SHUT_WR), peer close() after draining, peer close() with unread data (reset), peer writes a block (1/700/3000/70000/random bytes) and goes away abortively in the same "
          "step (unread inbound data pending at the peer, or SO_LINGER {1,0} on TCP), harness-side "
          "disable()+destroy outside a callback / inside the receive / send-complete / read-zero callback. Then the peer reads "
          "everything and the loop is pumped until every stream is complete or a stall is established. "
          "grid: the same with transport, size class of the first sends, enabled-at-start, threshold, consumption pattern and close "
          "kind enumerated over their full product (2880 cases), the rest seeded. "
          "tcp: TcpServer with 1-3 (later up to 5) raw clients incl. stop()+start(); TcpClient against a raw listener with and without "
          "auto-reconnect; TcpAcceptor / TcpConnector handing a TcpConnection to the harness; TcpServer<->TcpClient in one loop; "
          "inet loopback (7/10) or unix path sockets; same step alphabet plus disconnect(token) / stop() / disconnect() from outside "
          "and from inside the receive, send-complete and disconnected callbacks and shutdown(SHUT_WR) once everything is flushed; on TcpClient (and harness-owned TcpConnection) links the receive callback is "
          "re-registered on the live connection with thresholds going up and down ({0,1,4,7,8,16,64,100,1024,4096}) - only when nothing "
          "is buffered unpresented - followed by a peer write sized to reach the new threshold but, when lowered, not the old one. "
          "In a third of the TcpClient-against-raw-listener cases a receiver is bound with TcpClient::bind() and unbound again at random: before start(), inside the disconnected callback (no connection object exists) and on a fresh connection; while bound the receiver must get exactly f[consumed, ...) (it consumes all), after unbind() it must never be handed a byte again, on this connection or the next. "
          "Monitors: raw peer - every byte read equals f at the next offset and never exceeds what send() accepted; receive callback "
          "- buffer content equals f[consumed, consumed+readable), never fewer bytes than presented before, at least the threshold, "
          "nothing after a reported close; shrink and copy - the unread window of the receive buffer and of its copy is byte-identical to "
          "f[consumed, ...) immediately afterwards (a shrunk send queue is judged by what the raw peer then reads); send-complete - bytes in the peer's hands + bytes in the kernel queues (FIONREAD/SIOCOUTQ) "
          ">= bytes accepted by send() so far; close report - at most once, only after the peer closed, and for orderly closes only "
          "after all preceding bytes are in the receive buffer and presented (or fewer than the threshold remain), for reset-type closes "
          "only after everything the library already held plus everything readable in the descriptor (FIONREAD) right after the peer went "
          "away is presented; after a re-registered threshold - once the peer's bytes are all in the receive buffer, everything is "
          "presented unless fewer bytes than the CURRENT threshold are unconsumed; end of case - "
          "every stream whose two ends are still up is complete, else a stall is reported only if the kernel queues of the link are "
          "observed empty while the loop made no progress for 4 passes. "
          "A case is non-trivial when it produced a send backlog (send before enable, EAGAIN, partial write, append behind a queue), "
          "re-presented unconsumed bytes together with later data, or contained a close; distinct = distinct hashes of "
          "(configuration, script)"),
    assumptions=[
        "a peer close that resets the connection (close() with unread data, SO_LINGER 0, or data still queued towards a closed peer) is "
        "judged leniently for what may be lost in the kernel: streams must be correct prefixes and the close must be reported at most "
        "once; but bytes the library already held, or that FIONREAD showed readable in its descriptor right after the peer went away "
        "(Linux returns queued data before the pending ECONNRESET/EPIPE on unix and TCP sockets), must be presented before the close "
        "report; bytes of the peer that were still unsent in its own kernel queue are not demanded; the strict 'after all preceding "
        "data' form is applied to shutdown(SHUT_WR) and to close() with nothing outstanding in either direction",
        "when the library is told the peer closed (read-zero / disconnected) it tears the connection down; bytes still queued for "
        "sending at that point, or at a harness-side disconnect(), are not required to arrive (prefix only)",
        "a receive threshold T means the callback is not invoked while fewer than T bytes are readable: a tail shorter than T at "
        "close is not presented; on BufferedFd it must still be in getReceiveBuffer() (checked), on TcpConnection/TcpServer/TcpClient "
        "the buffer is no longer reachable from the disconnected callback (not judged)",
        "lowering the threshold with setReceiveCallback() does not re-present what is already buffered: the generator re-configures "
        "only when nothing is buffered unpresented",
        "send-complete firing although nothing new was sent, or after the harness disconnected (stale sibling event in the same "
        "dispatch - the subject of C03) is counted, not judged; the property only says it must not fire early",
        "on inet sockets SIOCOUTQ also counts bytes the peer already holds but has not acknowledged, so the 'written to the "
        "descriptor' figure is an upper bound there (exact on unix sockets and pipes); a premature send-complete of less than the "
        "unacknowledged amount could be missed on inet links",
        "the kernel descriptor behind TcpServer/TcpClient connections is inferred (lowest free descriptor before accept()/socket(), "
        "confirmed by socket type, family and, for inet, the address pair); where that fails the stall and send-complete checks of "
        "that link are skipped and counted (fd_not_identified, send_complete_unchecked)",
        "raw TCP sockets use TCP_MAXSEG 1200, TCP_NODELAY and at least 4608 bytes of buffer so that zero-window probing never "
        "needs the persist timer; waiting for bytes that are observably inside the kernel is bounded (3 s) and then counted "
        "inconclusive, never a violation",
        "SIGPIPE is ignored, as any user of these classes must do (the library writes with write())",
    ],
    technique=("position-coded byte streams over real sockets/pipes, lock-step FIFO/offset model of both directions, kernel queue "
               "inspection (FIONREAD/SIOCOUTQ) for stall and send-complete verdicts, under ASan+UBSan"),
    level_text=("Tens of thousands of seeded scenarios (plus a 2880-case enumerated grid) drive the real BufferedFd/Tcp* classes over "
                "real kernel objects with a slow, pausing or closing raw peer; every byte is checked at both ends against its stream "
                "offset, send-complete against the kernel queues, close reports against what preceded them. Held on the histories "
                "explored, not a proof."),
    level_note=("trusts the offset model, the Linux FIONREAD/SIOCOUTQ figures and gcc ASan/UBSan; schedules are those the single loop "
                "thread and the scripted peer produce, kernel timing is not controlled"),
    required_counters={"all": ["sends_before_enable", "enable_with_queued_data", "reenable_with_queued_data",
                               "direct_write_partial", "direct_write_eagain", "send_appended_behind_queue",
                               "spill_buffer_used", "read_loop_second_readv",
                               "unconsumed_represented_with_later_data", "receive_cb_left_unconsumed",
                               "send_complete_checked", "sends_from_send_complete_cb", "sends_from_receive_cb",
                               "close_order_checked", "close_left_in_buffer_checked", "close_tail_below_threshold",
                               "peer_half_close", "peer_clean_close", "peer_reset_close",
                               "teardown_outside_cb", "teardown_in_receive_cb", "teardown_in_send_complete_cb", "teardown_in_close_cb",
                               "tcp_server_connected", "tcp_client_connected", "tcp_client_reconnected",
                               "tcp_acceptor_connected", "tcp_connector_connected", "server_stop_start", "tbox_half_close",
                               "shrink_recv_with_unread_behind_consumed_prefix", "shrink_send_with_partly_drained_queue",
                               "recv_buffer_copied_in_callback", "recv_buffer_copied_behind_consumed_prefix",
                               "peer_abortive_close_with_data_pending", "close_after_reset_checked",
                               "tcpclient_threshold_lowered_while_connected", "tcpclient_threshold_raised_while_connected",
                               "rethreshold_presentation_checked", "rethreshold_between_new_and_old_threshold",
                               "receiver_bound_forwards", "bytes_forwarded_to_bound_receiver", "receiver_unbound_while-disconnected",
                               "receiver_bound_while-disconnected", "receiver_unbound_while-connected"]},
)
