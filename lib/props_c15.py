"""C15 configuration (see lib/props.py for the format)."""

_H = "c15_dns"
_WRAP = ["-Wl,--wrap=sendto", "-Wl,--wrap=recvfrom"]

PROP = dict(
    harnesses={_H: dict(sources=["harness/c15_dns.cpp"], ldflags=_WRAP)},
    legs=[
        dict(name="parse", harness=_H, flavour="asan", mode="parse", args=["--watchdog", "240"], quick=800, thorough=60000,
             case_timeout=600),
        dict(name="memcheck", harness=_H, flavour="plain", mode="memcheck", args=["--watchdog", "600"], quick=16, thorough=800,
             min_shard=2, case_timeout=900),
        dict(name="history", harness=_H, flavour="asan", mode="history", args=["--watchdog", "240"], quick=30000, thorough=1500000),
        dict(name="udp", harness=_H, flavour="asan", mode="udp", args=["--watchdog", "240"], quick=6000, thorough=300000),
        dict(name="wrap", harness=_H, flavour="asan", mode="wrap", args=["--watchdog", "600"], quick=2, thorough=24, scalable=False),
    ],
    rule="TBD",
    assumptions=[],
    technique="TBD",
    level_text="TBD",
    level_note="TBD",
    required_counters={"all": []},
)
