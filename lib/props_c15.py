"""C15 configuration (see lib/props.py for the format)."""

_H = "c15_dns"
# sendto/recvfrom of the library are routed through the harness: queries never leave the process in the probe legs, and in the
# udp leg the model is shown the datagram the client really consumed before the client parses it
_WRAP = ["-Wl,--wrap=sendto", "-Wl,--wrap=recvfrom"]

PROP = dict(
    harnesses={_H: dict(sources=["harness/c15_dns.cpp"], ldflags=_WRAP)},
    legs=[
        # one case = 4 well-formed replies + 250-450 hostile datagrams derived from one of them, each delivered twice
        dict(name="parse", harness=_H, flavour="asan", mode="parse", args=["--watchdog", "240"], quick=800, thorough=30000,
             case_timeout=600),
        # same workload (thinned to ~120 datagrams per case) under valgrind memcheck; the harness re-executes itself under valgrind
        dict(name="memcheck", harness=_H, flavour="plain", mode="memcheck", args=["--watchdog", "600"], quick=16, thorough=400,
             min_shard=2, case_timeout=900),
        dict(name="history", harness=_H, flavour="asan", mode="history", args=["--watchdog", "240"], quick=30000, thorough=1000000),
        dict(name="udp", harness=_H, flavour="asan", mode="udp", args=["--watchdog", "240"], quick=6000, thorough=200000),
        # one case = one client, 65537..68536 lookups (16-bit id wrap-around)
        dict(name="wrap", harness=_H, flavour="asan", mode="wrap", args=["--watchdog", "600"], quick=2, thorough=24, scalable=False),
    ],
    rule=("parse / memcheck: a seeded well-formed reply (question echoed; 0-8 answer records of type A, CNAME, AAAA, NS, MX, SOA, TXT and unknown types "
          "with RDLENGTH 0-40; optional authority/additional records; owner and RDATA names written as literal labels, as the usual 0xC00C pointer, as "
          "labels + backward pointer, pointer-to-pointer up to depth 8, labels up to 63 and names up to 255 bytes) must complete a fresh outstanding lookup "
          "with kSuccess and exactly the A/CNAME records (address bytes, names, TTLs) an independent RFC 1035 reader (harness/c15_ref.hpp) extracts. From it are "
          "derived: truncation at EVERY offset (a sample of offsets for replies over 160 bytes in half of the cases), answer/question/authority counts inflated "
          "(+1,+2,+7,+255,+256, 0xFFFF), deflated and zeroed, the 27-byte one-A-record/count-0xFFFF datagram, compression pointers to themselves, 2-cycles, appended "
          "3-6-cycles, forward and backward chains of 9..1500 pointers, pointers past the end / to the last byte / into the header / forwards, label lengths "
          "0x3f/0x40/0x7f/0x80/0xbf/0xc0/0xff/'rest of packet', RDLENGTH lies on A, CNAME and other records, type flips to A/CNAME, 1-4 byte flips, trailing bytes, "
          "QR clear, opcode, TC, every rcode 1-15 with full and short headers, ids off by one and random, random bytes of 0..64 bytes, CNAME names with NUL, '.', "
          "high bytes; 4 replies per case whose CNAME records have RDLENGTH = name length + 1..40 slack bytes (zeros, random bytes, bytes shaped like a "
          "complete A record or like a record header; the name literal, labels + pointer, or a bare 2-byte pointer) followed by further real A/CNAME records, with "
          "unknown-type records carrying the same shaped bytes as control, plus cuts of one of them. Every datagram is handed to the real DnsRequest::onUdpRecv (probe subclass) from an exactly sized heap block for a fresh lookup among 0-2 "
          "other outstanding lookups, twice with differently pre-filled stacks; datagrams whose pointers form a cycle or a chain longer than 16 run in a forked "
          "child. Whatever the callback reports must be an in-order sub-sequence of the records completely present in the datagram under some reading of "
          "inconsistent RDLENGTHs; malformed datagrams may complete the lookup or be ignored. Non-trivial = the base reply carried at least one A/CNAME record; "
          "distinct = hash of the base reply. "
          "history / udp: 12-45 operations on one client with 1-3 servers under a virtual monotonic clock: lookup (30% with a callback that starts another lookup "
          "or cancels another outstanding one), cancel (outstanding / finished / never issued id), reply to an outstanding lookup from a chosen server (10% CNAME-with-slack replies as in the parse leg; of the rest well-formed "
          "42%, name error, format error, server failures rcode 2/4/5/6/9/15, malformed, query echoed back, neighbouring id), duplicate of any earlier datagram "
          "from the same or another server, stale reply for a finished lookup, datagram while nothing is outstanding, clock advance of 1..1000 ms, isRunning probes; "
          "then time runs until everything outstanding has timed out, and late replies for timed-out, cancelled and completed lookups are delivered. udp: same "
          "scripts plus, for one reply in seven, a well-formed reply of 4097..9000 bytes (padding records of unknown type, then an A/CNAME record whose RDATA or header "
          "straddles offset 4096, starts at it or lies behind it; followed by a normal reply half of the time): the client's receive buffer holds 4096 bytes, so the model "
          "judges it on the first 4096 bytes only (a reply cut inside a record: may be ignored or answered from the bytes held; an address from behind the buffer is not "
          "encoded in what was received). The datagrams are sent by three fake servers bound to 127.0.0.{1,2,3}:53 in a private network namespace and reach the client through "
          "UdpSocket and the loop's fd event. Non-trivial = at least one completed lookup, two replies, and one cancelled or timed-out lookup; distinct = hash of "
          "the operation script. wrap: one client, 65537+ lookups (60% answered, 20% cancelled, 20% left to time out), the clock advancing every 40 lookups."),
    assumptions=[
        "'acceptable reply' is decided as: id of an outstanding lookup, QR set, opcode 0, rcode 0, TC and Z clear, one question, all four sections parse with the "
        "counts given and end exactly at the end of the datagram, labels <= 63 bytes of [A-Za-z0-9_-], names <= 255 bytes, compression pointers strictly backwards "
        "and at most 8 per name, A RDLENGTH 4, CNAME name filling its RDATA, class IN. Such a reply must complete the lookup with exactly its records. Any other "
        "rcode-0 datagram may complete the lookup (with kSuccess or kFail) or be ignored; what it reports is still held to 'encoded in the datagram'",
        "'encoded in the datagram': every record is framed by its RDLENGTH (RFC 1035 3.2.1): an A record counts if its RDATA lies inside the datagram and holds at "
        "least 4 bytes, a CNAME if its RDATA lies inside the datagram and its name decodes from the start of the RDATA; bytes of the RDATA behind the address / the name "
        "are opaque and the next record starts at RDATA + RDLENGTH (only where a CNAME's name runs PAST its RDATA are both continuations tolerated); class is ignored; "
        "'abc.' and 'abc' are one name",
        "a rcode-0 reply that parses completely under RDLENGTH framing and ends at the end of the datagram, but is outside the narrow 'acceptable' class only for a "
        "soft reason (slack behind a CNAME's name, odd label bytes, forward or deep pointers, TC/opcode/Z bits, question count, class) may be refused, but if the "
        "client answers kSuccess from it the A and CNAME lists must be exactly its answer-section records (not a sub-sequence)",
        "error replies: rcode 3 -> kDomainError, rcode 1 -> kFail (as the Status enum documents); any other rcode counts as a server failure: no callback while fewer "
        "failures than servers have arrived, kAllDnsFail once every configured server has failed; while one server repeats its failure both waiting and completing "
        "are accepted. Error replies with fewer than 12 bytes or a non-zero opcode may be ignored",
        "timeout: a lookup that is not completed otherwise gets kTimeout not earlier than 4000 ms and not later than the first loop pass at or after 5000 ms of "
        "virtual time after request() (five one-second ticks); the clock is advanced in steps of at most 1000 ms with two loop passes after each step",
        "callbacks do not cancel their own lookup (DnsRequest erases the lookup after the callback returns); they do start lookups and cancel other lookups",
        "cancel() returns true exactly for an outstanding lookup and isRunning() tells whether a lookup is outstanding (checked outside callbacks only)",
        "fewer than 65536 lookups are started within any 5 s of virtual time (an id is not reused while its previous user is outstanding or still has a timeout token)",
        "uninitialised reads are decided by valgrind memcheck on the plain build (about 120 datagrams per case); in the asan leg they are only visible through their "
        "effect: an outcome that changes with the stale contents of the stack. Datagrams run in the isolated child are not run under memcheck",
        "a datagram longer than the 4096-byte buffer UdpSocket reads into counts as received only up to 4096 bytes (the kernel discards the rest); the model is shown "
        "min(return value of recvfrom, buffer size) bytes, so it never credits the client with bytes it cannot hold",
        "the udp leg needs CAP_SYS_ADMIN (unshare(CLONE_NEWNET)) to get a private loopback on which 127.0.0.{1,2,3}:53 can be bound without disturbing the host",
    ],
    technique=("runtime monitoring: the real DnsRequest parses generated and hostile datagrams under ASan+UBSan (exactly sized inputs), valgrind memcheck and in an isolated "
               "child process; an independent strict RFC 1035 reader decides what a datagram encodes; a lock-step model of outstanding lookups decides exactly-once over "
               "generated histories with a virtual clock, through a probe subclass and through real UDP sockets in a private network namespace"),
    level_text=("Every datagram of every case is parsed by the real client while AddressSanitizer/UBSan (and memcheck, for a sub-sample) watch, its reported addresses and names "
                "are compared with an independent reader of the same bytes, pointer cycles and long chains are run in a child process whose death is a datum, and every callback "
                "of every generated history (replies from 1-3 servers in any order, duplicates, stale and late replies, cancels, callbacks that start and cancel lookups, clock "
                "advances, id wrap-around) is matched against a model of the outstanding lookups. Truncation is enumerated at every offset of each base reply. Held on the "
                "datagrams and histories explored, not a proof."),
    level_note=("trusts harness/c15_ref.hpp (cross-checked against the generator's by-construction record lists on every case), gcc ASan/UBSan, valgrind memcheck, the "
                "steady-clock hook, and the --wrap interposition of sendto/recvfrom"),
    required_counters={
        "quick": [
            # serializer.cpp bounds checks underneath every field read
            "dgclass_cut", "dgram_short-header", "dgram_datagram-without-id-and-flags", "dgram_answer-record-header-cut", "dgram_answer-rdata-cut",
            "dgram_answer-owner-label-past-end", "dgram_question-cut", "dgclass_an-ffff", "dgclass_one-a-count-ffff", "dgclass_rdlength-a", "dgclass_rdlength-cname",
            "dgclass_random", "dgclass_byte-flips",
            # name decoder / compression pointers
            "strict_replies_with_compression", "datagrams_with_pointer_cycle", "datagrams_with_pointer_chain_over_16", "datagrams_run_in_isolated_child",
            "isolated_children_returned", "dgclass_ptr-self", "dgclass_ptr-2cycle", "dgclass_ptr-outside", "dgclass_ptr-chain-backward", "dgclass_ptr-chain-forward",
            "dgram_answer-cname-pointer-out-of-range", "dgram_answer-owner-pointer-loop", "dgclass_odd-names",
            # record framing by RDLENGTH: CNAMEs with slack behind the name (shaped like records), real records behind them
            "cname_rdlength_longer_than_name", "cname_slack_shaped_like_a_record", "cname_slack_shaped_like_a_record_header",
            "cname_slack_after_compression_pointer", "records_after_slack_cname", "unknown_type_records_with_record_shaped_rdata",
            "slack_cname_replies_delivered_exactly", "dgram_cname-rdlength-longer-than-name",
            # reported vs encoded, uninitialised reads
            "strict_replies_delivered", "strict_replies_with_cname", "strict_replies_with_other_types", "strict_replies_without_a_or_cname",
            "reported_records_checked_against_reference", "differential_pairs", "memcheck_datagrams",
            # reply matched by id; server failures wait for the other servers
            "dgram_no-outstanding-lookup-has-this-id", "dgram_query-not-reply", "dgram_name-error-reply", "dgram_format-error-reply",
            "servfail_waits_for_other_servers", "dgram_server-failure-from-every-server", "dgram_server-failure-repeated-by-one-server",
            # lookup erased on completion, timeout or cancel
            "lookups_completed_exactly_once", "lookups_timed_out", "cancelled_lookups_never_called", "cancel_outstanding", "cancel_not_outstanding",
            "late_reply_after_timeout", "late_reply_after_cancel", "late_reply_after_completion", "timeout_at_4000ms_edge", "timeout_at_5000ms_edge",
            "reentrant_request_in_callback", "reentrant_cancel_other_in_callback", "isrunning_checks", "datagrams_sent_while_no_lookup_outstanding",
            # udp_socket.cpp path
            "udp_datagrams_sent_by_fake_servers", "udp_datagrams_consumed_by_client", "udp_queries_received_by_fake_servers",
            # datagrams longer than UdpSocket's 4096-byte receive buffer, records straddling / behind the buffer end
            "udp_oversized_datagrams_sent", "udp_oversized_reply_crossing_4096", "udp_oversized_followed_by_normal_reply",
            # id wrap-around
            "id_counter_wrapped",
        ],
    },
)
PROP["required_counters"]["thorough"] = PROP["required_counters"]["quick"]
