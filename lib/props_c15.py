"""C15 configuration (see lib/props.py for the format)."""

_H = "c15_dns"
_WRAP = ["-Wl,--wrap=sendto", "-Wl,--wrap=recvfrom"]

PROP = dict(
    harnesses={_H: dict(sources=["harness/c15_dns.cpp"], ldflags=_WRAP)},
    legs=[
        dict(name="parse", harness=_H, flavour="asan", mode="parse", args=["--watchdog", "240"], quick=400, thorough=40000,
             case_timeout=600),
        dict(name="memcheck", harness=_H, flavour="plain", mode="memcheck", args=["--watchdog", "600"], quick=24, thorough=1200,
             min_shard=6, case_timeout=900),
        dict(name="history", harness=_H, flavour="asan", mode="history", args=["--watchdog", "240"], quick=6000, thorough=400000),
        dict(name="udp", harness=_H, flavour="asan", mode="udp", args=["--watchdog", "240"], quick=1500, thorough=60000),
        dict(name="wrap", harness=_H, flavour="asan", mode="wrap", args=["--watchdog", "600"], quick=0, thorough=16, scalable=False),
    ],
    rule="TBD",
    assumptions=[],
    technique="TBD",
    level_text="TBD",
    level_note="TBD",
    required_counters={"all": []},
)
