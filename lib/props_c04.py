"""C04 configuration (format: lib/props.py)."""

_A = ["--watchdog", "60"]
PROP = dict(
    harnesses={"c04_signal": dict(sources=["harness/c04_signal.cpp"])},
    legs=[
        dict(name="random", harness="c04_signal", flavour="asan", mode="random", quick=2000, thorough=100000, args=_A, case_timeout=120, concurrent=True),
        dict(name="enum-depth5", harness="c04_signal", flavour="asan", mode="enum", quick=67228, thorough=0, args=_A + ["--depth", "5"], case_timeout=120,
             scalable=False, exhaustive=True, concurrent=True),
        dict(name="badsig", harness="c04_signal", flavour="asan", mode="badsig", quick=600, thorough=20000, args=_A, case_timeout=120,
             seed_offset=104729, concurrent=True),
        dict(name="disposition-matrix", harness="c04_signal", flavour="asan", mode="matrix", quick=320, thorough=320, args=["--watchdog", "0"],
             case_timeout=120, scalable=False, exhaustive=True),
        dict(name="tsan", harness="c04_signal", flavour="tsan", mode="random", quick=300, thorough=10000, args=_A + ["--only-raise", "1"], case_timeout=120,
             seed_offset=7919, concurrent=True),
    ],
    rule="TODO",
    assumptions=[],
    technique="TODO",
    level_text="TODO",
    level_note="TODO",
    required_counters={"all": []},
)
