"""C04 configuration (format: lib/props.py)."""

_A = ["--watchdog", "60"]
PROP = dict(
    harnesses={"c04_signal": dict(sources=["harness/c04_signal.cpp"])},
    legs=[
        dict(name="random", harness="c04_signal", flavour="asan", mode="random", quick=2000, thorough=100000, args=_A, case_timeout=120),
    ],
    rule="TODO",
    assumptions=[],
    technique="TODO",
    level_text="TODO",
    level_note="TODO",
    required_counters={"all": []},
)
