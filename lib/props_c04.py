"""C04 configuration (format: lib/props.py)."""

_A = ["--watchdog", "25"]     # a case takes milliseconds; the runner re-runs a stalled case alone (case_timeout) before calling it a hang
PROP = dict(
    harnesses={"c04_signal": dict(sources=["harness/c04_signal.cpp"])},
    legs=[
        dict(name="histories", harness="c04_signal", flavour="asan", mode="random", quick=6000, thorough=1000000, args=_A, case_timeout=20, concurrent=True),
        dict(name="enum-depth5", harness="c04_signal", flavour="asan", mode="enum", quick=67228, thorough=0, args=_A + ["--depth", "5"], case_timeout=20,
             scalable=False, exhaustive=True, concurrent=True),
        dict(name="enum-depth6", harness="c04_signal", flavour="asan", mode="enum", quick=0, thorough=470596, args=_A + ["--depth", "6"], case_timeout=20,
             scalable=False, exhaustive=True, concurrent=True),
        dict(name="badsig", harness="c04_signal", flavour="asan", mode="badsig", quick=1500, thorough=150000, args=_A, case_timeout=20,
             seed_offset=104729, concurrent=True),
        dict(name="disposition-matrix", harness="c04_signal", flavour="asan", mode="matrix", quick=320, thorough=320, args=["--watchdog", "0"],
             case_timeout=20, scalable=False, exhaustive=True),
        dict(name="tsan-histories", harness="c04_signal", flavour="tsan", mode="random", quick=600, thorough=40000, args=_A + ["--only-raise", "1"], case_timeout=20,
             seed_offset=7919, concurrent=True),
    ],
    rule=("histories: 1-3 real loops (epoll/select), each on its own thread - in one history of six 9-24 loops, (nearly) every one with an event on the same "
          "signal enabled in a seeded order before the history churns them; 1-4 of the signals SIGUSR1 SIGUSR2 SIGHUP SIGRTMIN+3..5, each given a seeded "
          "disposition before the first subscription (SIG_DFL, SIG_IGN, SIG_DFL stored with SA_SIGINFO, two sa_handler sentinels, two SA_SIGINFO sentinels; flags from "
          "{0, RESTART, NODEFER, RESTART|ONSTACK, NODEFER|RESTART}; a random sa_mask); in one case of three some events are created/enabled (and signals raised) "
          "before the loop threads exist; then 20-60 steps: create (initialize(int) / std::set / initializer_list; persistent, one-shot, persistent that "
          "disables itself in its callback, one-shot that re-enables itself in its callback), enable, disable, destroy (also while enabled, also enable/disable "
          "twice), 2-3 such operations inside one loop task, re-installing the disposition of a signal nobody is subscribed to, and deliveries: raise() or "
          "pthread_sigqueue() to the calling thread from the orchestrator, raise() inside a task on a loop thread, or (a quarter of the single deliveries, asan legs) "
          "pthread_kill() at the thread of a chosen loop that /proc shows blocked in its epoll/select wait (three barrier rounds then), one at a time, bursts of 2-25 back-to-back "
          "(one delivery step in five: 2-14 deliveries of mostly different signal numbers raised while every loop thread is parked inside a task, after which 0-2 "
          "of the subscribed events are disabled/destroyed on their loop before it reads its pipe; three single deliveries in four, where a loop has >= 3 enabled "
          "events on the signal: the callback of one persistent event disables a sibling, all six address orders of disabler/victim/bystander counted) "
          "deliveries only while no one-shot/self-modifying event is enabled; every operation is run on the owning loop and acknowledged, every delivery is "
          "followed by two acknowledged barrier tasks per loop before the counts are compared with the model; the disposition of every signal without a model "
          "subscriber is compared with the snapshot taken before the first subscription after EVERY step; teardown destroys the remaining events on their loops "
          "or (one case in three) after the loop threads were stopped. badsig: the same histories where 2 events in 5 also carry SIGKILL/SIGSTOP/100 in their "
          "set (enable() must fail; what is judged is only the state after such an event is destroyed). enum: every sequence of depth 5 (thorough 6) over "
          "{enable,disable} x {persistent@L0, one-shot@L0, persistent@L1} + {raise} on SIGUSR1, x 2 back-end assignments x {sa_handler, SA_SIGINFO} sentinel. "
          "matrix: every (old disposition kind incl. SIG_IGN stored with SA_SIGINFO) x flag set x back-end x {persistent, one-shot} x {raise, pthread_sigqueue}, "
          "run once in a forked child and once in-process. A history is non-trivial when it has >= 2 loops, one delivery reached >= 2 enabled events on >= 2 "
          "loops, and some signal went through a complete subscribe -> last-unsubscribe cycle (restoration checked) before teardown; distinct = distinct hashes "
          "of the generated script"),
    assumptions=["deliveries are synchronous and self-directed (raise()/pthread_sigqueue() to the calling thread), so the process-level handler has returned when the "
                 "raising call returns; two acknowledged barrier tasks per loop then bound the loop pass that reads the signal pipe (no wall-clock wait)",
                 "no subscription change is requested by the harness while a delivery is in progress; back-to-back bursts are generated only when no enabled event "
                 "changes its own subscription on delivery",
                 "a one-shot event may fire again after it has been enabled again ('at most once' is judged per enable)",
                 "events are never destroyed from inside a callback (a FIXME in the code, outside the quantifier); an event disabled by a sibling's callback in the middle "
                 "of a dispatch, or disabled/destroyed on its loop while deliveries are still queued in the loop's pipe, may get 0 or 1 callback per such delivery "
                 "(its place in the dispatch order is not specified) - every other enabled event is judged exactly; a one-shot that re-enables itself in its callback must "
                 "fire for the first of several queued deliveries, the later ones (raised before the re-enable) are judged 'at most one each'; re-initialising an event "
                 "is not generated",
                 "after enable() returned false nothing is assumed about the event until it is destroyed; afterwards it must be gone (disposition restored, no callback, "
                 "no use of the freed object)",
                 "pthread_kill() at an idle loop thread: the handler runs on that thread at its next return to user mode, hence before the thread can run a task posted "
                 "after pthread_kill() returned; the acknowledgement of that task marks the handler as finished (no wall-clock wait); never in bursts",
                 "the TSan leg uses raise() only: gcc TSan runs the handler of a self-directed raise() synchronously but defers pthread_sigqueue()"],
    technique=("lock-step reference model of per-signal subscriptions against real loops, real signals and real sigaction() readback; sentinel handlers installed "
               "before the first subscription; random histories, an exhaustively enumerated small alphabet and an exhaustive old-disposition matrix, under ASan+UBSan, "
               "plus ThreadSanitizer on the same histories"),
    level_text=("Thousands of generated subscribe/unsubscribe/delivery histories over up to three loop threads, with every callback counted per event, thread and "
                "signal number, every chained call of the pre-existing handler counted, and the process disposition read back with sigaction() after every step; "
                "all depth-5 (thorough: depth-6) sequences of a 7-operation alphabet and all 320 old-disposition combinations are enumerated. Held on the histories and "
                "schedules observed, not a proof."),
    level_note=("trusts the small subscription model, the synchronous-raise argument (POSIX: a self-directed signal is delivered before raise() returns) and gcc "
                "ASan/UBSan/TSan; thread schedules are sampled, so the handler-versus-unsubscribe overlap is found statistically (TSan reports it directly)"),
    required_counters={"all": ["deliveries", "callbacks_matched", "chained_previous_sa_handler", "chained_previous_sa_sigaction", "siginfo_value_passthrough_checked",
                               "first_subscribe_install", "last_unsubscribe_restore_checked", "restore_checked_old_DFL", "restore_checked_old_IGN",
                               "restore_checked_old_handler", "restore_checked_old_siginfo", "restore_checked_old_DFL_with_SA_SIGINFO",
                               "restore_checked_old_IGN_with_SA_SIGINFO", "disposition_changed_between_cycles",
                               "subscribe_second_loop_joins", "unsubscribe_loop_leaves_others_remain", "deliveries_to_2_loops", "deliveries_to_3_loops", "scenarios_wide_loop_population", "scenarios_with_more_than_8_loops_on_one_signal",
                               "max_loops_subscribed_to_one_signal", "deliveries_to_more_than_8_loops", "deliveries_to_more_than_16_loops",
                               "deliveries_raised_on_a_loop_thread", "deliveries_by_pthread_kill_at_waiting_loop_thread_epoll",
                               "deliveries_by_pthread_kill_at_waiting_loop_thread_select", "deliveries_by_pthread_kill_at_loop_thread_with_own_subscriber",
                               "handler_ran_on_loop_thread",
                               "held_bursts", "held_burst_release_ops", "pipes_with_several_queued_entries", "batches_with_stale_entry_before_live_entry",
                               "deliveries_with_sibling_disabled_in_callback_3plus_events", "address_order_disabler_victim_bystander",
                               "address_order_disabler_bystander_victim", "address_order_bystander_disabler_victim", "address_order_victim_disabler_bystander",
                               "address_order_victim_bystander_disabler", "address_order_bystander_victim_disabler", "deliveries_before_loop_started", "subscriptions_before_loop_started",
                               "oneshot_fired", "oneshot_multi_signal_fired", "restore_triggered_from_inside_dispatch", "window_reaction_may_overlap_handler",
                               "bursts_over_one_pipe_read", "loop_first_subscription_pipe_created", "loop_last_subscription_pipe_closed",
                               "teardown_destroy_after_loop_stopped", "loops_epoll", "loops_select", "enum_sequences",
                               "enable_failed_on_unsubscribable_signal", "destroyed_event_whose_enable_failed", "matrix_scenarios_in_forked_child"]},
)
