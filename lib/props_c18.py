"""C18 configuration (format: lib/props.py)."""

_H = "c18_coroutine"
_W = ["--watchdog", "20"]             # a case takes < 1 ms; 20 s without progress is re-run alone (case_timeout 15 s < watchdog, so the confirmation ends as a time-out) before it is called a hang
_A = ["--stack", "65536"] + _W

PROP = dict(
    harnesses={_H: dict(sources=["harness/c18_coroutine.cpp"], ldflags=["-Wl,-z,now"])},
    legs=[
        # quick and thorough tiers use separate leg entries only so that a hang is confirmed quickly in the quick tier
        # ASan+UBSan+LSan, 64 KiB stacks handed in through the public create() parameter
        dict(name="random-asan", harness=_H, flavour="asan", mode="random", args=_A,
             quick=150000, thorough=0, leaks=True, shard_timeout=240, case_timeout=15),
        dict(name="random-asan-long", harness=_H, flavour="asan", mode="random", args=_A,
             quick=0, thorough=8000000, leaks=True, shard_timeout=6000, case_timeout=15),
        # as users run it: no sanitizer, the default 8 KiB routine stacks
        dict(name="random-plain", harness=_H, flavour="plain", mode="random-plain", args=_W, seed_offset=104729,
             quick=400000, thorough=0, shard_timeout=240, case_timeout=15),
        dict(name="random-plain-long", harness=_H, flavour="plain", mode="random-plain", args=_W, seed_offset=104729,
             quick=0, thorough=40000000, shard_timeout=6000, case_timeout=15),
        dict(name="exhaustive-depth3", harness=_H, flavour="asan", mode="exhaustive", args=_A + ["--depth", "3"],
             quick=182637, thorough=0, scalable=False, exhaustive=True, leaks=True, shard_timeout=240, case_timeout=15),
        dict(name="exhaustive-depth4", harness=_H, flavour="asan", mode="exhaustive4", args=_A + ["--depth", "4"],
             quick=0, thorough=5227560, scalable=False, exhaustive=True, leaks=True, shard_timeout=6000, case_timeout=15),
        dict(name="exhaustive-cond", harness=_H, flavour="asan", mode="exhaustive-cond", args=_A,
             quick=106760, thorough=106760, scalable=False, exhaustive=True, leaks=True, shard_timeout=240, case_timeout=15),
        dict(name="directed", harness=_H, flavour="asan", mode="directed", args=_A,
             quick=48, thorough=48, scalable=False, leaks=True, shard_timeout=120, case_timeout=15, min_shard=48),
    ],
    rule=("random: a fresh Loop + Scheduler, 1-2 channels / mutexes / semaphores (initial 0-2), a broadcast, 1-2 conditions (All/Any, one "
          "designated waiter each), 1-8 routine scripts of 1-8 steps over yield, wait, send (1-3 values back-to-back), receive, lock..unlock "
          "(with 0-2 possibly blocking steps in between), acquire, release, broadcast wait/post, condition add / wait / post as separate steps "
          "(the waiter gives up the CPU 0-2 times between add() and wait(), so posts land before, between and after), join, create "
          "(run now / later), cancel, resume; a quarter of the scripts ignore cancellation and carry on to their end, a quarter do not "
          "unlock on the way out; 30% of the cases are mixed, the others concentrate on one primitive family so that several "
          "routines contend for one object. The main context runs from a loop callback: 0-6 actions (resume, cancel, send, release, post, "
          "create) each placed at the next idle point, 1-3 loop passes later or back-to-back, then cleanup() at an idle point, a pass "
          "boundary or at once. Every step logs call/return into one trace; FIFO/holder/count/condition shadows are rebuilt from the "
          "trace only and the safety clauses, the idle invariant (checked at every point where two whole loop passes ran no routine step) "
          "and the cancel/cleanup/join clauses are decided on it. exhaustive: every combination of 1-3 routines x 1-3 (thorough: 1-4) steps "
          "over {send,receive,yield}, {lock,unlock,yield}, {acquire,release,yield} (3 x 60 879 cases; thorough 3 x 1 742 520), run to idle, "
          "checked, cleaned up. exhaustive-cond: one Condition (All / Any), the waiter runs every script of 1-4 steps over {add 1, add 2, wait, "
          "yield} and 0-2 posters every script of 1-2 steps over {post 1, post 2, yield} (106 760 cases). directed: 24 hand-written histories (two waiters released by back-to-back posts, woken waiter loses the "
          "race, cancelled waiter in the queue, cancel/cleanup with a routine blocked in every kind of call, join shapes, condition posts between add() and wait()), each with both "
          "orders of the first loop pass. A case is non-trivial when at least two routines were really suspended inside a blocking call and "
          "at least one of them was woken through a primitive (exhaustive: one and one); distinct = distinct hashes of (objects, all "
          "scripts, main program)"),
    assumptions=[
        "routine scripts are finite; three quarters stop at the first cancelled yield()/wait() or failed blocking call (releasing the "
        "mutexes they hold when the script says it uses Mutex::Locker), the others ignore cancellation and run on to their end; a "
        "cancelled routine creates no new routine (create() inside cleanup()'s sweep is treated as misuse)",
        "each Condition has one designated waiter that alone calls add()/wait() (the header says it supports a single waiter); any "
        "context may post(); a listed value posted after add() counts as posted whether or not the waiter is inside wait() yet: once "
        "every added value (All) / any added value (Any) has been posted the waiter must have been resumed, or wait() must not block "
        "(the code returns false at once then; the return value is not judged)",
        "resume() is called on arbitrary routines, also ones suspended inside a primitive (a spurious wake-up): the anchors say waiters "
        "re-check in a loop; Broadcast::wait / Condition::wait returning early because of such a resume is not held against the "
        "property (it only demands that posted waiters are resumed), join() returning true early is (the property says join returns "
        "once its target has finished)",
        "join() returning false for a target that had already finished (its token is gone from the cabinet) or that somebody else "
        "joined is counted (join_false_*), not reported: the property only says that join returns; a routine never joins itself",
        "the scheduler is not used again after cleanup(); the Scheduler outlives the loop callbacks it queued",
        "semaphores start at 0..2; values are unique ints; scheduling is deterministic, so a case is a pure function of (seed, index)",
        "gcc ASan follows swapcontext onto the heap-allocated routine stacks (detect_stack_use_after_return is off); in the plain leg an "
        "overflow of the 8 KiB default stack would only be seen as heap corruption - the harness reports its own deepest frame "
        "(max_routine_stack_depth_seen_by_harness) and registers no log sink",
    ],
    technique=("runtime monitoring: generated and exhaustively enumerated routine scripts run on the real Scheduler/Channel/Mutex/Semaphore/"
               "Condition/Broadcast under ASan+UBSan+LSan and unsanitized; a call/return trace drives an independent shadow model and an "
               "idle-point invariant checker"),
    level_text=("Tens of thousands (quick) to millions (thorough) of deterministic scenarios against the real coroutine code, plus the complete "
                "space of <=3 routines x <=3 steps for the three wake-one primitives; every receive, lock, acquire, join, cancel and cleanup "
                "outcome is compared with a shadow rebuilt from the call/return trace, and at every idle point no routine may be left "
                "suspended on an available resource. Held on the scripts and main-context schedules explored, not a proof."),
    level_note=("trusts the harness's shadow model and idle detection (two consecutive loop passes without a routine step), gcc ASan/UBSan/LSan "
                "across swapcontext; routine scripts are bounded to 8 routines x ~10 steps"),
    required_counters={"all": [
        # scheduler: ready queue, wait/yield switch back, resume, create now/later
        "routines_started", "yield_rescheduled", "wait_resumed", "resume_of_waiting_routine", "resume_starts_routine",
        "create_from_routine", "create_run_later", "idle_points_checked", "idle_routines_legitimately_blocked",
        # channel / mutex / semaphore waiter queues and the windows the unit tests never reach
        "chan_recv_immediate", "chan_recv_blocked_then_woken", "chan_send_with_waiter", "chan_back_to_back_sends_two_waiters",
        "mutex_lock_immediate", "mutex_lock_blocked_then_acquired", "mutex_unlock_with_waiter", "mutex_relocked_before_woken_waiter_ran",
        "mutex_lock_reentrant",
        "sem_acquire_immediate", "sem_acquire_blocked_then_granted", "sem_release_with_waiter", "sem_back_to_back_releases_two_waiters",
        # broadcast / condition
        "bcast_post_with_two_or_more_waiters", "bcast_waiter_resumed", "cond_all_satisfied_with_waiter", "cond_any_satisfied_with_waiter",
        "cond_waiter_resumed",
        "cond_post_between_add_and_wait", "cond_wait_called_after_early_partial_post", "cond_waiter_resumed_after_early_post",
        "cond_wait_returned_immediately_already_satisfied",
        # join, cancel, cleanup
        "join_blocked_then_target_finished", "cancel_of_blocked_routine", "cancel_blocked_call_returned_failure",
        "cancel_of_unstarted_routine", "cleanup_with_blocked_routines", "cleanup_with_unstarted_routines",
        "routines_ended_after_cancel", "spurious_resume_of_blocked_routine",
    ]},
)
