"""C03 configuration (see lib/props.py for the format)."""

_WD = ["--watchdog", "120"]

PROP = dict(
    harnesses={"c03_fd_events": dict(sources=["harness/c03_fd_events.cpp"])},
    legs=[
        # 14 hand-written minimal histories x {epoll, select} + 3 differential close-while-enabled / number re-use histories
        # + 2 wait-failure histories (EINTR, EBADF) x {epoll, select} + 3 differential re-initialisation histories
        dict(name="directed", harness="c03_fd_events", flavour="asan", mode="directed", quick=38, thorough=38, scalable=False,
             args=_WD, case_timeout=120),
        # case 2k = scenario k on epoll, 2k+1 = the same scenario on select; scenario class k%4 limits the destructive actions
        dict(name="safety", harness="c03_fd_events", flavour="asan", mode="safety", quick=210000, thorough=6200000,
             args=_WD, case_timeout=120),
        # one case = one order-independent scenario run on epoll and on select in the same process, callbacks compared per pass
        dict(name="equiv", harness="c03_fd_events", flavour="asan", mode="equiv", quick=90000, thorough=2900000,
             args=_WD, case_timeout=120),
    ],
    rule=("safety: a seeded scenario of 2-5 pipes / AF_UNIX stream socket pairs (4-10 descriptors), 1-3 FdEvents on ~60% of the "
          "descriptors (read / write / read+write, 1 in 12 also except; 1 in 4 one-shot; shared descriptors) and 3-7 loop passes "
          "(runLoop(kOnce)). Before each pass every direction of every channel is left alone, drained, given one byte or filled until "
          "EAGAIN, events are enabled/disabled/destroyed/created outside callbacks, and the harness poll()s every descriptor itself. Each "
          "callback runs 0-3 actions drawn from: disable self, re-enable self (one-shot re-arm), consume, write a byte, delete self "
          "later through runNext, disable / enable / disable+enable / destroy another event (target chosen on the same descriptor, on "
          "another descriptor that is ready and not yet served in this pass, on one already served, on one that is not ready), destroy "
          "every event of another descriptor (then create a new event on a descriptor without a record, or close that descriptor), "
          "create a new event (same descriptor / ready / not ready / record-less), close own descriptor (siblings destroyed or disabled "
          "first, self disabled and deleted later), close the other end of the own channel. The same scenario is run on epoll (even "
          "case index) and select (odd). equiv: the same generator restricted to scripts that are order-independent by construction "
          "(a callback acts on itself or on events it owns whose descriptor has poll revents 0 in that pass, creates events only on such "
          "descriptors, closes only never-watched peers; no except mask, no writes), run on both back-ends in one process; the per-pass "
          "multisets of (event, reported mask & subscription) must be equal. One scenario in five of both legs is 'wide': 8-32 "
          "channels, most descriptors idle and without events, 8-12 or 23-28 registered descriptors at the start (just below the 14th / "
          "30th record of the loop's descriptor map, its own wake-up descriptor included), 40% of the callback actions create+enable an "
          "event on an already open descriptor the loop has no record for and 20% drain the own descriptor, so the map grows and "
          "re-hashes while a pass is being served; an event called a second time in one pass whose descriptor is no longer ready is a "
          "violation. In both legs one callback in eight tries, as its last step, to close() its own still-enabled descriptor "
          "(and the event-less other end) and only THEN disable every event of that number (equiv: only when no other event of the "
          "descriptor was enabled when the pass started and the other end is never watched); between passes such a number is re-opened "
          "with probability 2/3 as a new pipe / socket pair end (dup2 onto the number, other end parked at >= 300), the events left on it "
          "are enabled again (3/4 each), a new event is added to the surviving record (1/3) and the end is made ready; otherwise the "
          "loop's own wake-up descriptor of the next pass may take the number. Failed waits: one scenario in five of both legs has "
          "one pass (not the first) before which every descriptor is drained and every still-due event disabled, run WITHOUT the "
          "zero-timeout trick (5 s guard timer) while a helper thread sends SIGUSR2 (no-op handler, no SA_RESTART) to the loop thread "
          "every 60 us until the pass returns: the wait fails with EINTR and no callback may happen; one safety scenario in five "
          "(class 3) leaves events ENABLED on descriptors it closes (inside a callback, 1 callback in 6; between passes, 1 in 4) with a "
          "lower descriptor number kept free so the loop's wake-up descriptor never lands on such a number: select's wait fails with "
          "EBADF (the loop disables those events itself), epoll's registration is simply gone; such events must never be called once a "
          "pass started with their descriptor closed, and isEnabled() of them is not judged. Every descriptor gets FD_CLOEXEC or not "
          "by a per-descriptor coin. Re-initialisation: between passes (1 in 2) and inside callbacks (safety 7% of the actions on any "
          "other event, equiv 2 in 10 of the actions on owned events of idle descriptors) an event is (2/3: first disabled,) "
          "initialize()d again - same descriptor with a new mask/mode (2/10), a descriptor without a record (3/10), a descriptor other "
          "enabled events hold (5/10) - and enabled (2/3); on an enabled event the call must be refused. directed: 14 minimal histories x 2 back-ends, plus 3 "
          "differential histories (close while enabled, disable, re-open the number, enable the same / a sibling / a new event) and 2 "
          "wait-failure histories (EINTR with four enabled non-ready events; EBADF after a callback closed another event's descriptor) "
          "x 2 back-ends, 3 differential re-initialisation histories (E1 re-targeted onto the descriptor E2 is enabled on; E1 "
          "enabled too; E1 destroyed later from another descriptor's callback). "
          "A case is non-trivial when some pass had at least two descriptors with a due enabled event and a callback changed another "
          "event (enable/disable/destroy/create); distinct = distinct hashes of the executed action script (kinds, target classes, "
          "descriptors, masks, readiness shaping) among those"),
    assumptions=[
        "a descriptor is closed either after every event on it has been destroyed or disabled, or while events on it are enabled provided "
        "the same callback disables every event of that number before it returns (close-then-disable, what sloppy EOF handlers do); no "
        "event is ever left enabled on a closed descriptor when control returns to the loop (the kernel recycles the number: the loop's "
        "own wake-up descriptor would inherit an active record); events left disabled on a closed descriptor are enabled again only "
        "after the harness has re-opened that number",
        "events left enabled on a closed descriptor (ebadf scenarios only) are API misuse that both back-ends must survive: the harness keeps "
        "the number from being recycled (a lower number stays free for the loop's wake-up descriptor, the number is never re-opened), does "
        "not judge isEnabled() of such events (select disables them by itself after EBADF, epoll does not) and does not compare the "
        "back-ends on these scenarios (select delivers nothing in the pass whose wait failed); they may still be disabled or destroyed. In these scenarios the model demands service itself: an "
        "event enabled at the start of a pass whose wait did not fail, untouched during the pass, on an open descriptor that poll() "
        "reported POLLIN/POLLHUP (read) or POLLOUT (write) for, must be called in that pass, and a healthy event must never lose "
        "isEnabled() (select: also across the EBADF pass)",
        "initialize() on an event that was initialised before (re-targeting): refused (returns false, nothing changes) while the event is "
        "enabled - this is what the code does and what the model expects; a one-shot event is only ever re-initialised as one-shot (the "
        "mode flag is sticky in the implementation); the RUNNING event is never re-initialised from inside its own callback (see "
        "findings (i): HEAD reads a released record when the running event re-targets itself and deletes its last sibling)",
        "whether a wait really failed with EINTR is inferred: the pass returned although no enabled event was due, no task was queued, the "
        "5 s guard timer did not fire and the signal handler ran; the verdict (no callback) does not depend on it",
        "no descriptor is opened while a pass is in progress (numbers are re-opened between passes only), so a descriptor number is never closed and re-opened between the back-end's "
        "wait and the end of the pass (both back-ends identify a descriptor by its number)",
        "an event is never deleted or re-initialised from inside its own callback (the code asserts against the former; the documented "
        "idiom, deletion through runNext, is generated); initialize() is called once per event",
        "readiness is what the harness's own poll() reported immediately before runLoop(kOnce); POLLHUP/POLLERR are accepted as "
        "justification for any reported condition (the back-ends map them differently); within one pass the back-end waits once, so "
        "readiness created during the pass is not expected to be delivered in it",
        "equivalence is claimed for the order-independent class only, without except subscriptions and without closing the read end of "
        "a pipe whose write end is watched (a full pipe without reader reports only an error condition, which select maps to writable "
        "and epoll to except)",
        "use of a destroyed event or of a released per-descriptor record is observed through AddressSanitizer and the object-pool "
        "poisoning hook; a touch that stays inside a live reallocation of the same block would only be seen through the model checks",
    ],
    technique=("runtime monitoring of the real epoll and select back-ends over real pipes/socket pairs: independent model of alive/enabled/"
               "one-shot/subscription state plus the harness's own poll() snapshot checked at every callback, try/catch around every pass, "
               "ASan+UBSan with poisoned pooled records, differential comparison of the two back-ends on order-independent scenarios"),
    level_text=("Every callback of every generated history is checked against an independent model (event alive and enabled, one-shot "
                "already disabled, reported mask within the subscription, descriptor ready in the harness's own poll() snapshot), every "
                "pass is wrapped in try/catch, AddressSanitizer with pooled-record poisoning watches destroyed events and released "
                "records, and order-independent scenarios must produce identical callbacks on epoll and select. Held on the histories "
                "explored, not a proof."),
    level_note=("trusts the harness model, poll() as ground truth for readiness, gcc ASan/UBSan and the pool-poisoning hook; which ready "
                "descriptor a back-end serves first is not controlled, only varied by the generator (symmetric scripts in the directed set)"),
    required_counters={"all": [
        "cb_epoll", "cb_select", "cb_oneshot", "cb_on_shared_fd", "cb_on_hup_fd",
        "pass_two_or_more_fds_due", "pass_shared_fd_due", "snap_fd_readable_not_writable", "snap_fd_not_ready",
        # the running event
        "act_disable_self_while_enabled", "act_oneshot_rearm_in_own_callback", "act_deferred_self_delete", "deferred_delete_executed",
        # other events: same descriptor / another descriptor that is ready and still waiting to be served in the same pass
        "act_disable_enabled_on_same_fd", "act_disable_enabled_on_other_ready_unserved_fd",
        "act_enable_on_same_fd", "act_enable_on_other_ready_unserved_fd",
        "act_toggle_on_same_fd", "act_toggle_on_other_ready_unserved_fd",
        "act_destroy_enabled_on_same_fd", "act_destroy_enabled_on_other_ready_unserved_fd",
        # shared record released to the pool while its descriptor is still waiting; pooled record re-used in the same pass
        "act_destroy_all_on_other_ready_unserved_fd", "record_released_while_fd_ready_and_unserved",
        "create_takes_record_released_in_same_pass", "create_shares_existing_record", "act_create_enabled_on_ready_unserved_fd",
        # close
        "act_close_own_fd", "act_close_other_fd_after_destroying_its_events", "act_close_peer", "act_close_fd_with_disabled_events_left",
        # back-end equivalence
        "equiv_scenarios_compared", "equiv_callbacks_matched", "equiv_passes_with_two_or_more_callbacks",
        "directed_cases",
        # wide scenarios: descriptors registered from inside callbacks while the loop's descriptor map crosses its growth thresholds
        "wide_scenarios", "max_registered_descriptors", "new_descriptor_registered_in_callback",
        "new_descriptor_registered_in_callback_with_ge_13_records", "registration_in_callback_grows_map_to_14_records",
        "registration_in_callback_grows_map_to_30_records", "map_growth_in_callback_between_served_and_unserved_fds",
        # descriptor closed while enabled, then disabled; record survives; number re-opened; same / sibling / new event enabled again
        "act_close_own_fd_while_enabled_then_disable", "act_close_own_fd_while_sibling_enabled_too",
        "fd_number_reopened_with_surviving_record", "fd_closed_while_enabled_then_number_reused_and_reenabled",
        "new_event_enabled_on_reused_fd_number_with_surviving_record", "event_due_on_reused_fd_number_with_surviving_record",
        "cb_on_reused_fd_number_with_surviving_record", "directed_reuse_number_pairs",
        # failed waits: EINTR with enabled events that are not ready; EBADF because events were left enabled on a closed descriptor
        "interrupted_passes", "select_wait_failed_eintr_with_nonready_enabled_events", "epoll_wait_failed_eintr_with_nonready_enabled_events",
        "act_close_own_fd_leaving_events_enabled", "act_close_own_fd_leaving_two_or_more_events_enabled",
        "close_between_passes_leaving_events_enabled", "select_pass_with_enabled_event_on_closed_fd",
        "epoll_pass_with_enabled_event_on_closed_fd", "wait_failed_ebadf_with_nonready_enabled_events",
        "select_auto_disabled_event_left_enabled_on_closed_fd", "directed_eintr_cases", "directed_ebadf_cases",
        # initialize() on an already initialised event; descriptors without close-on-exec; service demanded by the model after EBADF
        "reinit_in_callback", "reinit_between_passes", "reinit_same_descriptor", "reinit_onto_unwatched_descriptor",
        "reinit_onto_descriptor_shared_with_enabled_events", "reinit_onto_descriptor_with_one_enabled_holder",
        "reinit_of_enabled_event", "reinit_releases_old_record", "reinit_then_enabled", "cb_on_reinitialised_event",
        "directed_reinit_pairs", "desc_without_cloexec", "desc_with_cloexec", "select_ebadf_pass_with_healthy_events",
        "ebadf_pass_with_healthy_event_on_non_cloexec_descriptor", "ebadf_pass_due_event_deferred_to_next_pass",
        "liveness_checked_due_events",
    ]},
)
