"""C03 configuration (see lib/props.py for the format)."""

PROP = dict(
    harnesses={"c03_fd_events": dict(sources=["harness/c03_fd_events.cpp"])},
    legs=[
        dict(name="directed", harness="c03_fd_events", flavour="asan", mode="directed", quick=28, thorough=28, scalable=False,
             args=["--watchdog", "120"], case_timeout=120),
        dict(name="safety", harness="c03_fd_events", flavour="asan", mode="safety", quick=400000, thorough=12000000,
             args=["--watchdog", "120"], case_timeout=120),
        dict(name="equiv", harness="c03_fd_events", flavour="asan", mode="equiv", quick=160000, thorough=5000000,
             args=["--watchdog", "120"], case_timeout=120),
    ],
    rule="TBD",
    assumptions=[],
    technique="TBD",
    level_text="TBD",
    level_note="TBD",
    required_counters={"all": []},
)
