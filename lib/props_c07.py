"""C07 configuration (see lib/props.py for the format)."""

PROP = dict(
    harnesses={"c07_buffer": dict(sources=["harness/c07_buffer.cpp"])},
    legs=[
        dict(name="random", harness="c07_buffer", flavour="asan", mode="random", quick=150000, thorough=4000000),
        dict(name="exhaustive-depth4", harness="c07_buffer", flavour="asan", mode="exhaustive", args=["--depth", "4"],
             quick=3073280, thorough=0, scalable=False, exhaustive=True),
        dict(name="exhaustive-depth5", harness="c07_buffer", flavour="asan", mode="exhaustive", args=["--depth", "5"],
             quick=0, thorough=86051840, scalable=False, exhaustive=True),
    ],
    rule=("random: seeded sequences of 20-80 operations (append, reserve-write-commit, fetch, hasRead, hasReadAll, shrink, "
          "reset, copy/move construct and assign incl. self, swap, destroy) over up to 4 live Buffers with initial capacity in "
          "{0,1,2,7,256,4096} and sizes drawn from {0,1,free-1,free,free+1,free+read_offset (exact compaction fit),that+1,4*cap,...}; "
          "after every operation every live buffer is compared byte-for-byte with a std::string FIFO model. "
          "exhaustive: every sequence of fixed depth over a 28-operation alphabet (sizes <= 7) on capacities 0..4 with a scratch copy. "
          "A case is non-trivial when it took the compaction branch and also a reallocation or an enough-room append with a non-zero "
          "read offset; distinct = distinct operation-sequence hashes among the non-trivial cases"),
    assumptions=["inputs and outputs are exactly sized heap blocks so ASan sees one-byte overruns; overflows that stay inside the "
                 "buffer's own allocation are only visible through the content comparison",
                 "hasRead(n) with n greater than readableSize() consumes everything (as the code documents)"],
    technique="lock-step reference model (std::string FIFO) over random and exhaustively enumerated operation sequences under ASan+UBSan",
    level_text=("Every operation of every generated sequence is compared with an independent FIFO model while AddressSanitizer/UBSan "
                "watch exactly sized inputs/outputs; a small alphabet is enumerated exhaustively to depth 4 (quick) / 5 (thorough). "
                "Held on the sequences explored, not a proof."),
    level_note="trusts the std::string model, gcc ASan/UBSan and the branch classification used only for coverage counters",
    required_counters={"all": ["branch_compact", "branch_realloc_nonzero_roff", "branch_realloc_zero_roff",
                               "branch_enough_nonzero_roff", "branch_compact_exact_fit"]},
)
