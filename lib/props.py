"""Per-property configuration, one file per property: lib/props_cNN.py defines PROP = dict(...).

PROP keys:
  harnesses   {name: dict(sources=[paths relative to /verif], cflags=[], ldflags=[], std="gnu++11")}
  legs        list of dict(name, harness, flavour in {asan,tsan,plain,fuzz}, mode (passed as --mode), args (extra argv),
              quick=N cases, thorough=N cases (0 = leg not in that tier), scalable (default True), exhaustive (bool),
              env={}, shard_timeout, case_timeout, leaks (bool: LeakSanitizer on), min_shard, concurrent (bool))
  rule        how cases are generated and what makes one non-trivial / distinct (goes into the evidence file)
  assumptions list of strings
  required_counters {"all"|"quick"|"thorough": [counter names that must be > 0, else the run is INCONCLUSIVE]}
  technique, level_text, level_note   (MANIFEST fields)
  disabled    optional string: reason the property is not claimed (listed under not_applicable)
"""
import os, glob, importlib.util

PROPS = {}
_here = os.path.dirname(os.path.abspath(__file__))
for _p in sorted(glob.glob(os.path.join(_here, "props_c[0-9][0-9].py"))):
    _name = os.path.basename(_p)[:-3]
    _spec = importlib.util.spec_from_file_location(_name, _p)
    _m = importlib.util.module_from_spec(_spec)
    _spec.loader.exec_module(_m)
    PROPS[_name[6:].upper()] = _m.PROP
