"""Child-process runner: shards a leg over the cores, captures JSON lines from the harness,
turns crashes / sanitizer reports / hangs into data (never into the end of the run)."""
import os, re, sys, json, time, signal, struct, subprocess, glob, shutil
from concurrent.futures import ThreadPoolExecutor

NCPU = os.cpu_count() or 8


def sanitizer_env(flavour, workdir, tag, leaks=False):
    env = dict(os.environ)
    env.pop("LD_PRELOAD", None)
    env["ASAN_OPTIONS"] = ("abort_on_error=1:detect_leaks=%d:detect_stack_use_after_return=0:"
                           "allocator_may_return_null=1:handle_abort=1:print_summary=1:"
                           "symbolize=1" % (1 if leaks else 0))
    env["UBSAN_OPTIONS"] = "print_stacktrace=1:halt_on_error=1:abort_on_error=1"
    env["LSAN_OPTIONS"] = "exitcode=23"
    env["TSAN_OPTIONS"] = ("halt_on_error=0:exitcode=0:second_deadlock_stack=1:history_size=4:"
                           "log_path=%s" % os.path.join(workdir, "tsan." + tag))
    env["ASAN_SYMBOLIZER_PATH"] = "/usr/bin/llvm-symbolizer-14"
    return env


_FRAME = re.compile(r"#\d+ 0x[0-9a-f]+ in (.+?) (/\S+?):(\d+)")
_FRAME2 = re.compile(r"#\d+ (.+?) (/\S+?):(\d+)(?::\d+)? \(")  # tsan style


def _short_func(f):
    f = re.sub(r"\(.*", "", f)          # drop argument list
    f = re.sub(r"<[^<>]*>", "", f)      # drop simple template args
    f = re.sub(r"<[^<>]*>", "", f)
    f = f.replace("tbox::", "")
    return f.strip()[:80]


def first_repo_frame(text, repo=None):
    repo = repo or (os.environ.get("VERIF_REPO", "/repo").rstrip("/") + "/")
    for line in text.splitlines():
        m = _FRAME.search(line) or _FRAME2.search(line)
        if m and m.group(2).startswith(repo) and "/_build/" not in m.group(2):
            return _short_func(m.group(1)), m.group(2)[len(repo):], int(m.group(3))
    return None


def classify_crash(stderr, rc):
    """-> (key, summary_text)"""
    txt = stderr[-20000:]
    m = re.search(r"ERROR: (AddressSanitizer|LeakSanitizer): ([A-Za-z0-9_\-]+)", txt)
    if m and m.group(2) == "ABRT":
        # abort() reported by ASan's signal handler: the cause is whatever called abort
        m2 = re.search(r"terminate called after throwing an instance of '([^']+)'", txt)
        if m2:
            return "uncaught/%s" % m2.group(1), txt[m2.start():m2.start() + 2500]
        m2 = re.search(r"TBOX_ASSERT\(([^\n]*)\)", txt)
        if m2:
            return "assert/%s" % m2.group(1)[:60].replace(" ", ""), txt[-2500:]
    if m:
        kind = m.group(2)
        seg = txt[m.start():]
        fr = first_repo_frame(seg)
        site = fr[0] if fr else "?"
        if kind == "SEGV" and "stack-overflow" in txt:
            kind = "stack-overflow"
        return "asan/%s@%s" % (kind, site), seg[:3000]
    m = re.search(r"(\S+?):(\d+):(\d+): runtime error: (.*)", txt)
    if m:
        msg = re.sub(r"-?\d+", "N", m.group(4))
        msg = re.sub(r"0x[0-9a-f]+", "P", msg)[:60].strip().replace(" ", "-")
        f = m.group(1)
        f = f[f.find("modules/"):] if "modules/" in f else os.path.basename(f)
        seg = txt[m.start():]
        fr = first_repo_frame(seg)
        site = fr[0] if fr else f
        return "ubsan/%s@%s" % (msg, site), seg[:3000]
    m = re.search(r"terminate called after throwing an instance of '([^']+)'", txt)
    if m:
        w = re.search(r"what\(\):\s*(.*)", txt)
        return "uncaught/%s" % m.group(1), txt[m.start():m.start() + 1500]
    m = re.search(r"TBOX_ASSERT\(([^\n]*)\)", txt)
    if m:
        return "assert/%s" % m.group(1)[:60].replace(" ", ""), txt[-1500:]
    m = re.search(r"VH-FATAL: (\S+)", txt)
    if m:
        return "harness-fatal/%s" % m.group(1), txt[-1500:]
    if "stack-overflow" in txt:
        return "asan/stack-overflow", txt[-3000:]
    if rc < 0:
        try:
            name = signal.Signals(-rc).name
        except ValueError:
            name = "SIG%d" % -rc
        return "signal/%s" % name, txt[-1500:]
    return "exit/%d" % rc, txt[-1500:]


def parse_tsan_logs(workdir, tag):
    """-> list of dict(kind, key, text). Dedup by (kind, first in-repo frame of each stack)."""
    reps = {}
    for p in glob.glob(os.path.join(workdir, "tsan.%s.*" % tag)):
        try:
            txt = open(p, errors="replace").read()
        except OSError:
            continue
        for blk in re.split(r"(?==================\nWARNING: ThreadSanitizer)", txt):
            m = re.search(r"WARNING: ThreadSanitizer: ([^\(\n]+)", blk)
            if not m:
                continue
            kind = m.group(1).strip().replace(" ", "-")
            # only the access stacks (first two stack sections) name the race; "As if synchronized via sleep",
            # "Location is", "Mutex ... created at" and thread-creation stacks are context
            frames = []
            secs = re.split(r"\n\s*\n", blk)
            acc = [s_ for s_ in secs if re.search(r"^\s*(Write|Read|Previous write|Previous read|Previous atomic|Atomic write|Atomic read|Cycle in lock|Mutex M\d+ acquired)", s_, re.M)]
            if kind != "data-race" and not acc:
                acc = secs[:3]
            for s_ in acc[:2]:
                fr = first_repo_frame(s_)
                frames.append(fr[0] if fr else "harness")
            if not frames:
                frames = ["?"]
            key = "tsan/%s@%s" % (kind, "|".join(sorted(frames)))
            if key not in reps:
                reps[key] = dict(kind=kind, key=key, text=blk[:4000], count=0)
            reps[key]["count"] += 1
    return list(reps.values())


class LegResult:
    def __init__(self):
        self.viols = []       # dict(key, case, seed, mode, detail, desc, harness, flavour)
        self.samples = []
        self.summaries = []
        self.crashes = 0
        self.hangs = 0
        self.inconclusive = []
        self.cases_done = 0
        self.cases_planned = 0
        self.sig_files = []
        self.harness_errors = []
        self.wall = 0.0


def _read_progress(p):
    try:
        b = open(p, "rb").read(16)
        return struct.unpack("<QQ", b)
    except Exception:
        return None


def _run_child(cmd, env, timeout):
    t0 = time.time()
    try:
        p = subprocess.Popen(cmd, stdout=subprocess.PIPE, stderr=subprocess.PIPE, env=env,
                             start_new_session=True)
    except OSError as e:
        return None, "", "spawn failed: %s" % e, False
    try:
        out, err = p.communicate(timeout=timeout)
        return p.returncode, out.decode(errors="replace"), err.decode(errors="replace"), False
    except subprocess.TimeoutExpired:
        try:
            os.killpg(p.pid, signal.SIGKILL)
        except OSError:
            pass
        out, err = p.communicate()
        return p.returncode, out.decode(errors="replace"), err.decode(errors="replace"), True


def _parse_out(out, res, meta):
    for line in out.splitlines():
        if not line.startswith("{"):
            continue
        try:
            j = json.loads(line)
        except ValueError:
            continue
        t = j.get("t")
        if t == "viol":
            j.update(meta)
            res.viols.append(j)
        elif t == "sample":
            if len(res.samples) < 5:
                res.samples.append(j.get("v"))
        elif t == "summary":
            res.summaries.append(j)


def run_leg(exe, leg, seed, total, workdir, flavour, harness, extra_args=(), jobs=NCPU,
            shard_timeout=1800, case_timeout=120, leaks=False, max_crashes_per_shard=4):
    """Run `total` cases of one leg, sharded. Returns LegResult."""
    os.makedirs(workdir, exist_ok=True)
    res = LegResult()
    res.cases_planned = total
    mode = leg.get("mode", "")
    min_shard = leg.get("min_shard", 1)
    nshards = max(1, min(jobs, total // max(1, min_shard)))
    per = (total + nshards - 1) // nshards
    shards = []
    f = 0
    while f < total:
        n = min(per, total - f)
        shards.append((f, n))
        f += n
    meta = dict(harness=harness, flavour=flavour, mode=mode)
    t0 = time.time()

    def one_shard(si):
        first, count = shards[si]
        tag = "%s.%d" % (mode or "m", si)
        env = sanitizer_env(flavour, workdir, tag, leaks=leaks)
        env.update(leg.get("env", {}))
        prog = os.path.join(workdir, "progress.%s" % tag)
        local = LegResult()
        cur, end = first, first + count
        crashes = 0
        while cur < end:
            if os.path.exists(prog):
                os.unlink(prog)
            cmd = [exe, "--seed", str(seed), "--first", str(cur), "--count", str(end - cur),
                   "--mode", mode, "--out", workdir, "--progress", prog] + list(extra_args) + list(leg.get("args", []))
            rc, out, err, timed_out = _run_child(cmd, env, shard_timeout)
            _parse_out(out, local, meta)
            if rc == 0 and not timed_out:
                got = sum(s["cases"] for s in local.summaries)
                break
            pr = _read_progress(prog)
            if rc is None:
                local.harness_errors.append(err)
                break
            if pr is None:
                local.harness_errors.append("no progress file; rc=%s stderr=%s" % (rc, err[-2000:]))
                break
            case = pr[0]
            local.cases_done += pr[1]
            if rc == 97 and "VH-WATCHDOG" in err:
                timed_out = True
            hang_flag = os.path.join(workdir, "HANG_CONFIRMED")
            if timed_out and os.path.exists(hang_flag):
                # another shard of this leg has already confirmed a hang (re-run alone, fresh process): do not pay
                # for more confirmations, stop this shard
                local.inconclusive.append("shard %s stopped at case %d: watchdog expired and a hang was already confirmed in another shard (%d cases unexplored)"
                                          % (tag, case, end - case))
                break
            if timed_out:
                # confirm on the single case with a fresh process before calling it a hang
                cmd1 = [exe, "--seed", str(seed), "--first", str(case), "--count", "1", "--mode", mode,
                        "--out", workdir, "--progress", prog + ".1"] + list(extra_args) + list(leg.get("args", [])) + ["--watchdog", "0"]
                rc1, out1, err1, to1 = _run_child(cmd1, env, case_timeout)
                if to1:
                    local.hangs += 1
                    crashes += max_crashes_per_shard      # one confirmed hang ends the shard
                    try:
                        open(hang_flag, "w").write(str(case))
                    except OSError:
                        pass
                    local.viols.append(dict(meta, t="viol", key="hang/%s" % (mode or "case"), case=case, seed=seed,
                                            detail="case did not finish within %ds (twice, second time alone in a fresh process)" % case_timeout,
                                            desc=(err1 or err)[-1500:]))
                else:
                    local.inconclusive.append("shard %s timed out after %ds at case %d but the case alone finished (rc=%s)"
                                              % (tag, shard_timeout, case, rc1))
                    crashes += 1        # unconfirmed expiries count toward abandoning the shard too
                    if rc1 not in (0, None):
                        local.crashes += 1
                        key, text = classify_crash(err1, rc1)
                        local.viols.append(dict(meta, t="viol", key="crash/" + key, case=case, seed=seed,
                                                detail=text[:1500], desc=""))
                    else:
                        _parse_out(out1, local, meta)
                        local.summaries = [s for s in local.summaries]  # keep
            else:
                key, text = classify_crash(err, rc)
                local.crashes += 1
                crashes += 1
                local.viols.append(dict(meta, t="viol", key="crash/" + key, case=case, seed=seed,
                                        detail=text[:2500], desc=""))
            cur = case + 1
            if crashes >= max_crashes_per_shard:
                local.inconclusive.append("shard %s abandoned after %d crashes at case %d (remaining %d cases unexplored)"
                                          % (tag, crashes, case, end - cur))
                break
        if flavour == "tsan":
            for r in parse_tsan_logs(workdir, tag):
                local.viols.append(dict(meta, t="viol", key=r["key"], case=first, seed=seed,
                                        detail=r["text"][:3000], desc="tsan reports with this key in shard: %d" % r["count"],
                                        shard_first=first, shard_count=count))
        return local

    with ThreadPoolExecutor(max(1, min(jobs, len(shards)))) as ex:
        for local in ex.map(one_shard, range(len(shards))):
            res.viols += local.viols
            for s in local.samples:
                if len(res.samples) < 5:
                    res.samples.append(s)
            res.summaries += local.summaries
            res.crashes += local.crashes
            res.hangs += local.hangs
            res.inconclusive += local.inconclusive
            res.harness_errors += local.harness_errors
    res.cases_done = sum(s.get("cases", 0) for s in res.summaries)
    res.sig_files = glob.glob(os.path.join(workdir, "sigs.%s.*.bin" % mode))
    res.wall = time.time() - t0
    return res


def union_sigs(files, cap=50000000):
    seen = set()
    for p in files:
        try:
            b = open(p, "rb").read()
        except OSError:
            continue
        n = len(b) // 8
        for v in struct.unpack("<%dQ" % n, b[:n * 8]):
            if len(seen) >= cap:
                return len(seen)
            seen.add(v)
    return len(seen)
