#!/usr/bin/env python3
"""C19 reference oracle: a line-oriented co-process the C++ harness (harness/c19_codec.cpp) talks to.

Every answer comes from code that shares nothing with cpp-tbox:
  base64 / binascii / zlib / hashlib / struct / urllib.parse from the python standard library,
  a pure-python AES-128 written from FIPS-197 (S-box *computed* from the GF(2^8) inverse and the
  affine map, not copied from a table) and self-checked against the FIPS-197 appendix B and C.1
  vectors plus the RFC 1321 MD5 suite and the CRC catalogue check values at start-up,
  the ones'-complement checksums (RFC 1071 style) and the scalable-integer format written from the
  table in modules/util/scalable_integer.h.

Protocol: one request per line `op arg ...`; byte strings travel as lower-case hex, `-` is the empty
string; one answer line per request.  `ERR <why>` is a legal answer (means: the reference rejects
the input).  Unknown ops and malformed requests answer `!BAD ...` (no legal answer starts with `!`).
"""
import sys, base64, binascii, zlib, hashlib, struct, urllib.parse, re


def unhex(s):
    return b"" if s == "-" else bytes.fromhex(s)


def hx(b):
    return b.hex() if b else "-"


# ---------------------------------------------------------------- AES-128 (FIPS-197)
def _xtime(a):
    a <<= 1
    return (a ^ 0x11B) & 0xFF if a & 0x100 else a


def _gmul(a, b):
    r = 0
    while b:
        if b & 1:
            r ^= a
        a = _xtime(a)
        b >>= 1
    return r


def _build_sbox():
    inv = [0] * 256
    for a in range(1, 256):
        for b in range(1, 256):
            if _gmul(a, b) == 1:
                inv[a] = b
                break
    sbox = [0] * 256
    for a in range(256):
        x = inv[a]
        y = x
        for sh in (1, 2, 3, 4):
            y ^= ((x << sh) | (x >> (8 - sh))) & 0xFF
        sbox[a] = y ^ 0x63
    isbox = [0] * 256
    for a, s in enumerate(sbox):
        isbox[s] = a
    return sbox, isbox


SBOX, ISBOX = _build_sbox()
_M2 = [_gmul(i, 2) for i in range(256)]
_M3 = [_gmul(i, 3) for i in range(256)]
_M9 = [_gmul(i, 9) for i in range(256)]
_M11 = [_gmul(i, 11) for i in range(256)]
_M13 = [_gmul(i, 13) for i in range(256)]
_M14 = [_gmul(i, 14) for i in range(256)]


def aes_expand(key):
    assert len(key) == 16
    w = [list(key[4 * i:4 * i + 4]) for i in range(4)]
    rcon = 1
    for i in range(4, 44):
        t = list(w[i - 1])
        if i % 4 == 0:
            t = t[1:] + t[:1]
            t = [SBOX[x] for x in t]
            t[0] ^= rcon
            rcon = _xtime(rcon)
        w.append([a ^ b for a, b in zip(w[i - 4], t)])
    return [sum(w[4 * r:4 * r + 4], []) for r in range(11)]   # 11 round keys of 16 bytes, column-major


def _shift_rows(s):      # state s[c*4+r]
    return [s[((c + r) % 4) * 4 + r] for c in range(4) for r in range(4)]


def _inv_shift_rows(s):
    return [s[((c - r) % 4) * 4 + r] for c in range(4) for r in range(4)]


def _mix(s):
    o = []
    for c in range(4):
        a0, a1, a2, a3 = s[4 * c:4 * c + 4]
        o += [_M2[a0] ^ _M3[a1] ^ a2 ^ a3, a0 ^ _M2[a1] ^ _M3[a2] ^ a3,
              a0 ^ a1 ^ _M2[a2] ^ _M3[a3], _M3[a0] ^ a1 ^ a2 ^ _M2[a3]]
    return o


def _inv_mix(s):
    o = []
    for c in range(4):
        a0, a1, a2, a3 = s[4 * c:4 * c + 4]
        o += [_M14[a0] ^ _M11[a1] ^ _M13[a2] ^ _M9[a3], _M9[a0] ^ _M14[a1] ^ _M11[a2] ^ _M13[a3],
              _M13[a0] ^ _M9[a1] ^ _M14[a2] ^ _M11[a3], _M11[a0] ^ _M13[a1] ^ _M9[a2] ^ _M14[a3]]
    return o


def aes_encrypt(key, block):
    rk = aes_expand(key)
    s = [a ^ b for a, b in zip(block, rk[0])]
    for rnd in range(1, 11):
        s = [SBOX[x] for x in s]
        s = _shift_rows(s)
        if rnd != 10:
            s = _mix(s)
        s = [a ^ b for a, b in zip(s, rk[rnd])]
    return bytes(s)


def aes_decrypt(key, block):
    rk = aes_expand(key)
    s = [a ^ b for a, b in zip(block, rk[10])]
    for rnd in range(9, -1, -1):
        s = _inv_shift_rows(s)
        s = [ISBOX[x] for x in s]
        s = [a ^ b for a, b in zip(s, rk[rnd])]
        if rnd:
            s = _inv_mix(s)
    return bytes(s)


# ---------------------------------------------------------------- checksums (ones' complement)
def sum8(data):
    s = sum(data)
    while s >> 8:
        s = (s & 0xFF) + (s >> 8)
    return (~s) & 0xFF


def sum16(data):
    """RFC 1071: big-endian 16-bit words, an odd trailing byte is padded with zero on the right; the words are
    added in an unbounded integer and the carries folded back at the end (slices keep multi-MiB inputs fast)."""
    s = (sum(data[0::2]) << 8) + sum(data[1::2])
    while s >> 16:
        s = (s & 0xFFFF) + (s >> 16)
    return (~s) & 0xFFFF


def pattern(n, block):
    """the large-input description shared with the harness: `block` repeated and cut to n bytes"""
    if n == 0 or not block:
        return b""
    return (block * (n // len(block) + 1))[:n]


# ---------------------------------------------------------------- scalable integer (from the header's table)
# n bytes carry 7n payload bits, big-endian groups, first n-1 bytes have the top bit set.
# An n-byte form starts where the (n-1)-byte form ends: base(1)=0, base(n)=base(n-1)+2^(7(n-1)).
def _sint_base(n):
    b = 0
    for k in range(1, n):
        b += 1 << (7 * k)
    return b


def sint_encode(v):
    n = 1
    while n < 10 and v >= _sint_base(n + 1):
        n += 1
    p = v - _sint_base(n)
    out = bytearray(n)
    for i in range(n - 1, -1, -1):
        out[i] = (p & 0x7F) | (0x80 if i != n - 1 else 0)
        p >>= 7
    assert p == 0
    return bytes(out)


def sint_decode(buf):
    """-> (status, n, value). status: OK, TRUNC (no terminator in the first min(len,10) bytes),
    OVER (10-byte form whose value exceeds 2^64-1)."""
    p = 0
    for i, b in enumerate(buf[:10]):
        p = (p << 7) | (b & 0x7F)
        if not (b & 0x80):
            v = _sint_base(i + 1) + p
            if v >> 64:
                return "OVER", i + 1, v
            return "OK", i + 1, v
    return "TRUNC", 0, 0


# ---------------------------------------------------------------- serializer fields
_FMT = dict(u8="B", u16="H", u32="I", u64="Q", i8="b", i16="h", i32="i", i64="q")


def pack_fields(spec):
    """spec: tokens `be` | `le` | `u16:1234` | `i32:-5` | `f32:<hex of IEEE bits>` | `f64:<hex bits>` |
    `raw:<hex>` | `pod:<hex of little-endian host bytes>`"""
    e = ">"
    out = b""
    for tok in spec:
        if tok == "be":
            e = ">"
        elif tok == "le":
            e = "<"
        else:
            k, v = tok.split(":", 1)
            if k in _FMT:
                out += struct.pack(e + _FMT[k], int(v))
            elif k == "f32":
                out += struct.pack(e + "I", int(v, 16))
            elif k == "f64":
                out += struct.pack(e + "Q", int(v, 16))
            elif k == "raw":
                out += unhex(v)
            elif k == "pod":
                b = unhex(v)
                out += b if e == "<" else b[::-1]
            else:
                raise ValueError(tok)
    return out


# ---------------------------------------------------------------- hex strings
_HEXRE = re.compile(rb"(?:[0-9a-fA-F]{2})*")


def hex_plain_decode(s):
    """the no-delimiter form: blanks and tabs around the text are ignored, the rest must be an even number of hex digits"""
    t = s.strip(b" \t")
    if not _HEXRE.fullmatch(t):
        return None
    return binascii.unhexlify(t)


def hex_delim_decode(s, delims):
    toks = [t for t in re.split(b"[" + re.escape(delims) + b"]", s) if t] if delims else [s]
    out = bytearray()
    for t in toks:
        if len(t) > 2 or not re.fullmatch(rb"[0-9a-fA-F]+", t):
            return None
        out.append(int(t, 16))
    return bytes(out)


_PCT_OK = re.compile(rb"(?:[^%]|%[0-9a-fA-F]{2})*", re.S)


def handle(op, a):
    if op == "b64e":
        return base64.b64encode(unhex(a[0])).decode()
    if op == "b64d":
        s = unhex(a[0])
        # canonical RFC 4648 text only: alphabet characters, then at most two '=', a multiple of four long
        if not s or len(s) % 4 or not re.fullmatch(rb"[A-Za-z0-9+/]*={0,2}", s):
            return "ERR"
        try:
            return hx(base64.b64decode(s, validate=True))
        except (binascii.Error, ValueError):
            return "ERR"
    if op == "hexs":      # data upper delim
        d = unhex(a[0])
        f = "%02X" if a[1] == "1" else "%02x"
        return hx(unhex(a[2]).join((f % b).encode() for b in d))
    if op == "unhexp":
        r = hex_plain_decode(unhex(a[0]))
        return "ERR" if r is None else hx(r)
    if op == "unhexd":
        r = hex_delim_decode(unhex(a[0]), unhex(a[1]))
        return "ERR" if r is None else hx(r)
    if op == "crc16":
        return str(binascii.crc_hqx(unhex(a[0]), int(a[1])))
    if op == "crc32":
        return str(zlib.crc32(unhex(a[0]), int(a[1]) ^ 0xFFFFFFFF) & 0xFFFFFFFF)
    if op == "sum8":
        return str(sum8(unhex(a[0])))
    if op == "sum16":
        return str(sum16(unhex(a[0])))
    if op == "md5":
        return hashlib.md5(unhex(a[0])).hexdigest()
    if op == "big":       # n block crc16seed crc32seed -> crc16 crc32 sum8 sum16 md5 of pattern(n, block)
        d = pattern(int(a[0]), unhex(a[1]))
        return "%d %d %d %d %s" % (binascii.crc_hqx(d, int(a[2])), zlib.crc32(d, int(a[3]) ^ 0xFFFFFFFF) & 0xFFFFFFFF,
                                   sum8(d), sum16(d), hashlib.md5(d).hexdigest())
    if op == "md5pat":    # message = bytes((i*mul+add)&255 for i in range(n))
        n, mul, add = int(a[0]), int(a[1]), int(a[2])
        return hashlib.md5(bytes((i * mul + add) & 255 for i in range(n))).hexdigest()
    if op == "aese":
        return aes_encrypt(unhex(a[0]), unhex(a[1])).hex()
    if op == "aesd":
        return aes_decrypt(unhex(a[0]), unhex(a[1])).hex()
    if op == "sinte":
        return sint_encode(int(a[0])).hex()
    if op == "sintd":
        st, n, v = sint_decode(unhex(a[0]))
        return "%s %d %d" % (st, n, v & 0xFFFFFFFFFFFFFFFF)
    if op == "pack":
        return hx(pack_fields(a))
    if op == "urld":
        s = unhex(a[0])
        if not _PCT_OK.fullmatch(s):
            return "ERR"
        return hx(urllib.parse.unquote_to_bytes(s))
    if op == "ping":
        return "pong"
    return "!BAD"


def selfcheck():
    k = bytes.fromhex("2b7e151628aed2a6abf7158809cf4f3c")
    p = bytes.fromhex("3243f6a8885a308d313198a2e0370734")
    c = bytes.fromhex("3925841d02dc09fbdc118597196a0b32")
    assert aes_encrypt(k, p) == c and aes_decrypt(k, c) == p, "FIPS-197 appendix B"
    k = bytes(range(16))
    p = bytes.fromhex("00112233445566778899aabbccddeeff")
    c = bytes.fromhex("69c4e0d86a7b0430d8cdb78070b4c55a")
    assert aes_encrypt(k, p) == c and aes_decrypt(k, c) == p, "FIPS-197 appendix C.1"
    assert SBOX[0] == 0x63 and SBOX[0x53] == 0xED and ISBOX[0x63] == 0
    assert hashlib.md5(b"abc").hexdigest() == "900150983cd24fb0d6963f7d28e17f72"          # RFC 1321 A.5
    assert hashlib.md5(b"").hexdigest() == "d41d8cd98f00b204e9800998ecf8427e"
    assert binascii.crc_hqx(b"123456789", 0xFFFF) == 0x29B1                                # CRC-16/CCITT-FALSE check
    assert zlib.crc32(b"123456789") == 0xCBF43926                                          # CRC-32/ISO-HDLC check
    assert sum16(bytes.fromhex("0001f203f4f5f6f7")) == 0x220D                              # RFC 1071 section 3 example
    assert sum16(b"\x12") == (~0x1200) & 0xFFFF and sum16(b"") == 0xFFFF and sum16(b"\xff" * 131075) == 0x00FF
    assert sum16(b"\xff" * 131076) == 0 and sum8(b"\xff" * 70000) == 0                       # all-ones sums stay all-ones
    assert pattern(7, b"abc") == b"abcabca" and pattern(0, b"x") == b""
    assert sint_encode(0) == b"\x00" and sint_encode(127) == b"\x7f"
    assert sint_encode(128) == b"\x80\x00" and sint_encode(16511) == b"\xff\x7f"           # header table rows
    assert sint_encode(16512) == b"\x80\x80\x00" and sint_encode(2113663) == b"\xff\xff\x7f"
    assert sint_encode(2113664) == b"\x80\x80\x80\x00" and sint_encode(270549119) == b"\xff\xff\xff\x7f"
    assert len(sint_encode((1 << 64) - 1)) == 10
    for v in (0, 127, 128, 16511, 16512, 270549119, 270549120, (1 << 64) - 1, 1 << 63):
        assert sint_decode(sint_encode(v)) == ("OK", len(sint_encode(v)), v)


def main():
    selfcheck()
    out = sys.stdout
    for line in sys.stdin:
        parts = line.split()
        if not parts:
            continue
        try:
            r = handle(parts[0], parts[1:])
        except Exception as e:   # a malformed request is a harness bug; make it visible
            r = "!BAD %s" % type(e).__name__
        out.write(r)
        out.write("\n")
        out.flush()


if __name__ == "__main__":
    if len(sys.argv) > 1 and sys.argv[1] == "--selfcheck":
        selfcheck()
        print("ok")
    else:
        main()
