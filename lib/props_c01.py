"""C01 configuration (format: lib/props.py)."""

_A = ["--watchdog", "90"]
PROP = dict(
    harnesses={"c01_loop_tasks": dict(sources=["harness/c01_loop_tasks.cpp"])},
    legs=[
        dict(name="tsan", harness="c01_loop_tasks", flavour="tsan", mode="mix", quick=1000, thorough=12000, concurrent=True, args=_A, case_timeout=240),
        dict(name="plain", harness="c01_loop_tasks", flavour="plain", mode="mix", quick=8000, thorough=200000, seed_offset=15485863, concurrent=True, args=_A, case_timeout=240),
    ],
    rule=("each case = one seeded scenario executed on BOTH back-ends (epoll, select): 1-8 submitter threads x 1-200 runInLoop submissions with "
          "pauses; loop-thread tasks that submit nested runNext/run/runInLoop tasks to depth 3 and cancel a queued child, a later sibling of the "
          "same batch, or a later task of a submitter; runNext/run submissions before the first run; 1-3 runs of the loop, each on its own thread, "
          "ended by exitLoop() from the k-th executed task or (quiesce mode) only after everything ran with no further stimulus; runInLoop in the "
          "stopped gap; destruction on the orchestrator or on another thread after the submitters are joined; seeded delays at the loop "
          "start/stop TBOX_VERIF_POINT sites. History (submission call/return ticks, execution tick+tid, cancel results, run/destroy windows) is "
          "checked after destruction: exactly once unless cancel returned true, on the thread running/destroying the loop, per-(thread,entry) "
          "order, nothing dropped; a stall of >5 s with work pending is reported as a lost wake-up only when /proc shows the loop thread asleep "
          "with no CPU progress over 3 samples. Non-trivial = a submission overlapped a run start, the exit window or the stopped gap, or the loop "
          "was re-run; distinct = distinct (engine, script) hashes"),
    assumptions=["foreign threads use runInLoop only (run() from a foreign thread while the loop is not running falls through to the lock-free runNext)",
                 "submitters are joined before the loop is destroyed",
                 "cancel is issued from the loop thread only; a cancel that returned false claims nothing",
                 "self-resubmitting chains stay below the 100-generation drain bound"],
    technique="API-boundary history checked for exactly-once/affinity/order/no-drop, under ThreadSanitizer plus a plain soak, with /proc-confirmed bounded-progress detection of lost wake-ups",
    level_text=("Hundreds to thousands of randomized multi-thread scenarios per back-end against the real loop under TSan and uninstrumented; every "
                "callable's execution count, thread and order is checked against the recorded history after the loop is destroyed. Held on the "
                "schedules observed."),
    level_note="trusts the history checker, gcc TSan and /proc thread state for the lost-wake-up confirmation; schedules are sampled",
    required_counters={"all": ["win_submitted_before_first_run", "win_submission_overlapping_run_begin", "win_submitted_while_exiting",
                               "win_submitted_in_stopped_gap", "executed_in_destructor", "cancel_true", "cancel_true_same_batch_sibling", "cancel_of_self_while_running",
                               "reruns", "runs_quiesced_all_executed", "deep_chain_scenarios", "runs_with_descriptor_0_free_for_the_wakeup_fd", "deep_chain_links_left_over_by_the_first_bounded_drain", "scenarios_epoll", "scenarios_select"]},
)
