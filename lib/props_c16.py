"""C16 configuration (see lib/props.py for the format)."""

PROP = dict(
    harnesses={"c16_hfsm": dict(sources=["harness/c16_hfsm.cpp"])},
    legs=[
        dict(name="random", harness="c16_hfsm", flavour="asan", mode="random", quick=300000, thorough=12000000),
        # 5^4 call sequences x 19^2 route pairs x 4 handler options x 3 nested-machine options x 2 initial states
        dict(name="exhaustive-depth4", harness="c16_hfsm", flavour="asan", mode="exhaustive",
             args=["--depth", "4", "--guards", "1"], quick=5415000, thorough=0, scalable=False, exhaustive=True),
        # 5^5 call sequences x 37^2 route pairs (each route with or without a stateful guard) x 4 x 3 x 2
        dict(name="exhaustive-depth5-guards", harness="c16_hfsm", flavour="asan", mode="exhaustive",
             args=["--depth", "5", "--guards", "2"], quick=0, thorough=102675000, scalable=False, exhaustive=True),
    ],
    rule=("random: a seeded hierarchy of 1-7 flow::StateMachine objects (nesting depth up to 3 below the top machine): 1-5 states per "
          "machine with enter/exit actions present or nullptr, state 0 user-defined or implicit, initial state default/explicit/"
          "re-unset/bad (bad only for the top machine), 0-4 routes per state (wildcard and specific events, guards nullptr/true/"
          "false/id==k/id-odd/alternating, with or without a route action), per-state handlers (specific and default) returning "
          "-1, a valid target, 0, an undefined target, another negative value or an event-dependent table, state-changed callbacks, "
          "refused definition calls (duplicate state, undefined source/target/host state, nullptr handler, route added before its "
          "states), one nested machine shared by two states; then 8-47 calls start/run(e)/stop/restart on the top machine with "
          "e in {1,2,3,0,7,-5} and an optional extra pointer, and a final stop(). In 65% of the cases some callbacks call "
          "run/start/stop/restart on their own machine, in 30% also on an enclosing machine. After every call the callback trace "
          "(kind, machine, definition index, states, event id and extra pointer, currentState/lastState/nextState/isRunning/"
          "isTerminated of the acting machine inside the callback), the return value and the five observers of every machine in the "
          "hierarchy are compared with an independent reference interpreter; a separate monitor follows enter/exit balance. "
          "exhaustive: every definition with states {1,2} (+ implicit terminal), <= 2 routes over events {any,1,2} and targets "
          "{0,1,2} (thorough: each also with a stateful guard), 4 handler options, 3 nested-machine options under state 2 and both "
          "initial states, against every call sequence of length 4 (thorough: 5) over {start, stop, restart, run(1), run(2)}. "
          "A case is non-trivial when an event was delegated to a nested machine, at least two transitions happened and it also "
          "saw a nested machine terminate with fall-through to its parent or a stop()/restart() with a nested machine active; "
          "distinct = distinct hashes of (definition script, call script)"),
    assumptions=[
        "Where state_machine.h and the property are silent the reference follows the code: a nested machine is started with "
        "Event() and then handed the event that caused the entry, without a termination check until the next event; run() "
        "returns the nested machine's result while it has not terminated and otherwise whether this machine itself changed state; "
        "guards are evaluated only for routes whose event matches, in registration order, up to the first that holds; a handler "
        "that names an undefined state (>= 0) causes no transition and no route lookup; lastState() survives stop()/start(); "
        "a specific handler hides the default handler even when it declines; a later addEvent() for the same event replaces the "
        "earlier one; a machine in a user-defined state 0 still processes events with that state's handlers and routes.",
        "A handler result < 0 other than -1 means 'no transition requested' as documented for EventFunc in state_machine.h "
        "(\"<0: no transition\"), so the routes are consulted exactly as for -1.",
        "'Calls made on a machine from inside its own actions' is read for a hierarchy: while a machine's start/run/stop is "
        "executing, calls on it are rejected whether they come from its own callbacks or from callbacks of a machine nested in "
        "it (the implementation already rejects the latter on the entry path of run()). Such probes are keyed separately "
        "(reentry/nested-action/...).",
        "Nested machines always have a valid initial state; only the top machine is called from outside; no definition calls "
        "are made after the first start(); state and event ids are small ints, state ids >= 0; callbacks do not throw.",
        "stop() of a machine whose current state hosts a running nested machine stops the nested machine first (innermost exit "
        "action first), the order run() itself uses when a nested machine has terminated.",
        "mechanism counters are taken from the reference run, whose callback trace matched the implementation's step for step",
    ],
    technique=("lock-step reference interpreter for hierarchical state machines + enter/exit balance monitor + re-entrancy probes, "
               "over random and exhaustively enumerated definitions and call sequences, under ASan+UBSan"),
    level_text=("Every start/run/stop/restart call of every generated case is executed on the real StateMachine objects and on an "
                "independent interpreter written from state_machine.h and the property text; the complete callback trace with the "
                "observers seen inside each callback, every return value and the observers of every machine of the hierarchy are "
                "compared after each call, enter/exit balance is checked without the reference whenever the top machine is stopped, "
                "and calls made from inside callbacks must leave no trace. A two-state sub-space is enumerated completely. Held on the "
                "cases explored, not a proof."),
    level_note=("trusts the reference interpreter (its documented choices are listed under assumptions), the harness's callback "
                "recorder and gcc ASan/UBSan; hidden state that never reaches a callback, a return value or an observer is not seen"),
    required_counters={"all": [
        # delegate to the nested machine first; fall through to own routes only once it has terminated
        "delegate_to_nested", "delegate_depth2plus", "nested_not_terminated_return", "nested_terminated_fallthrough",
        "own_routes_after_nested_stopped", "nested_terminated_on_entry_event",
        # handler lookup then first-match route scan
        "handler_specific", "handler_default", "handler_declined", "handler_picked_target", "handler_invalid_target",
        "handler_other_negative", "handler_shadows_route", "route_scan_no_match", "route_taken_specific", "route_taken_wildcard",
        "route_taken_after_failed_candidate", "route_wildcard_shadows_later_specific", "guard_true", "guard_false",
        # exit -> route action -> enter -> notification -> start nested machine
        "transition", "transition_self", "transition_to_implicit_terminal", "transition_to_user_terminal", "action_exit",
        "action_route", "action_enter", "changed_notification", "enter_starts_nested", "start_starts_nested",
        # start/stop gated on is_running_ and the re-entrancy guard
        "start_while_running", "start_bad_init", "stop_while_stopped", "run_while_stopped", "stop_with_active_nested",
        "stop_with_active_nested_depth2", "restart_with_active_nested", "terminated_nested_stopped_with_own_nested_active",
        "reentry_own_run", "reentry_own_start", "reentry_own_stop", "reentry_own_restart",
        "reentry_ancestor_run", "reentry_ancestor_start", "reentry_ancestor_stop", "reentry_ancestor_restart",
        "reentry_in_handler", "reentry_in_guard", "reentry_in_exit", "reentry_in_route_action", "reentry_in_enter",
        "reentry_in_changed",
        "balance_checks_at_stop", "balance_states_closed", "observer_comparisons", "trace_events_compared",
        "define_rejected_duplicate_state", "define_rejected_route", "define_rejected_handler", "define_rejected_sub",
    ]},
)
