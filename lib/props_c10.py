"""C10 configuration (format: lib/props.py)."""

PROP = dict(
    harnesses={"c10_async_pipe": dict(sources=["harness/c10_async_pipe.cpp"])},
    legs=[
        dict(name="tsan", harness="c10_async_pipe", flavour="tsan", mode="mix", quick=1200, thorough=20000, concurrent=True, args=["--watchdog", "40"], case_timeout=120),
        dict(name="asan", harness="c10_async_pipe", flavour="asan", mode="mix", quick=1200, thorough=20000, seed_offset=7919, concurrent=True, args=["--watchdog", "40"], case_timeout=120),
    ],
    rule=("each case: 1-2 rounds on one AsyncPipe with buffer size in {1,2,3,16,64,1024}, min 1-3 / max min..min+3 buffers, flush "
          "interval in {1,2,5,50} ms, 1-8 producer threads running seeded scripts of append (sizes 1, buf-1, buf, buf+1, k*buf+r, random), "
          "appendLock/appendLockless*/appendUnlock groups and pauses that straddle the timed flush, a sink callback that sometimes sleeps "
          "(back-pressure), seeded delays at the TBOX_VERIF_POINT sites; producers are joined, then cleanup() (or the destructor). Bytes "
          "are self-describing (producer id, running index mod 16); the recorded sink stream is checked offline for per-producer order, "
          "totals, contiguity of every append / locked group, non-overlapping callbacks, nothing after cleanup. Non-trivial = >= 2 producers "
          "and at least one partially filled block handed over by the timed flush; distinct = distinct (configuration, script) hashes"),
    assumptions=["producers are joined before cleanup(): appending concurrently with cleanup is treated as misuse",
                 "byte indices are coded mod 16, so a loss or duplication of an exact multiple of 16 bytes is caught by the totals, not by the sequence check",
                 "TSan sees only the interleavings that occurred; a hang is confirmed by re-running the single case alone before it is reported"],
    technique="recorded sink history checked offline for order/contiguity/conservation, under ThreadSanitizer and ASan with injected delays",
    level_text=("Hundreds to thousands of short randomized multi-producer scenarios against the real AsyncPipe under TSan (races) and ASan; "
                "every byte delivered to the sink is attributed to its producer and append. Held on the schedules observed."),
    level_note="trusts the harness's history checker and gcc TSan/ASan; schedules are sampled, not enumerated",
    required_counters={"all": ["held_groups", "held_groups_last_before_cleanup", "held_groups_with_backpressure_inside", "partial_block_flushes", "slow_appends_backpressure", "verif_point_delays", "sink_callbacks", "inline_short_lived_rounds"]},
)
