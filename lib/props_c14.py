"""C14 configuration (see lib/props.py for the format)."""

PROP = dict(
    harnesses={"c14_framing": dict(sources=["harness/c14_framing.cpp"]), "c14_rpc": dict(sources=["harness/c14_rpc.cpp"])},
    legs=[
        dict(name="stream", harness="c14_framing", flavour="asan", mode="stream", quick=5000, thorough=300000),
        dict(name="hostile", harness="c14_framing", flavour="asan", mode="hostile", quick=40000, thorough=3000000),
        dict(name="rpc", harness="c14_rpc", flavour="asan", mode="rpc", quick=6000, thorough=300000),
        dict(name="pair", harness="c14_rpc", flavour="asan", mode="pair", quick=4000, thorough=200000),
        dict(name="deepnest", harness="c14_framing", flavour="plain", mode="deepnest", quick=84, thorough=84, scalable=False,
             exhaustive=True, args=["--watchdog", "400"], case_timeout=300),
    ],
    rule="tbd",
    assumptions=[],
    technique="tbd",
    level_text="tbd",
    level_note="tbd",
    required_counters={"all": []},
)
