"""C14 configuration (see lib/props.py for the format)."""

import os

_F = "c14_framing"
_R = "c14_rpc"

# Coverage-guided leg (thorough tier): one case = one bounded libFuzzer session over the three decoders, see harness/c14_fuzz.cpp.
# It needs the `fuzz` flavour of the library (clang-14; builds since lib/vbuild.py force-includes json.hpp). VERIF_C14_FUZZ=0 leaves it out.
_FUZZ = os.environ.get("VERIF_C14_FUZZ", "1") != "0"
_FUZZ_LEG = [dict(name="fuzz", harness="c14_fuzz", flavour="fuzz", mode="fuzz", args=["--runs", "100000", "--maxlen", "256"],
                  quick=0, thorough=30, case_timeout=900)] if _FUZZ else []
_FUZZ_H = {"c14_fuzz": dict(sources=["harness/c14_fuzz.cpp"], ldflags=["-fsanitize=fuzzer"])} if _FUZZ else {}

_RC = [
        # framing mechanisms
        "stream_header", "stream_raw", "roundtrip_header", "roundtrip_raw", "roundtrip_packet", "pieces_batch", "pieces_handmade",
        "seg_bytewise", "seg_random", "seg_two_way_positions", "streams_cut_at_every_position", "header_cut_inside_magic_or_length",
        "header_ret_zero_incomplete", "raw_ret_zero_incomplete", "raw_cut_inside_string", "raw_cut_before_bracket_inside_string",
        "raw_cut_before_escaped_quote", "raw_cut_right_after_backslash_in_string", "streams_with_string_ending_in_backslash",
        "streams_with_utf8", "streams_with_a_frame_longer_than_65535_bytes", "raw_whitespace_between_messages",
        # totality
        "header_length_within_6_of_2pow32", "header_length_near_2pow31", "header_length_0_1_2", "header_length_larger_than_available",
        "hostile_wrong-magic", "hostile_truncated", "hostile_corrupted-bytes", "hostile_bracket-quote-backslash", "hostile_random-bytes",
        "hostile_nested", "hostile_valid-json-not-rpc", "complete_frame_invalid_json_header", "complete_frame_invalid_json_raw",
        "complete_frame_invalid_json_packet", "header_malformed_reported", "raw_malformed_reported", "packet_malformed_reported",
        "header_incomplete_waits", "raw_incomplete_waits", "hostile_segmentations", "deepnest_child_returned",
        # rpc
        "requests_issued", "completed_by_response", "completed_by_timeout", "duplicate_response_queued", "late_response_after_timeout_queued",
        "unknown_id_response_queued", "wrong_type_or_out_of_range_id_response_queued", "out_of_int_range_id_response_queued",
        "batch_of_responses_queued", "response_fed_from_inside_send_callback", "requests_issued_from_inside_a_callback",
        "response_accepted_within_last_second_before_deadline", "frame_delivered_in_pieces", "incoming_request_with_colliding_id_queued",
        "frames_lost_in_transit", "async_answered_twice", "late_or_duplicate_response_delivered", "responder_frames_checked",
        "requests_checked_exactly_once", "rpc_over_header", "rpc_over_raw", "rpc_over_packet", "pair_over_header", "pair_over_raw", "pair_over_packet",
    ]
_RC_FUZZ = ["fuzz_execs_header", "fuzz_execs_raw", "fuzz_execs_packet", "fuzz_decoded_messages_header", "fuzz_decoded_messages_raw",
            "fuzz_segment_checks", "fuzz_negative_returns_header", "fuzz_negative_returns_raw"] if _FUZZ else []

PROP = dict(
    harnesses=dict({_F: dict(sources=["harness/c14_framing.cpp"]), _R: dict(sources=["harness/c14_rpc.cpp"])}, **_FUZZ_H),
    legs=[
        dict(name="stream", harness=_F, flavour="asan", mode="stream", quick=5000, thorough=150000),
        dict(name="hostile", harness=_F, flavour="asan", mode="hostile", quick=60000, thorough=3000000),
        dict(name="rpc", harness=_R, flavour="asan", mode="rpc", quick=7000, thorough=300000),
        dict(name="pair", harness=_R, flavour="asan", mode="pair", quick=5000, thorough=200000),
        # 7 nesting positions x 3 framings x depths 10^3..10^6, each in a forked child on an 8 MiB thread stack (plain build:
        # sanitizer frames are inflated, stack use is judged on the uninstrumented code)
        dict(name="deepnest", harness=_F, flavour="plain", mode="deepnest", quick=84, thorough=84, scalable=False, exhaustive=True,
             args=["--watchdog", "400"], case_timeout=300),
    ] + _FUZZ_LEG,
    rule=("stream: 1-8 JSON-RPC messages (requests, notifications, results, errors; params/results random JSON to depth 7 with strings "
          "made of quotes, backslashes, braces, brackets, escapes, control characters, NUL, 2/3/4-byte UTF-8, runs of 1-4 trailing backslashes; "
          "ids and error codes incl. INT_MIN/INT_MAX/0/negative; one case in 40 has a frame of 66-200 KB) written by the framing's own encoder "
          "(60 %), by the harness's own encoder in four spellings (compact, indented, \\uXXXX-escaped, tab-indented) or as a batch array; every "
          "library-encoded message is also decoded alone by a fresh instance of each of the three framings and its text compared with the value the "
          "harness built; the concatenation (HeaderStream or RawStream, random magic, blanks between bare texts) goes through the documented driver "
          "loop whole, byte by byte, in three random chunkings, cut around every frame edge, and cut in two at every position (streams <= 500 bytes) "
          "or at every position within 8 bytes of a frame edge plus 40 random ones; the callback sequence must equal the generator's list each time, "
          "no error may be reported and nothing but blanks may be left. "
          "hostile: 0-2 valid frames followed by one damaged part out of 13 classes (random bytes, wrong magic, length field in {0,1,2,2^31-2..2^31+1,"
          "2^32-7..2^32-1,...}, complete frame whose text is not JSON, truncation, 1-3 corrupted bytes, bracket/quote/backslash games, nesting 20-400, "
          "valid JSON that is no JSON-RPC message incl. wrong-typed and out-of-range id/code fields, valid frame followed by garbage) on all three framings: "
          "no exception, return <= size, valid frames in front decoded, complete malformed frames answered with a negative return, incomplete ones with 0, "
          "and byte-by-byte / random chunked decoding equal to the unsegmented decoding (messages and final state). "
          "rpc: a real Rpc on a real Loop under the virtual clock over a random framing, timeout 1-5 s, history of 8-45 steps: request (sometimes answered "
          "from inside the send callback), notify, matching / duplicate / late / unknown-id / not-yet-issued-id / wrong-type-id / out-of-int-range-id responses, "
          "batches, incoming requests whose ids collide with pending ones, non-RPC JSON, partial deliveries, clock advances (1 ms .. 3 s, hops of <= 100 ms with a "
          "loop pass each); a quarter of the callbacks issue follow-up requests. pair: two Rpc endpoints joined by byte queues with random segmentation and frame "
          "loss, services echo/fail/later (asynchronous, answered 0-2 times)/relay (issues a request from inside the service)/missing. "
          "Oracle: lock-step map id -> pending request per endpoint, driven only by what was delivered and by the clock (see harness header). "
          "deepnest: every combination of nesting position x framing x depth. "
          "Non-trivial: stream with >= 2 messages or a string containing a bracket, quote or backslash; hostile with a non-empty damaged part; rpc history that saw a "
          "response and a timeout, or a duplicate / late / unknown-id response; pair history with a completed response and a timeout, late response or lost frame. "
          "distinct = distinct hashes of the generated bytes / history script."),
    assumptions=[
        "inputs handed to onRecvData are exactly sized heap copies (a one-byte over-read is an AddressSanitizer report); over-reads that stay inside the copy are "
        "only visible through wrong results",
        "the driver loop is the one of examples/jsonrpc: append; while onRecvData(buffer) > 0 consume; a negative return resets the connection (rest discarded); 0 waits",
        "Packet framing is held to round trip and totality only (one packet per message; no resumption by design)",
        "encoder inputs are valid JSON values: strings are valid UTF-8 and numbers finite (nlohmann's dump refuses anything else); decoder inputs are arbitrary bytes",
        "'malformed input is reported' is demanded only where the input is complete and unambiguous: wrong magic with a full header, a complete length-delimited or "
        "bracket-delimited frame whose text nlohmann::json::accept rejects, a packet that is not JSON. An unbalanced closing bracket on RawStream (the decoder returns 0 "
        "forever) is counted (raw_unbalanced_closer_waits_forever_observed) but not claimed as a violation",
        "the deadline of a request is judged with the 1 s granularity of the timeout ring: a timeout must come more than (timeout_sec-1) s and at most timeout_sec s after "
        "request(); a response delivered while no callback has run yet must win",
        "a response matches a request only if its id is a JSON integer equal to the id the Rpc put on the wire; string, fractional, null and out-of-int-range ids are unknown ids",
        "histories do not call Rpc::cleanup() with requests pending and callbacks do not destroy the Rpc; ids never wrap (fewer than 2^31 requests)",
        "deep nesting is judged on the plain build on an 8 MiB thread stack (the Linux default); receiver callbacks take the Json by reference and do not copy it",
        "the libFuzzer leg (thorough tier, 30 sessions x 100 000 runs, seeded with 14 well-formed frames) has no reference: it only demands no exception, return <= size "
        "and segmented == unsegmented decoding; VERIF_C14_FUZZ=0 leaves it out",
    ],
    technique=("runtime monitoring: the real framings, Rpc, TimeoutMonitor and Loop run on generated streams and histories under ASan+UBSan (virtual monotonic clock); "
               "decoded callbacks are compared with the generator's message list and with the unsegmented decode, completion callbacks with a lock-step "
               "id -> pending-request model; stack exhaustion is decided on the uninstrumented build in forked children"),
    level_text=("Every generated stream is decoded under every segmentation tried (whole, byte-wise, random, around every frame edge, two-way at every position for short "
                "streams) and must give the generator's message sequence; every library-encoded message must decode to an equal value in all three framings; 13 classes of "
                "damaged input incl. all length fields within 7 of 2^32 must neither throw nor crash nor over-read and must be reported or waited for as the framing defines; "
                "in thousands of request/response/clock histories (harness as peer, and Rpc against Rpc) each completion callback runs exactly once with the response that was "
                "delivered first or with the timeout error inside the 1 s ring window. Held on the cases explored, not a proof."),
    level_note=("trusts nlohmann::json (parse/accept/dump) as the definition of JSON text and value equality, gcc ASan/UBSan, the virtual-clock hook, and the harness's own "
                "frame encoder and id -> request model"),
    required_counters={"quick": _RC, "thorough": _RC + _RC_FUZZ},
)
