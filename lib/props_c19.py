"""C19 configuration (see lib/props.py for the format)."""
import os, sys

# VERIF_PYTHON: interpreter for the reference co-process lib/oracles/c19_ref.py (the one running bin/check).
# handle_abort=0: a UBSan abort is then keyed by its own "runtime error" line instead of ASan's generic ABRT report.
_ENV = {"VERIF_PYTHON": sys.executable or "python3",
        "ASAN_OPTIONS": "abort_on_error=1:detect_leaks=0:detect_stack_use_after_return=0:allocator_may_return_null=1:"
                        "handle_abort=0:print_summary=1:symbolize=1"}
_H = "c19_codec"


def _leg(name, quick, thorough, **kw):
    d = dict(name=name, harness=_H, flavour="asan", mode=name, quick=quick, thorough=thorough, env=_ENV)
    d.update(kw)
    return d


# Coverage-guided leg (thorough tier): one case = one bounded libFuzzer session over the decoders, see harness/c19_fuzz.cpp.
# It needs the `fuzz` flavour of the library; at the time of writing lib/vbuild.py cannot build that flavour (clang-14 rejects
# modules/util/variables.h: `Json js;` with only json_fwd.hpp in sight, pulled in by modules/main/*.cpp), so the leg is opt-in:
# VERIF_C19_FUZZ=1 bin/check C19 --tier thorough.  The harness itself was validated with a direct clang build of the eight
# translation units it needs (see findings/c19.md).
_FUZZ = os.environ.get("VERIF_C19_FUZZ", "1") != "0"   # fuzz flavour builds since lib/vbuild.py force-includes json.hpp for clang
_FUZZ_LEG = [dict(name="fuzz", harness="c19_fuzz", flavour="fuzz", mode="fuzz", args=["--runs", "200000", "--maxlen", "96"],
                  quick=0, thorough=320, env=_ENV, case_timeout=600)] if _FUZZ else []
_FUZZ_H = {"c19_fuzz": dict(sources=["harness/c19_fuzz.cpp"], ldflags=["-fsanitize=fuzzer"])} if _FUZZ else {}

_RC = [
    "b64_encode_exact_cap", "b64_encode_short_cap_refused", "b64_decode_exact_cap_padded", "b64_decode_short_cap_refused",
    "b64_hostile_input_with_byte_ge_0x80", "b64_hostile_invalid_rejected", "b64_len_not_multiple_of_4",
    "sint_len_1", "sint_len_2", "sint_len_9", "sint_len_10", "sint_boundary_values", "sint_dump_exact_cap", "sint_dump_short_cap_refused",
    "sint_parse_truncated_refused", "sint_parse_unterminated_refused", "sint_parse_11_byte_form", "sint_parse_overflow_form", "sintx_two_byte_buffers",
    "ser_raw_exact_cap", "ser_raw_append_refused", "ser_vector", "ser_big", "ser_little",
    "des_truncated_refused", "des_fetch_refused_at_end", "des_huge_size_probe",
    "des_pod_odd_size_big_endian", "des_pod_odd_size_little_endian", "des_pod_size_1", "des_pod_big_endian", "des_pod_little_endian",
    "hex_empty_value", "hex_len_65535", "hex_fixed_exact_cap", "hex_fixed_truncated_by_cap", "hex_invalid_digit_thrown", "hex_odd_length",
    "url_roundtrip", "url_high_bytes", "url_invalid_escape_thrown", "url_truncated_escape", "url_decode_valid",
    "crc16", "crc32", "sum8", "sum16_odd", "sum16_even",
    "digest_large_inputs", "sum16_input_ge_128KiB", "sum16_word_sum_exceeds_2p32", "sum8_byte_sum_exceeds_2p16", "crc_input_ge_1MiB", "md5_input_ge_1MiB",
    "md5_multi_update", "md5_split_inside_block", "md5_split_on_block_edge", "md5_three_way_splits", "aes_cipher", "aes_invcipher",
    "md5_single_update_ge_512MiB", "md5_multi_update_total_ge_512MiB", "md5_huge_misaligned_first_piece",
]
_RC_FUZZ = ["fuzz_execs_checksum_large", "fuzz_sum16_word_sum_exceeds_2p32", "fuzz_execs_base64_decode", "fuzz_execs_hex_decode", "fuzz_execs_scalable_parse", "fuzz_execs_url_decode",
            "fuzz_execs_deserializer", "fuzz_execs_md5_split", "fuzz_execs_roundtrip", "fuzz_inputs_with_byte_ge_0x80"] if _FUZZ else []

PROP = dict(
    harnesses=dict({_H: dict(sources=["harness/c19_codec.cpp", ]), }, **_FUZZ_H),
    legs=[
        _leg("base64", 80000, 4000000),
        _leg("hex", 30000, 500000),
        _leg("scalable", 80000, 4000000),
        # every 1- and 2-byte buffer, every value within 2 of a length boundary / power of two, continuation runs of 0..12 bytes
        _leg("scalable-x", 66219, 66219, scalable=False, exhaustive=True),
        _leg("serializer", 60000, 2000000),
        _leg("url", 80000, 4000000),
        _leg("digest", 30000, 400000),
        # one case per message length n (0..130 quick, 0..260 thorough): all (n+1)(n+2)/2 splits into three updates
        _leg("md5split", 131, 261, scalable=False, exhaustive=True),
        # zero-filled messages of 2^29-64, 2^29-1, 2^29, 2^29+1000 bytes x {one update, 1 MiB pieces, 300 MiB + rest, misaligned 96 MiB pieces};
        # all 16 cases in both tiers (about 10 s wall with 4 jobs, 35 s CPU under ASan). One 512 MiB calloc (untouched zero pages) per shard at a time.
        _leg("md5-huge", 16, 16, scalable=False, exhaustive=True),
    ] + _FUZZ_LEG,
    rule=("One case = one generated input pushed through every entry point of one codec family, each expected value asked from the "
          "python co-process lib/oracles/c19_ref.py (base64, binascii, zlib, hashlib, struct, urllib.parse; AES-128 written from FIPS-197 and "
          "self-checked against its appendix vectors; ones'-complement sums; the scalable-integer table of the header). "
          "base64: raw bytes of 1..6000 (all-0x00, all-0xff, ascending, high-half, printable, random) -> Encode into capacities "
          "{exact, one short, 1, +1, larger}, string/vector overloads, DecodeLength, Decode of the reference text into capacities {exact, one short, 0, +1, "
          "larger}, C-string and vector overloads, truncated text; every other pair of cases mutates the text (any byte value, byte >= 0x80, cut anywhere, "
          "arbitrary bytes, '=' sprinkled / in the middle / only) and decodes at capacities {DecodeLength, one short, 0, 3n/4, larger}. "
          "hex: 0..65535 bytes x upper/lower x 8 delimiters, text compared, decoded by the vector and the fixed-buffer decoder at capacities {exact, one short, 0, +1, "
          "random}; hostile texts (arbitrary bytes, one digit replaced, odd length, blanks, over-long tokens). "
          "scalable: length-boundary values +-3, powers of two +-2, top of range, random widths; Dump at capacities {exact, one short, 0, 10, +1, random short}, "
          "Parse exact / with trailing bytes / every truncation, three hostile buffers of 0..14 bytes per case (unterminated, 10 and 11 byte forms, over-range forms). "
          "serializer: 1..24 fields (u8..u64, i8..i64, float, double, raw, POD, endian switches) written through append/appendPOD/operator<< into a raw block at "
          "capacities {exact, one short, 0, +3, random} and into a vector, bytes compared with struct.pack; read back through fetch/fetchPOD/fetchNoCopy/skip/operator>> "
          "from the whole and from a cut input, with never-satisfiable size requests (remaining+1 .. SIZE_MAX) interleaved. "
          "url: UrlEncode in both modes on arbitrary bytes, UrlDecode of it and unquote_to_bytes of it must give the input back; hostile escapes; Url struct parsers for clean behaviour only. "
          "digest: CRC-16/CRC-32 with default and arbitrary seeds, 8/16-bit sums, MD5 fed as 1..7 pieces (zero-length pieces, cuts on and next to 64-byte edges), "
          "AES-128 cipher/invcipher on two key/block pairs. md5-huge: zero-filled messages of 2^29-64, 2^29-1, 2^29, 2^29+1000 bytes x {one update, 1 MiB pieces, 300 MiB + rest, 37 bytes then 96 MiB+5 pieces} "
          "against digests produced once with hashlib and hard-coded in the harness. Every 500th digest case is a large input instead: 64 KiB..16 MiB (65535/65536/65537, 131074..131076, 262142..262146, "
          "1 MiB, 1 MiB+1, 2 MiB-2, 4 MiB, 8 MiB+3, 16 MiB, random 4..16 MiB) filled with 0xFF / 0x00 / 0x80 / ff00 / 00ff / a random block of prime period / "
          "a random high-valued block, described to the reference as (size, block) and pushed through both CRCs, both sums and MD5 (at once or in up to four big pieces); "
          "sizes and fills are walked deterministically so every run meets 16-bit word sums above 2^32. md5split: every split of an n-byte message into three updates. "
          "A case is non-trivial when its input is non-empty; distinct = distinct hashes of the generated inputs (value, text, field list, pieces)."),
    assumptions=[
        "inputs are exactly sized heap blocks (an over-read of one byte is an AddressSanitizer report); std::string arguments are heap objects of exact capacity, "
        "so for them only over-reads past the terminating NUL (or past a 15-byte short string) are visible",
        "outputs are surrounded by 64-byte canary guard regions checked after every call; a write further away is an AddressSanitizer report; "
        "writes that stay inside the given capacity are never a violation",
        "base64::Encode is called within its asserted preconditions (at least one input byte, capacity of at least one byte); capacity 0 is exercised on every decoder",
        "'fails cleanly' is decided as: returns or throws a C++ exception, never writes outside the capacity, never returns more than the capacity; a decoder is "
        "additionally required to refuse only where the input is unambiguously outside the format (length not a multiple of 4 / byte outside the alphabet before the "
        "first '=' for Base64; non-hex digit or odd length for hex; no terminator within ten bytes for scalable integers; request larger than the remaining input for "
        "the deserializer). 10-byte scalable forms above 2^64-1 and percent signs not followed by two hex digits are only required to be handled cleanly",
        "hex delimiters contain no hex digits; MD5 messages stay below 4 GiB per update() call (the md5-huge leg goes to 2^29+1000 bytes); Serializer::append(ptr, n) is never told a size larger than the block it is given",
        "the python standard library (base64, binascii, zlib, hashlib, struct, urllib.parse) is the reference; the AES and checksum references are self-checked "
        "against FIPS-197 appendix B/C.1, RFC 1321 A.5, the CRC catalogue check values and the RFC 1071 example before the first answer",
    ],
    technique=("runtime monitoring: the real encoders/decoders run on generated and exhaustively enumerated inputs under ASan+UBSan with exactly sized inputs and "
               "canary-guarded outputs; every result is compared with an independent reference (python standard library / FIPS-197 AES) served by a co-process"),
    level_text=("Every generated input is encoded, decoded and digested by the real code and compared byte for byte with python's standard library (and a FIPS-197 "
                "AES); size functions, capacities exact / one short / zero, every byte value 0-255 on every decoder, all scalable-integer length boundaries, all 1- and "
                "2-byte scalable buffers and every three-way split of MD5 messages up to 130 (260) bytes are covered while ASan/UBSan and guard regions watch for reads and "
                "writes outside the buffers. Held on the inputs explored, not a proof."),
    level_note="trusts python's base64/binascii/zlib/hashlib/struct/urllib, the self-checked FIPS-197 reference, gcc ASan/UBSan and the 64-byte guard regions",
    required_counters={"quick": _RC, "thorough": _RC + _RC_FUZZ},
)
