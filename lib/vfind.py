"""Violation keys, known-findings matching, replay files, evidence writer."""
import os, re, json, fnmatch, hashlib, time

VERIF = os.path.dirname(os.path.dirname(os.path.abspath(__file__)))
KNOWN = os.path.join(VERIF, "known_findings.json")


def load_known():
    try:
        return json.load(open(KNOWN)).get("findings", [])
    except (OSError, ValueError):
        return []


def match_known(prop, v, known):
    """A violation is covered only by an entry with status 'known' whose key pattern matches and
    whose narrowing regexes all match the violation's detail/desc/mode. 'fixed' entries suppress nothing."""
    for k in known:
        if k.get("property") != prop or k.get("status") != "known":
            continue
        if not fnmatch.fnmatchcase(v["key"], k.get("key", "")):
            continue
        m = k.get("match", {})
        ok = True
        for field, rx in m.items():
            val = str(v.get(field, ""))
            if not re.search(rx, val, re.S):
                ok = False
                break
        if ok:
            return k
    return None


def write_replay(prop, v, workroot):
    d = os.path.join(workroot, "replay")
    os.makedirs(d, exist_ok=True)
    h = hashlib.sha1(("%s|%s|%s|%s" % (v["key"], v.get("mode"), v.get("seed"), v.get("case"))).encode()).hexdigest()[:12]
    p = os.path.join(d, "%s_%s.json" % (prop, h))
    rep = dict(property=prop, key=v["key"], harness=v.get("harness"), flavour=v.get("flavour"),
               mode=v.get("mode"), seed=v.get("seed"), case=v.get("case"), args=v.get("args", []),
               shard_first=v.get("shard_first"), shard_count=v.get("shard_count"),
               witness=dict(detail=v.get("detail"), desc=v.get("desc")))
    json.dump(rep, open(p, "w"), indent=1)
    return p


def write_evidence(prop, tier, seed, level, coverage, assumptions, wall, violations):
    d = os.path.join(VERIF, "evidence")
    os.makedirs(d, exist_ok=True)
    ev = dict(property_id=prop, tier=tier, seed=int(seed), level=level, coverage=coverage,
              assumptions=assumptions, wall_s=round(wall, 2), violations=int(violations))
    tmp = os.path.join(d, "%s.json.tmp" % prop)
    json.dump(ev, open(tmp, "w"), indent=1, sort_keys=False)
    os.replace(tmp, os.path.join(d, "%s.json" % prop))
