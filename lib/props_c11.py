"""C11 configuration (see lib/props.py for the format)."""
import os

_REPO = os.environ.get("VERIF_REPO", "/repo")

PROP = dict(
    harnesses={
        "c11_module": dict(sources=["harness/c11_module.cpp"]),
        # main/trace.cpp needs the trace module, which is not part of the framework's library
        "c11_main": dict(sources=["harness/c11_main.cpp", os.path.join(_REPO, "modules/trace/sink.cpp")]),
    },
    legs=[
        dict(name="random", harness="c11_module", flavour="asan", mode="random", quick=300000, thorough=40000000),
        dict(name="exhaustive-4mod-2faults-len4", harness="c11_module", flavour="asan", mode="exhaustive",
             args=["--nodes", "4", "--faults", "2", "--len", "4"], quick=7357416, thorough=0, scalable=False, exhaustive=True),
        dict(name="exhaustive-4mod-3faults-len4", harness="c11_module", flavour="asan", mode="exhaustive",
             args=["--nodes", "4", "--faults", "3", "--len", "4"], quick=0, thorough=183078126, scalable=False, exhaustive=True),
        # the same enumeration, but the root is deleted WITHOUT the closing cleanup(): the tree is destroyed while
        # initialised, running, stopped or half-way, and ~Module() of the root has to take the descendants down
        dict(name="exhaustive-3mod-destroy-without-cleanup", harness="c11_module", flavour="asan", mode="exhaustive",
             args=["--nodes", "3", "--faults", "2", "--len", "4", "--final", "0"], quick=373736, thorough=0, scalable=False, exhaustive=True),
        dict(name="exhaustive-4mod-destroy-without-cleanup", harness="c11_module", flavour="asan", mode="exhaustive",
             args=["--nodes", "4", "--faults", "2", "--len", "4", "--final", "0"], quick=0, thorough=7357416, scalable=False, exhaustive=True),
        # plain flavour on purpose: every case forks a child that runs the whole main framework (loop, thread pool,
        # watchdog thread); a child that stops making progress is a verdict, and with the gcc-12 ASan runtime the
        # children occasionally dead-locked inside the sanitizer's own allocator mutex under CPU load, which would be
        # a false alarm. Memory safety of module.cpp is covered by the asan legs above.
        dict(name="main-entry-points", harness="c11_main", flavour="plain", mode="both", quick=160, thorough=8000,
             case_timeout=200, min_shard=4),
    ],
    rule=("random: a seeded tree of probe modules (1..25 modules, depth <= 4, fan-out <= 4, each child required or optional, "
          "named or unnamed, registered with add() or addAs()), a fault plan per onInit/onStart hook (always ok, always fails, "
          "fails on the 1st/2nd invocation only, succeeds once then fails, random bit pattern; about 0-3 faulty hooks per tree; "
          "a named module may also have its config section removed so that initialize() fails before the hook), and 0..8 calls "
          "from {initialize,start,stop,cleanup} on the root in any order with repeats, then cleanup() and destruction (1 case in 4 "
          "is deleted without the closing cleanup(), most of them while the tree is still initialised or running: then the root's "
          "destructor must run onStop/onCleanup of every descendant, in reverse order, before deleting it; only the root's own hooks "
          "are unreachable from its own destructor and are not demanded). After every call the hooks that ran, the return value and "
          "state() of every module are judged: (1) per-module automaton and strict LIFO of Stop/Cleanup against Start/Init, "
          "parent-first registration order of Init/Start; (2) exact Init/Start hook sequence and return value from a recursive "
          "reference (a module succeeds iff its own hook and all required children succeed) whenever the tree is in sync with "
          "the reference; (3) every successful onInit/onStart matched by onCleanup/onStop after cleanup()+destruction. "
          "exhaustive: every ordered tree with <= 4 modules x required/optional per child x 2 namings x {ok, always-fail"
          "[, fail-once]} per hook x every call sequence of length <= 4, followed by cleanup()+destruction; "
          "exhaustive-*-destroy-without-cleanup: the same space with the root deleted without the closing cleanup(). "
          "main-entry-points: trees of 1..9 probes under the plain root of main::Main() (SIGTERM raised as the loop starts) or "
          "main::Start()+Stop(), each in a forked child, hooks streamed over a pipe. "
          "A case is non-trivial when the tree has >= 2 modules, at least 3 hooks ran and either a hook returned failure or "
          "hooks ran while a root that was not cleaned up was being destroyed; "
          "distinct = distinct (tree, flags, names, fault plan, call sequence with return values) among those"),
    assumptions=[
        "hooks reached only from ~Module() on the object being destroyed run the base-class versions (C++ rule), so balance is judged "
        "for the ROOT only in runs that end with an explicit cleanup(); when the root is deleted without it, ~Module() of the root calls "
        "cleanup() while all descendants are still complete objects, so every descendant must be balanced (and in reverse order) by the "
        "time it is deleted, and only the root's own onStop/onCleanup are not demanded",
        "the property does not say when the hooks of a half-built tree are compensated (inside the failing call or at cleanup()); a "
        "failing call therefore only suspends the exact-sequence reference until the tree is clean again, the verdict comes from the "
        "invariants and the final balance",
        "calls are made on the root only (module.h: children are managed by their parent); sibling names are distinct and at most one "
        "child per parent is unnamed (add() refuses duplicates); the config passed to initialize() is the one fillDefaultConfig() built",
        "Main()/Start() runs: call boundaries are not visible from the hooks, so Init and Start hooks are judged as one sequence each; "
        "a child that produces no hook for 15 s is reported only if all its threads are asleep with no CPU time across three samples",
    ],
    technique=("runtime monitoring: probe modules record every lifecycle hook of the real Module tree; an online monitor (per-module "
               "automaton, LIFO/nesting rules, recursive reference for sequences and return values, final balance) judges random and "
               "exhaustively enumerated trees x fault assignments x call sequences under ASan+UBSan, plus runs through main::Main() and "
               "main::Start()/Stop() in child processes"),
    level_text=("Every hook invocation of every generated tree/fault/call history is compared with an independent reference and a set of "
                "ordering invariants; all trees with <= 4 modules are enumerated exhaustively with every fault assignment and every call "
                "sequence of length <= 4. Held on the histories explored, not a proof."),
    level_note=("trusts the 30-line recursive reference and the probe's own event log; the root's hooks during its own destruction are "
                "unobservable; Main()/Start() legs run without a sanitizer"),
    required_counters={"all": [
        "mech_init_required_child_fails_after_sibling_succeeded", "mech_start_required_child_fails_after_sibling_succeeded",
        "mech_init_optional_child_fails_parent_continues", "mech_start_optional_child_fails_parent_continues",
        "mech_init_optional_subtree_half_built", "mech_start_optional_subtree_half_built",
        "mech_cleanup_implies_stop", "mech_reverse_stop_of_3_or_more", "mech_children_deleted_by_parent",
        "mech_repeated_or_noop_call", "mech_start_before_initialize",
        "mech_retry_after_failed_initialize", "mech_retry_after_failed_start",
        "mech_destroy_without_cleanup", "mech_destroy_while_running", "mech_config_section_missing",
        "histories_ending_in_destroy_while_running", "histories_ending_in_destroy_while_inited",
        "histories_ending_in_destroy_after_stop", "destroy_descendants_stopped_by_root_destructor",
        "destroy_descendants_cleaned_by_root_destructor",
        "calls_judged_with_reference",
        "main_sigterm_stop_path", "runs_backend_start_stop", "main_outcome_initialize_failed", "main_outcome_start_failed",
        "main_optional_failure_tolerated",
    ]},
)
