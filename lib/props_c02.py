"""C02 configuration (see lib/props.py for the format)."""

PROP = dict(
    harnesses={"c02_timers": dict(sources=["harness/c02_timers.cpp"])},
    legs=[
        dict(name="timer", harness="c02_timers", flavour="asan", mode="timer", quick=40000, thorough=2000000,
             args=["--watchdog", "60"], case_timeout=120),
        dict(name="pool", harness="c02_timers", flavour="asan", mode="pool", quick=30000, thorough=1500000,
             args=["--watchdog", "60"], case_timeout=120),
        # one case = one (configuration of the 3 timers, callback action) pair = 17^depth scripts; 216 x 25 = 5400 cases
        dict(name="exhaustive-depth3", harness="c02_timers", flavour="asan", mode="exhaustive",
             args=["--depth", "3", "--watchdog", "120"], quick=5400, thorough=0, scalable=False, exhaustive=True,
             case_timeout=300),
        dict(name="exhaustive-depth4", harness="c02_timers", flavour="asan", mode="exhaustive",
             args=["--depth", "4", "--watchdog", "300"], quick=0, thorough=5400, scalable=False, exhaustive=True,
             case_timeout=900),
        # 2 engines x {one-shot, persistent} x 8 far intervals x {alone, next to a 5 ms one-shot}
        dict(name="far-deadlines", harness="c02_timers", flavour="asan", mode="far", quick=64, thorough=64, scalable=False,
             exhaustive=True, args=["--watchdog", "60"], case_timeout=120, min_shard=16),
        # real clock, real sleeps: ~50-100 ms per case, almost all of it asleep
        dict(name="realtime", harness="c02_timers", flavour="asan", mode="realtime", quick=64, thorough=640,
             args=["--watchdog", "30"], case_timeout=60),
    ],
    rule=("timer: a seeded history over 1-8 event::TimerEvent slots on a real loop (epoll for even, select for odd case numbers) under a "
          "virtual monotonic clock that starts at 0, near 2^31/2^32 ms, 2^32 s, 2^53, ~2^62 or a random large value; intervals from a "
          "per-case palette (one value only = everything ties; {1,2,3}; harmonic {5,10,20,40}; {1,1,2,50}; far-away deadlines {2^31-1, 2^31, "
          "2^31+1, 2^32+7, 30 days, 3*2^31+5, 1, 40} ms; six random values in 1..50); "
          "5-26 steps of 0-3 operations (create+initialize, enable, disable, restart, re-initialise with a new interval/mode, destroy, "
          "enable while enabled, disable while disabled) followed by a clock advance drawn from {0, 1, d-1, d, d+1, k*d+r with k<=10, "
          "exactly to the nearest deadline, one ms before it, exactly to one timer's deadline, beyond every deadline} and one loop "
          "pass; half of the cases drive every pass with runLoop(kOnce) (operations between passes happen while the loop is not "
          "running), the other half run the whole script from a deferred task inside one runLoop(kForever); with a per-case "
          "probability (0/10/35/70 %) a callback performs 1-2 operations itself: disable / restart / re-initialise the firing timer, "
          "schedule its own deferred destruction, advance the clock (a slow callback), or disable / enable / restart / re-initialise / "
          "destroy / create ANOTHER timer, preferring one that is due in the same pass; a quarter of the cases first churn the loop "
          "with 5/70/140 short-lived timers (cabinet slot and pooled-record reuse, beyond the pool's retention of 64). "
          "30 % of the timer and pool cases are 'tiny quiet populations': exactly 2, 3 or 4 timers (the harness arms no exit timer), one of "
          "them periodic with a short interval p in 1..10 and the others with intervals from {p, 1.5p+1, 2.5p+1, 3p+1, 10p, 7p+3} so that "
          "their deadlines fall between the periodic timer's successive deadlines, all armed at one instant in shuffled order, 12-40 passes "
          "half of which step by 1..2p, an operation before only one pass in seven (preferably re-arming an idle timer / a new doAfter, "
          "i.e. an insertion rather than a removal, because a removal rebuilds the loop's heap), mutating callbacks in a quarter of them. "
          "Every callback "
          "is judged when it arrives (armed in the model, clock >= t_enable+k*d, no armed timer with an earlier deadline, one-shot "
          "already reports disabled); after every pass no armed timer may have a deadline <= the clock the pass started with and "
          "isEnabled() of every timer equals the model; getWaitTime() read before a pass, and the timeout the loop actually passes to "
          "epoll_wait()/select() (the harness defines both functions, records the argument and forwards a zero timeout to the kernel; "
          "half of the kOnce passes run without a pending task so that the loop computes a real timeout), must lie in "
          "[0, nearest deadline - now]. "
          "pool: the same protocol through eventx::TimerPool (doEvery, doAfter, cancel of live / already fired / already cancelled / "
          "pre-cleanup tokens, cancel of itself or of a timer due in the same pass from a callback, cleanup outside and inside "
          "callbacks followed by new timers). exhaustive: three timers, every assignment of {one-shot, persistent} x d in {1,2,3} "
          "(216), all enabled at t0; one of 25 callback actions (none, or: when timer a fires it disables / restarts timer b in "
          "{0,1,2} or destroys timer b != a); inside each such case EVERY script of `depth` symbols over {enable i, disable i, destroy i "
          "(enable re-creates), pass with advance 0..7} plus a closing pass is run (17^3 = 4913 scripts per case in the quick tier, "
          "17^4 = 83521 in the thorough tier). realtime: 2-6 timers with d in 1..15 ms on a loop that really sleeps, exit timer 30-70 ms, "
          "optionally one timer disabled or restarted from another one's callback. "
          "A timer/pool case is non-trivial when at least 3 timers were armed at once and a callback mutated a timer or the loop woke at "
          "least one full interval late; distinct = distinct hashes of the executed operation/advance sequence among those"),
    assumptions=[
        "'never skipped' is decided as bounded progress on the virtual clock: the pass that starts with clock value now must have served "
        "every armed deadline <= now before it ends (the clock only moves when the harness moves it, so lateness never comes from the "
        "machine); deadlines that only become due because a callback advanced the clock may wait for the next pass",
        "deadline order is judged per invocation (every catch-up invocation of a persistent timer has its own deadline t+k*d); ties are free",
        "initialize() on an enabled timer leaves it disabled (the implementation disables first) and enable() on an enabled timer keeps "
        "the running interval; both are what the code documents by construction, the property text is silent on them",
        "a TimerEvent is never deleted from inside its own callback (TBOX_ASSERT by design): self-destruction is generated as a deferred "
        "runNext task; a TimerPool is never destroyed from inside one of its callbacks; intervals are >= 1 ms; doAt (wall clock) is not driven",
        "the kernel wait is not timed: 'sleeps no longer than the nearest deadline' is observed (a) through a probe subclass calling the "
        "protected CommonLoop::getWaitTime() before passes, (b) as the timeout argument the loop hands to epoll_wait()/select(), seen by "
        "harness-defined functions of those names that forward to the raw system calls with a zero timeout under the virtual clock, and "
        "(c) in the realtime leg only as 'a loop that never wakes is a hang'; lateness against the wall clock is never judged",
        "realtime leg: only implications that hold under any machine load are checked (callback not before enable+k*d on steady_clock; "
        "every deadline strictly before the exit timer's has been served when runLoop returns, because the heap serves it first)",
    ],
    technique=("lock-step reference model (list of armed deadlines) judging every timer callback of the real loop under a virtual "
               "monotonic clock, random and exhaustively enumerated histories incl. mutations from inside callbacks, ASan+UBSan "
               "with poisoned pooled timer records; protected getWaitTime() and the kernel timeout argument observed; a small real-clock leg"),
    level_text=("Every timer callback of every generated history is compared, at the moment it arrives, with an independent model of "
                "armed deadlines while the loop runs on a harness-driven clock (both back-ends, loop driven pass by pass and from inside "
                "runLoop); all scripts of 3 (quick) / 4 (thorough) symbols over three timers with every interval/mode assignment and "
                "25 in-callback actions are enumerated completely. Held on the histories explored, not a proof."),
    level_note=("trusts the deadline-list model, the steady-clock hook (the only way time moves), gcc ASan/UBSan and the pool "
                "poisoning hook; the kernel wait itself is only exercised by the 64/640 realtime cases"),
    required_counters={"all": [
        # who ran
        "engine_epoll", "engine_select", "drive_runloop_once_per_pass", "drive_inside_runloop_forever",
        "timer_event_callbacks", "pool_doEvery_callbacks", "pool_doAfter_callbacks", "x_scripts", "rt_callbacks",
        # deadline = now + interval at enable time; fresh interval on re-enable
        "op_reenable", "first_fire_after_reenable_checked_against_fresh_interval", "pass_started_exactly_on_nearest_deadline",
        "pass_started_one_ms_before_nearest_deadline", "fired_exactly_on_deadline", "op_enable_inside_pass",
        # pop-min / re-push with deadline += interval: catch-up, late wakes, ties
        "fires_oneshot", "fires_persistent", "catchup_fires_same_pass", "late_wake_two_or_more_periods",
        "late_wake_oneshot_overdue_by_an_interval", "ties_two_timers_same_deadline_same_pass", "armed_sharing_a_deadline",
        "pass_with_three_or_more_timers_due", "cb_clock_advanced_inside_callback",
        # tiny populations (the heap's root and its two children): 2-4 pending timers with a periodic one in front, quiet stretches
        # without enable/disable (a disable rebuilds the heap), re-armed deadline landing between the other pending ones
        "cases_tiny_quiet_population", "passes_with_exactly_2_pending_timers_and_periodic_front",
        "passes_with_exactly_3_pending_timers_and_periodic_front", "passes_with_exactly_4_pending_timers_and_periodic_front",
        "quiet_passes_with_exactly_3_pending_timers_and_periodic_front", "rearm_with_exactly_3_pending_lands_between_the_other_two",
        "rearm_with_exactly_3_pending_lands_behind_both_others", "rearm_with_exactly_4_pending_lands_between_others",
        "rearm_with_exactly_2_pending_lands_behind_the_other",
        # removal by forcing the deadline to 0 + re-heapify; storage freed later; token reuse
        "removed_from_middle_of_deadline_order", "removed_nearest_deadline", "removed_while_due_in_this_pass",
        "cb_disable_other_due_in_same_pass", "cb_destroy_other_due_in_same_pass", "cb_restart_other_due_in_same_pass",
        "cb_disable_self", "cb_restart_self", "cb_reinit_self", "deferred_self_destroy_while_armed",
        "op_disable_after_oneshot_fired_noop", "cases_on_loop_aged_beyond_pool_retention",
        # one-shot marks itself disabled before the user callback
        "oneshot_isenabled_false_in_callback_checked",
        # loop sleeps no longer than the nearest deadline
        "wait_time_equals_distance_to_nearest_deadline", "wait_time_zero_with_overdue_timer", "rt_lower_bound_checked",
        "kernel_waits_observed", "once_pass_without_pending_task", "kernel_wait_positive_timeout_within_bound",
        "palette_with_intervals_beyond_2^31_ms", "kernel_wait_with_nearest_deadline_beyond_2^31_ms", "far_cases",
        # TimerPool
        "op_cancel_live", "op_cancel_stale_token", "op_cancel_token_from_before_cleanup", "cb_cancel_other_due_in_same_pass",
        "cb_cancel_self_persistent", "cb_cancel_self_oneshot_already_fired", "op_cleanup_with_live_timers", "op_cleanup_inside_pass",
        "cb_add_right_after_cleanup", "tail_cleanup_then_far_pass", "tail_all_disabled_then_far_pass",
    ]},
)
