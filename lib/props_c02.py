"""C02 configuration (see lib/props.py for the format)."""

PROP = dict(
    harnesses={"c02_timers": dict(sources=["harness/c02_timers.cpp"])},
    legs=[
        dict(name="timer", harness="c02_timers", flavour="asan", mode="timer", quick=40000, thorough=2000000,
             args=["--watchdog", "60"], case_timeout=120),
        dict(name="pool", harness="c02_timers", flavour="asan", mode="pool", quick=30000, thorough=1500000,
             args=["--watchdog", "60"], case_timeout=120),
        dict(name="exhaustive-depth3", harness="c02_timers", flavour="asan", mode="exhaustive", args=["--depth", "3", "--watchdog", "120"],
             quick=5400, thorough=0, scalable=False, exhaustive=True, case_timeout=300),
        dict(name="exhaustive-depth4", harness="c02_timers", flavour="asan", mode="exhaustive", args=["--depth", "4", "--watchdog", "300"],
             quick=0, thorough=5400, scalable=False, exhaustive=True, case_timeout=900),
        dict(name="realtime", harness="c02_timers", flavour="asan", mode="realtime", quick=64, thorough=640,
             args=["--watchdog", "30"], case_timeout=60),
    ],
    rule="TBD",
    assumptions=[],
    technique="TBD",
    level_text="TBD",
    level_note="TBD",
    required_counters={"all": []},
)
