"""C20 configuration (see lib/props.py for the format)."""

PROP = dict(
    harnesses={"c20_alarm": dict(sources=["harness/c20_alarm.cpp"])},
    legs=[
        # one case = one configuration x 6 boundary-biased "now" values, each through the probe and through enable()
        dict(name="next", harness="c20_alarm", flavour="asan", mode="next", quick=700000, thorough=16000000),
        # 128 masks x 7 weekdays x 5 seconds-of-day x 7 now-vs-instant relations x 5 zone offsets
        dict(name="weekly-exhaustive", harness="c20_alarm", flavour="asan", mode="weekly-exhaustive",
             quick=156800, thorough=156800, scalable=False, exhaustive=True),
        dict(name="history", harness="c20_alarm", flavour="asan", mode="history", quick=70000, thorough=2400000),
    ],
    rule=("next: a seeded alarm configuration (weekly: seconds-of-day x 7-bit mask; one-shot; workday: calendar with weekly default, "
          "holiday runs, make-up days and gaps of up to two years; cron: six fields built from '*', '?', values, names, lists, ranges "
          "and steps with at most one of day-of-month/day-of-week restricted, incl. yearly and Feb-29 expressions) is evaluated at 6 "
          "'now' values (days over the whole 32-bit range biased to 1970, 2038, 2106, leap days, new year; time of day in "
          "{0,1,s-1,s,s+1,86398,86399,random}) with zone offsets -12h..+14h in 15-minute steps, once through a probe subclass that "
          "calls the protected next-instant computation and once through setTimezone()+enable()+remainSeconds() under the virtual "
          "wall clock; both must equal the brute-force earliest matching instant strictly after now. A case is non-trivial when an "
          "evaluation had now within one second of an instant / on the instant's time of day, or the answer fell on a later day. "
          "weekly-exhaustive: the full product of masks, weekdays, 5 seconds-of-day, 7 now-relations, 5 offsets. "
          "history: 1-3 alarms on a real loop driven pass by pass under a virtual wall clock (microseconds) and a virtual monotonic "
          "clock that gains up to 20 ms on the wall clock per armed period; scripts of 6-28 operations (run to one ms before the armed "
          "distance / over it, disable, disable with the expired timer still pending, enable, refresh, wall-clock jump + refresh, small "
          "silent wall adjustments, calendar updates, re-initialise, cleanup, destroy/re-create; disable / disable+enable / refresh / "
          "one-shot re-enable from inside the callback). Non-trivial = at least one callback, and a callback delivered with the wall "
          "clock still before the instant or an armed distance beyond 49.7 days, and an enable/disable/refresh/jump sequence; distinct = "
          "distinct script hashes among those"),
    assumptions=[
        "the explicit zone offset path is the one claimed; the system-time-zone path is only smoke-tested with three fixed POSIX TZ strings",
        "instants whose local or UTC second count does not fit 32 bits are outside the quantifier and skipped (counted)",
        "WorkdayAlarm searches today plus the 366 following days: when the earliest admissible day is further away the alarm may refuse "
        "to arm; it must still never arm a non-matching instant",
        "ccronexpr gives up when the year of the candidate is more than 4 years after the year of now (Feb-29 expressions after 2096): skipped (counted)",
        "cron expressions restrict at most one of day-of-month and day-of-week, so the AND and OR readings of the two fields coincide",
        "refresh() (also when issued by WorkdayCalendar updates) is documented as re-deriving the schedule from a corrected clock: the model "
        "forgets the instant already delivered at that point, and the generator does not call it in the few ms between an early wake-up "
        "and the instant itself; an idle alarm that remembers a delivered instant the corrected clock has not reached gets cleanup()+initialize()",
        "after the armed wall distance has elapsed on the monotonic clock the callback must arrive within 1 s (the second granularity of "
        "the configuration); lateness below that is not judged",
        "silent wall-clock adjustments (no refresh) are kept within +-2 s and never move the clock back across an instant already delivered",
    ],
    technique=("lock-step reference model: brute-force calendar search (day by day, then hour/minute/second) for the next instant; "
               "virtual wall and monotonic clocks for the arming/firing protocol on a real event loop; ASan+UBSan"),
    level_text=("Every next-instant computation and every arming event of every generated history is compared with an independent "
                "brute-force search, and every callback is checked against the armed wall-clock distance on the virtual monotonic clock, "
                "once-per-instant delivery and the enabled state, under AddressSanitizer/UBSan. The weekly sub-space (all 128 masks) is "
                "enumerated completely. Held on the cases explored, not a proof."),
    level_note=("trusts the brute-force reference (its calendar arithmetic is cross-checked against gmtime_r at start-up), the two clock "
                "hooks, and remainSeconds() as the observation of the armed instant"),
    required_counters={"all": [
        # per-kind next-instant computation, through the probe and through activeTimer
        "eval_weekly", "eval_oneshot", "eval_workday", "eval_cron", "via_probe", "via_enable", "zone_east", "zone_west",
        "boundary_instant_is_next_second", "boundary_now_equals_time_of_day", "answer_on_later_day",
        "weekly_wraps_to_same_weekday_next_week", "workday_answer_on_special_day", "workday_gap_over_100_days",
        "cron_distance_over_1_year", "cron_answer_on_leap_day", "now_beyond_2038", "enable_refused_unsatisfiable",
        "x_mask_zero", "x_mask_nonzero",
        # next computation starts from max(now, previous target): early wake-ups and re-arm before the callback
        "fires_with_mono_ahead_of_wall", "armed_instant_checked_rearm", "armed_instant_checked_reenable",
        "armed_instant_checked_reenable-in-callback", "armed_instant_checked_refresh", "armed_instant_checked_refresh-after-jump",
        "armed_instant_checked_calendar-refresh",
        # 32-bit millisecond conversion and the one-shot loop timer
        "armed_distance_over_49_days", "armed_distance_over_1_year", "fires_after_more_than_49_days", "passes_one_ms_before_due",
        "look_ins_before_due", "fire_not_before_due_checked",
        # one-shot / disabled
        "oneshot_fired", "oneshot_reenabled_in_callback", "oneshot_left_idle_for_over_a_day_after_firing",
        "old_instant_passed_while_disabled", "disabled_with_expired_timer_pending", "disable_in_callback",
        "destroyed_while_armed", "cleanup_ops", "tail_all_disabled_past_old_instants",
        "fires_weekly", "fires_oneshot", "fires_workday", "fires_cron",
    ]},
)
