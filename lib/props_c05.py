"""C05 configuration (format: lib/props.py)."""

_A = ["--watchdog", "60"]
PROP = dict(
    harnesses={"c05_thread_pool": dict(sources=["harness/c05_thread_pool.cpp"])},
    legs=[
        dict(name="tsan", harness="c05_thread_pool", flavour="tsan", mode="mix", quick=3000, thorough=30000, concurrent=True, args=_A, case_timeout=180),
        dict(name="asan", harness="c05_thread_pool", flavour="asan", mode="mix", quick=6000, thorough=100000, seed_offset=104729, concurrent=True, args=_A, case_timeout=180),
    ],
    rule=("each case: a ThreadPool (min 0-3, max 1-6) or a WorkThread on a running loop (epoll or select); a seeded script of 1-200 steps "
          "executed on the loop thread as a chain of runNext tasks: execute (priority -3..3, and in the parked single-worker window also far outside the documented range: -1000, INT_MIN, 1000, INT_MAX, which the library clamps to the nearer end, with/without completion callback; bodies that leave by exception (1 in 25; the pool's CatchThrow must treat them as finished), bodies that return "
          "at once, spin 20us, sleep 0.2-0.8 ms or wait on a gate), getTaskStatus, cancel, snapshot, gate release, spins/sleeps, a 'park the only "
          "worker on a gate, queue 2-13 tasks, release' pattern for the pick-order oracle, quiesce points, cleanup (with or without a preceding "
          "quiesce), optional re-initialise and a second round; seeded delays at the ThreadPool/WorkThread TBOX_VERIF_POINT sites. Bodies and "
          "callbacks record START/END/CB ticks from one global logical clock; the history is checked after the loop exited. Non-trivial = at "
          "least 3 tasks and 2 status/cancel queries, or an order batch checked; distinct = distinct script hashes"),
    assumptions=["the pool API is called only from the loop thread (its documented contract); only workers run concurrently with it",
                 "a task whose START falls inside cleanup() may or may not have run (left open on purpose)",
                 "answers are judged only in the sound direction: notfound/cancel-notfound for a task that later starts or is running throughout, "
                 "cancel-success for a task that runs, waiting for a task whose body had already started",
                 "pick order is judged only with a single worker parked on a gate (start order with several workers is not pick order)",
                 "a stranded task is reported only when the pool's own snapshot says every worker is idle and nothing is running"],
    technique="API-boundary history (START/END/CB ticks, query windows) checked against the exactly-once/answer/order rules, under TSan and ASan with injected delays",
    level_text=("Thousands of short randomized scenarios against the real pool and work thread under ThreadSanitizer and ASan, with delays injected "
                "in the windows between pop and mark-running and before the stop flag; every task's execution count, thread, callback and every "
                "status/cancel answer is checked against the recorded history. Held on the schedules observed."),
    level_note="trusts the history checker and gcc TSan/ASan; schedules are sampled; liveness is restated as bounded progress decided from snapshot()",
    required_counters={"all": ["queries_before_start_window", "order_batches_checked", "verif_point_delays", "scenarios_workthread", "retire_race_bursts", "loop_stopped_gaps", "cancels_inside_parked_window", "parked_tasks_with_priority_below_range", "parked_tasks_with_priority_above_range", "workthread_no_default_loop_explicit_task_loop", "workthread_default_and_task_loop", "task_bodies_leaving_by_exception",
                               "scenarios_threadpool", "quiesce_points", "cancel_result_0", "status_executing", "status_waiting"]},
)
