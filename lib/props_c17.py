"""C17 configuration (see lib/props.py for the format)."""

PROP = dict(
    harnesses={"c17_action_tree": dict(sources=["harness/c17_action_tree.cpp"])},
    legs=[
        dict(name="random", harness="c17_action_tree", flavour="asan", mode="random", quick=20000, thorough=1000000,
             args=["--watchdog", "120"], case_timeout=120),
    ],
    rule="tbd",
    assumptions=[],
    technique="tbd",
    level_text="tbd",
    level_note="tbd",
    required_counters={"all": []},
)
