"""C17 configuration (see lib/props.py for the format)."""

_KINDS = ["Sequence", "Parallel", "IfElse", "IfThen", "Switch", "Loop", "LoopIf", "Repeat", "Wrapper", "Composite",
          "Probe", "Function", "Succ", "Fail", "Sleep"]

PROP = dict(
    harnesses={"c17_action_tree": dict(sources=["harness/c17_action_tree.cpp"])},
    legs=[
        dict(name="random", harness="c17_action_tree", flavour="asan", mode="random", quick=100000, thorough=3000000,
             args=["--watchdog", "120"], case_timeout=120),
        # 2250 (composite, mode, leaf behaviours) x 25 control placements x 2 tick orders
        dict(name="exhaustive-single-composite", harness="c17_action_tree", flavour="asan", mode="exhaustive",
             args=["--alpha", "5", "--watchdog", "120"], quick=112500, thorough=0, scalable=False, exhaustive=True, case_timeout=120),
        # the same with a sixth leaf behaviour (block after one tick, fail one tick after the resume): 3918 x 50
        dict(name="exhaustive-single-composite-6", harness="c17_action_tree", flavour="asan", mode="exhaustive",
             args=["--alpha", "6", "--watchdog", "120"], quick=0, thorough=195900, scalable=False, exhaustive=True, case_timeout=120),
    ],
    rule=("random: a seeded action tree of 1-34 nodes and depth <= 4 over Sequence/Parallel (3 modes, 0-4 children), IfElse (both / only "
          "then / only else), IfThen (1-3 pairs), Switch (0-3 cases, optional default, switch child leaf or composite), Loop (3 modes), "
          "LoopIf (both finish results), Repeat (times 0-3, 3 modes), Wrapper (4 modes), Composite; leaves: probe leaf on DummyAction "
          "(per invocation: succeed / fail / never, inside onStart or after 1-3 ticks, optionally block first - inside onStart or later - "
          "and continue inside onResume or 1-2 ticks after it; reason message selects the Switch case), Function (plain and Reason& "
          "form), Succ, Fail, Sleep 0-25 ms; timeouts of 1-50 ms on about 10% of the nodes in 40% of the trees. The harness is a task "
          "inside the real loop that re-posts itself once per pass (before or after its work, so control calls land both before and "
          "after the notifications queued in the same pass), advances the virtual clock by 0-20 ms per tick, completes/blocks due "
          "leaves (a paused leaf holds its work back), resumes 0-3 ticks after (or inside) the root's block callback and applies the "
          "script. Run A: script S1 of 3-30 ticks: start only / start plus 1-3 pause-resume pairs with gap 0-4 / 2-8 random "
          "start,pause,resume,stop,reset calls at random ticks incl. redundant ones, pause..resume+stop(+reset+start) and "
          "stop+reset+start in one tick; the root's block callback resumes (80%), calls stop() (10%) or does nothing (10%), the root's finish callback does reset()+start() 1-2 times in 20% of the cases. Then stop+reset+start in one tick, reset+start without stop, or stop/reset/start over three "
          "ticks, and run B under S2 (0-3 pause-resume pairs, optional cut-off tick, optional resume right before the final "
          "stop+delete); run B' repeats S2 on a freshly built tree. Every run ends with stop()+delete in one tick followed by three "
          "more passes under ASan. exhaustive: every single composite (all modes; Sequence/Parallel with 2 and 3 children; IfElse 3 "
          "shapes; IfThen 1 and 2 pairs; Switch with and without default; Repeat times 0,1,2) over probe leaves drawn from "
          "{succeed at once, fail at once, succeed after a tick, fail after a tick, block at once then succeed inside onResume"
          " [, block after a tick then fail a tick after the resume]} (two-step scripts for Loop/Repeat), crossed with: no control call, "
          "pause at tick 0-3 with resume 0-2 ticks later, stop at tick 0-3, reset+start at tick 0-3, pause at tick 0-3 followed one tick later by resume+stop+reset+start in one tick, and both tick orders. "
          "A case is non-trivial when the tree has at least two composite levels (any tree in the exhaustive legs) and at least three "
          "control calls changed the root's state; distinct = distinct hashes of (tree, S1, S2, transition)"),
    assumptions=[
        "Reference semantics are the pseudo-code in actions/*.h with these readings where the header is silent or a baseline test pins "
        "something else: Sequence falling off the end reports the last child's result (test FinishIfAllFinish_AllFail), an empty "
        "Sequence succeeds; Parallel always reports success and finishes when all children finished or (AnySucc/AnyFail) one child "
        "delivered the deciding result, then stops the others; IfElse with the taken branch missing succeeds (tests "
        "CondSuccNoIfAction/CondFailNoElseAction); IfThen with no condition true fails; Switch fails when the switch child fails or no "
        "case/default matches, the case is the child's reason message; Repeat that runs out of times succeeds, Repeat with times=0 "
        "repeats forever (baseline test RepeatAction.FunctionActionForeverNoBreak constructs exactly that, although the header's for-loop "
        "would give zero iterations); LoopIf ends with setFinishResult()'s value when the condition fails.",
        "Probe leaves behave like well-written leaves: they finish/block only while running (work is held back while paused), continue "
        "from onResume only after their own block, and drop their pending work in onStop/onReset.",
        "A timed-out node must finish with failure, never before its timeout of un-paused run time (time spent blocked counts, because "
        "block() leaves the timer armed), and at the first pass after its timeout elapsed while it ran without interruption.",
        "A block notification already in flight when the root finishes by timeout may still be delivered; one in flight when the root "
        "is stopped or reset may not (property text).",
        "The pause-cascade invariant (paused root => no running descendant, running root => no paused descendant) is only checked in "
        "runs in which no leaf has blocked: with a block notification in flight a pause+resume pair can legitimately leave a composite "
        "paused above a leaf that was resumed in between.",
        "Sleep leaves finishing before their span of un-paused time (SleepAction does not update its finish time on resume, so a second "
        "pause computes a wrong remainder) are counted (note_sleep_finished_before_its_span_of_unpaused_time) but not judged: the "
        "property does not speak about sleep durations.",
        "action_executor.cpp is anchored but the property statement makes no claim about the executor; it is not driven by this check.",
        "Only the first violation of a case is reported (later ones are usually consequences); symptoms seen in a run that began right "
        "after a stop/reset with a re-posted child result in flight are grouped under one key with the symptom class in the detail.",
    ],
    technique=("runtime monitoring of the real composites on a real event loop under a virtual clock: every node is a thin subclass that logs "
               "the protected lifecycle hooks; per-composite reference automata and a big-step evaluator written from the documented "
               "pseudo-code, lifecycle/cleanup/notification/progress monitors, reset-vs-fresh trace comparison; ASan+UBSan with "
               "stop()+delete in one tick"),
    level_text=("Every generated tree/schedule is executed on the real code and every start, finish, stop, pause, resume, block, reset, "
                "final hook and timeout of every node is checked online against independent reference automata of the documented "
                "control flow, a big-step prediction of the root result and leaf start order, lifecycle/cleanup/notification/progress "
                "invariants, and the trace of a freshly built tree; a sub-space of all single composites x small leaf alphabet x one "
                "control placement is enumerated completely. Held on the cases explored, not a proof."),
    level_note=("trusts the reference automata/evaluator (readings listed under assumptions), the virtual steady-clock hook, the hook-logging "
                "subclasses (they only log and forward) and gcc ASan/UBSan"),
    required_counters={"all": ["run_" + k for k in _KINDS] + [
        # serial composites hold back a child's result while paused and replay it on resume
        "serial_child_finished_while_parent_paused", "pause_between_child_finish_and_parent_handling",
        "resumed_with_child_result_to_replay", "stopped_with_replayed_child_result_in_flight",
        "reset_with_replayed_child_result_in_flight",
        "parallel_child_finished_while_parallel_paused", "parallel_paused_with_child_finish_in_flight",
        # queued notifications withdrawn on reset / stop / destruction
        "reset_with_finish_notification_queued", "reset_with_block_notification_queued", "stop_with_block_notification_queued",
        "stop_then_delete_in_one_tick", "resume_then_stop_then_delete_in_one_tick",
        "root_finish_callback", "root_block_callback", "restart_inside_finish_callback", "stop_inside_block_callback", "resume_inside_block_callback", "resume_some_ticks_after_block_callback",
        # lifecycle state machine
        "pause_effective", "resume_effective", "stop_effective", "reset_effective", "reset_while_underway", "stopped_while_paused",
        "several_control_calls_in_one_tick", "final_hook",
        "transition_stop_reset_start_in_one_tick", "transition_reset_without_stop", "transition_stop_reset_start_over_three_ticks",
        # leaves and timeouts
        "leaf_finish_inside_onStart", "leaf_finish_later", "leaf_block_inside_onStart", "leaf_finish_inside_onResume",
        "leaf_finish_after_block_and_resume", "leaf_never", "sleep_finished",
        "timeout_fired", "timeout_finished_composite", "timeout_finished_leaf", "timeout_fired_while_blocked",
        # oracles that actually compared something
        "bigstep_root_result_compared", "bigstep_order_compared_finished_run", "bigstep_counts_compared_finished_run",
        "bigstep_order_prefix_compared", "reset_vs_fresh_traces_compared", "predicted_finishes", "predicted_never_finishes",
        "predicted_unbounded_loop",
    ]},
)
