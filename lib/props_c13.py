"""C13 configuration (format: lib/props.py)."""

_H = "c13_terminal"
# handle_abort=0: a UBSan abort is keyed by its own "runtime error" line instead of ASan's generic ABRT report
# hard_rss_limit_mb: a server-side handler that loops while writing to a socket would otherwise grow without bound until the watchdog fires
_ENV = {"ASAN_OPTIONS": "abort_on_error=1:detect_leaks=0:detect_stack_use_after_return=0:allocator_may_return_null=1:"
                        "handle_abort=0:print_summary=1:symbolize=1:hard_rss_limit_mb=3000"}


def _leg(name, quick, thorough, **kw):
    # --watchdog: a `tree` over a cyclic mount (or any other command) that never returns is a hang datum; the runner
    # re-runs the single case alone (case_timeout) before it reports hang/<mode>
    d = dict(name=name, harness=_H, flavour="asan", mode=name, quick=quick, thorough=thorough,
             args=["--watchdog", "30"], case_timeout=60, env=_ENV)
    d.update(kw)
    return d


_RC = [
        # key scanner + editing handlers
        "key_insert_mid_line", "key_backspace_mid_line", "key_delete_mid_line", "key_backspace_at_col0", "key_left", "key_left_at_col0", "key_right", "key_right_at_end",
        "key_home", "key_end", "key_up_recall", "key_up_at_oldest", "key_down_recall", "key_down_to_empty", "key_noop_fnkey", "key_noop_tab", "key_noop_alt",
        "key_noop_ctrlalt", "key_noop_esc_trailing", "enter_crlf", "enter_lf", "enter_crnul", "enter_cr_trailing", "deliveries_with_several_enters",
        "lines_executed_after_recall", "lines_multi_segment", "probe_calls_required_and_checked", "prompt_checks",
        # history cap / history itself not stored
        "history_store_pinned", "history_cmd_not_stored_pinned", "history_eviction_at_cap", "history_listing_full_20", "history_listing_equals_reference",
        "history_open_line_stored", "history_open_line_not_stored",
        # history re-run parses and bounds-checks the index
        "histref_entry_absolute", "histref_entry_negative", "histref_entry_bangbang", "histref_entry_with_full_history", "histref_error_with_empty_history",
        "histref_error_bangbang_empty_history", "histref_error_absolute_out_of_range", "histref_error_negative_out_of_range", "histref_error_non_numeric",
        "histref_error_empty_argument", "histref_error_number_beyond_int", "histref_cases",
        # session teardown deferred to the next loop pass
        "sessions_ended_by_exit", "hostile_segments_with_repeated_exit", "hostile_sessions_ended_by_exit", "hostile_calls_on_dead_session", "tcp_exit_then_eof_seen",
        "tcp_repeated_exit_in_one_write",
        # node trees
        "tree_cycle_marker_seen", "tree_deleted_marker_seen", "deleted_node_message_seen", "tree_listings_seen", "tree_cyclic_mounts_direct", "hostile_liveness_probe_ok",
        # telnet IAC framing waits for complete commands
        "tcp_iac_cut_across_segments", "tcp_wont_replies_checked", "tcp_nop_replies_checked", "tcp_sb_truncated", "tcp_sb_naws_short_first_data", "tcp_sb_nested",
        "tcp_ff_runs", "tcp_truncated_iac_at_close", "tcp_rst_close", "tcp_half_close", "tcp_abrupt_close", "tcp_probe_calls_required_and_checked", "tcp_prompt_checks",
        "tcp_liveness_probe_ok", "tcp_cases_over_loopback_tcp", "tcp_cases_over_unix_socket",
]
_RC += [
    # teardown through the real front ends, what follows the ending placed in the loop iteration right after it (service leg)
    "sessions_ended_by_exit_then_more_bytes_in_next_pass", "sessions_ended_by_exit_then_client_close_in_next_pass",
    "sessions_ended_by_exit_then_client_reset_in_next_pass", "sessions_ended_by_exit_then_client_half_close_in_next_pass",
    "sessions_ended_by_exit_then_more_bytes_without_a_pass_between", "sessions_ended_by_exit_then_more_bytes_two_or_more_passes_later",
    "service_end_with_more_bytes_in_same_write", "sessions_ended_by_command_node", "sessions_ended_by_command_node_then_more_bytes_in_next_pass",
    "sessions_ended_by_command_node_then_more_bytes_without_a_pass_between", "sessions_ended_by_command_node_then_client_close_in_next_pass",
    "service_exit_sessions_disconnected_by_server", "service_other_sessions_still_working", "service_probe_replies_checked",
    "service_endings_over_telnet", "service_endings_over_tcprpc", "service_cases_over_loopback_tcp", "service_cases_over_unix_socket",
    "service_bystander_sessions", "tcp_loop_iterations",
]
_RC_FUZZ = ["fuzz_execs_direct", "fuzz_execs_telnet", "fuzz_sessions_ended_by_exit", "fuzz_tree_cycle_markers", "fuzz_tree_deleted_markers",
            "fuzz_error_replies", "fuzz_inputs_with_iac", "fuzz_inputs_with_escape", "fuzz_probe_calls", "fuzz_liveness_ok"]

PROP = dict(
    harnesses={_H: dict(sources=["harness/c13_terminal.cpp"]),
               "c13_fuzz": dict(sources=["harness/c13_fuzz.cpp"], ldflags=["-fsanitize=fuzzer"])},
    legs=[
        _leg("editor", 60000, 3000000),
        # 30 reference forms x 7 fill levels x {leading blanks} x {follow-up kind}: every combination once
        _leg("histref", 840, 840, scalable=False, exhaustive=True),
        _leg("hostile", 20000, 1200000),
        # every 3rd (quick) / 40th (thorough) case listens on a loopback TCP port, the rest on a unix-domain stream socket:
        # closed TCP connections park ephemeral ports in TIME_WAIT for 60 s and the thorough volume would drain the range
        _leg("telnet", 3000, 0),
        _leg("tcprpc", 2000, 0),
        # session teardown through both front ends: 8-24 sessions per case, what follows `exit` is placed an exact number of loop passes later
        _leg("service", 3000, 0, args=["--watchdog", "30", "--tcp-every", "16"]),
        _leg("service-thorough", 0, 150000, mode="service", args=["--watchdog", "30", "--tcp-every", "200"]),
        _leg("telnet-thorough", 0, 500000, mode="telnet", args=["--watchdog", "30", "--tcp-every", "40"]),
        _leg("tcprpc-thorough", 0, 300000, mode="tcprpc", args=["--watchdog", "30", "--tcp-every", "40"]),
        # coverage-guided: one case = one libFuzzer session of 50000 runs (40 sessions = 2 M runs), see harness/c13_fuzz.cpp
        dict(name="fuzz", harness="c13_fuzz", flavour="fuzz", mode="fuzz", args=["--runs", "50000", "--maxlen", "192"],
             quick=0, thorough=40, scalable=False, env=_ENV, case_timeout=900),
    ],
    rule=("editor: one case = one Terminal (real epoll loop, recording Connection, probe function nodes /p /q /d/r /d/e/s) driven by 40-220 keys, "
          "generated online against the reference editor of harness/c13_ref.hpp: printable characters (all but '#'), Backspace 7f/08, Delete, Left, Right, Home, End, "
          "Up, Down, Enter as CR LF / LF / CR NUL / trailing CR, Tab, F1-F12, Insert, PgUp/PgDn, Alt+x, Ctrl+Alt+x, trailing ESC; every key's bytes unsplit, 1..n keys per "
          "onRecvString (per case: always 1, or flush probability 1/2, 1/5, 1/20). Text comes from command templates (probe calls with quoted / --k=\"v w\" arguments, "
          "relative names, ls/cd/pwd/tree/help, history, !n !-n !! with n around the history size and far outside int, multi-segment lines with empty segments, "
          "unbalanced quotes, exit/quit incl. twice in one line, junk, 40-160 argument lines) typed with 0/3/10/25 % interleaved editing keys, plus recall-and-run "
          "sequences. After every delivery: one \"# \" send per Enter; the probe invocations observed must be an in-order match of the reference line's segments "
          "(segments naming a probe by canonical absolute path before anything irregular MUST be invoked with exactly the reference tokens, other tokenizable segments MAY); "
          "a sole history reference must re-run exactly the addressed entry or produce an \"Error\" send with no invocation; after a line whose storage the property leaves open "
          "the shell's own `history` listing is read back and must be the old list or the old list plus that line / an older entry, capped at 20, and the model follows it; "
          "after plain successful lines and after `history` the listing must equal the model; no listing may exceed 20 rows or contain the `history` command; exit must end "
          "the session within two loop passes (Connection::endSession, onRecvString then false) and nothing else may. "
          "histref: every combination of fill level {0,1,2,7,19,20,23 lines entered} x 30 reference forms (!!, !0, !1, !-1, !size-1, !size, !size+1, !-size, !-(size+1), "
          "INT_MAX, INT_MIN, 2^31, -(2^31+1), 2^32, 10^12, 2^64, 10^26, empty, non-numeric, open forms) x leading blanks x follow-up (Up+Enter / !!). "
          "hostile: random node tree (<= 6 dirs, <= 6 funcs, mounts incl. self / root / mutual cycles, names such as '..', 'a b', 'ls', 200 characters; nodes deleted while mounted; "
          "umounts) mutated while 1-4 sessions (all four option combinations) receive arbitrary bytes, dictionary soup of cut escape prefixes / CR / NUL / 0xFF, command lines over "
          "tree/ls/cd/help/pwd with generated paths, history references, 3000-character lines, `exit` repeated in one string; loop passes at random; sends to sessions torn down "
          "and a wrong onRecvString/onRecvWindowSize liveness answer are violations; finally a fresh session must execute `/zz_probe 42 'x y'` exactly. "
          "telnet / tcprpc: the same Terminal behind Telnetd / TcpRpc listening on a loopback TCP port (every 3rd case; every 40th in the thorough tier) or on a unix-domain stream socket (the others; same TcpServer/BufferedFd path), 1-3 client sockets written in random interleaving and segmentation: clean clients "
          "(keys unsplit, telnet commands DO/DONT/WILL/WONT/NOP/GA/SB NAWS/SB TTYPE/IAC IAC cut anywhere) are checked for probe invocations (reply markers in the byte stream), "
          "one prompt per Enter plus the greeting, one WONT per DONT, one NOP per NOP, Bye + EOF after exit; hostile clients send IAC soup, unterminated / nested / short SB blocks, "
          "0xFF runs, 60 KB lines, repeated exit, then half-close / close / RST; finally a fresh client's command must be executed. "
          "service: one loop carrying Terminal + Telnetd + TcpRpc together (loopback TCP every 16th case, unix-domain sockets otherwise) and 8-24 scripted sessions, up to 4 "
          "connected at once, a third of the cases ending sessions by exit/quit only, a third only through a command node that calls Session::endSession(), a third mixed; "
          "what the client does after the ending write - more bytes (text, telnet DO/NOP/SB, a second exit, single bytes one per iteration), close, half-close, RST, nothing - "
          "goes out in the same write, in a separate write with no loop iteration between, or exactly 1, 2 or 3 iterations later; sessions that never end (bystanders) and a "
          "newcomer on each front end must still get a command executed at the end; every session that asked to end must see the server close the connection; the commands sent "
          "before the ending must have been executed. In service, telnet and tcprpc the loop runs in Mode::kForever on a helper thread and hands control to the (sequential) "
          "scenario once per iteration, from the first task of the run-next phase - runLoop(kOnce) would drain the deferred tasks after every pass and hide the iteration "
          "between `exit` and the deferred disconnect. An exception that leaves runLoop is a violation keyed by type and by the kind of session being torn down. "
          "fuzz (thorough): 40 libFuzzer sessions of 50000 runs (clang ASan+UBSan, fixed dictionary of commands, escape sequences and telnet codes, inputs <= 192 bytes cut "
          "into length-prefixed segments with optional loop passes) against onRecvString on a Terminal with a cyclic, partly deleted node tree and against Telnetd over a "
          "unix-domain socket; every 256th input a fresh client must get `/p 42 'x y'` executed exactly. "
          "Any crash, abort, uncaught exception (also caught in-process and keyed by type), ASan/UBSan or pool-poison report is a violation; a case that does not finish is a hang datum. "
          "Non-trivial: editor = at least one mid-line edit, one required probe invocation checked and one executed recall or checked history reference; "
          "hostile = more than 10 sends recorded; tcp = at least two probe invocations. distinct = distinct hashes of the delivered byte strings."),
    assumptions=[
        "key encodings are never split across onRecvString calls in the equivalence legs (the scanner restarts per call); a bare CR counts as Enter only as the last byte of a call, "
        "so the TCP legs use CR LF / CR NUL / LF only",
        "reference editor semantics for history browsing: Up shows the next older stored line, Down the next newer, Down past the newest gives an empty line, the line being edited "
        "is not kept; the property names the keys but not these details, they mirror the shell's visible behaviour and no proposed fix touches them",
        "tokenisation is compared only for the shapes pinned by the repository's own SplitCmdline unit tests; a closing quote directly followed by a non-blank is left open "
        "(such deliveries are not matched against probe invocations)",
        "which lines are stored in the history is pinned only for plain successful lines (stored) and the sole command `history` (not stored); for everything else the model "
        "follows the shell's own listing and only checks that the change is one of the allowed ones",
        "history references with a sign '+', leading zeros, '-0', embedded blanks or digits followed by other characters are left open (either an error or a re-run is accepted)",
        "what a multi-segment line does after an empty segment, a parse failure, `history`, an exit or a failed history reference is left open: later probe segments MAY run",
        "SIGPIPE is ignored by the harness, as cpp-tbox's own main module catches it; a server write to a connection the client has reset is otherwise a process-level signal matter",
        "client-side TCP_NODELAY and TCP_QUICKACK keep loopback delivery synchronous with the loop passes; if a reply is still missing the harness keeps turning the loop for up to "
        "2 s of real time before it judges the content (counter tcp_settle_waits_10ms, normally absent)",
        "the service leg's command node (s.send(); s.endSession()) is ordinary use of the public Session API; the node does not send after endSession() itself",
        "deleteSession from the transport while an exit is still queued for that session is not generated (neither TCP front end can produce it); the proposed fix covers it anyway",
        "the libFuzzer leg (thorough tier) has no reference model: it judges crashes, sanitizer reports, uncaught exceptions, endless output, liveness answers of "
        "onRecvString, sends to torn-down sessions and a periodic probe command only; its telnet target runs over a unix-domain socket",
    ],
    technique=("lock-step reference editor / command classifier against the real Terminal over generated keystroke scripts, enumerated history-reference sub-space, "
               "hostile byte streams through onRecvString and through Telnetd / TcpRpc on loopback TCP and unix-domain sockets, coverage-guided libFuzzer sessions (thorough), "
               "all under ASan+UBSan with a poisoned session pool"),
    level_text=("Tens of thousands of keystroke scripts are executed by the real shell and by an independent reference editor; the argument vectors reaching probe nodes, the prompt "
                "sends, the shell's own history listing and session teardown are compared after every delivery. Every history-reference form is tried at every history fill level. "
                "Hostile bytes, cyclic / deleted node trees and misbehaving TCP clients run under AddressSanitizer/UBSan with pooled sessions poisoned; a crash of the child is a datum. "
                "Held on the scripts and streams explored, not a proof."),
    level_note="trusts the reference editor / tokenizer in harness/c13_ref.hpp, gcc ASan/UBSan and the kernel's loopback TCP; equivalence is claimed only for unsplit key encodings",
    required_counters={"quick": _RC, "thorough": _RC + _RC_FUZZ},
)
