"""C13 configuration (format: lib/props.py)."""

_H = "c13_terminal"
# handle_abort=0: a UBSan abort is keyed by its own "runtime error" line instead of ASan's generic ABRT report
_ENV = {"ASAN_OPTIONS": "abort_on_error=1:detect_leaks=0:detect_stack_use_after_return=0:allocator_may_return_null=1:"
                        "handle_abort=0:print_summary=1:symbolize=1"}


def _leg(name, quick, thorough, **kw):
    d = dict(name=name, harness=_H, flavour="asan", mode=name, quick=quick, thorough=thorough,
             args=["--watchdog", "60"], case_timeout=120, env=_ENV)
    d.update(kw)
    return d


PROP = dict(
    harnesses={_H: dict(sources=["harness/c13_terminal.cpp"])},
    legs=[
        _leg("editor", 3000, 200000),
        _leg("histref", 840, 840, scalable=False, exhaustive=True),
        _leg("hostile", 1500, 100000),
        _leg("telnet", 300, 20000),
        _leg("tcprpc", 150, 10000),
    ],
    rule="TBD",
    assumptions=[],
    technique="TBD",
    level_text="TBD",
    level_note="TBD",
    required_counters={"all": []},
)
