"""C12 configuration (see lib/props.py for the format)."""

PROP = dict(
    harnesses={"c12_parser": dict(sources=["harness/c12_parser.cpp"])},
    legs=[
        dict(name="segment", harness="c12_parser", flavour="asan", mode="segment", quick=3000, thorough=200000),
        dict(name="bigsplit", harness="c12_parser", flavour="asan", mode="bigsplit", quick=300, thorough=8000),
        dict(name="hostile", harness="c12_parser", flavour="asan", mode="hostile", quick=60000, thorough=4000000),
    ],
    rule="tbd",
    assumptions=[],
    technique="tbd",
    level_text="tbd",
    level_note="tbd",
    required_counters={"all": []},
)
