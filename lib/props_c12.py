"""C12 configuration (see lib/props.py for the format)."""

_WD = ["--watchdog", "120"]     # a parser or loop that stops making progress is a hang datum (confirmed alone by the runner)

# The runner's defaults plus malloc_context_size=4 and no legend: a use-after-free report through the std::function / bind frames of the server is
# otherwise longer than the 20 000 characters the runner keeps, and would lose its "ERROR: AddressSanitizer: <kind>" line (the key).
_ENV = {"ASAN_OPTIONS": "abort_on_error=1:detect_leaks=0:detect_stack_use_after_return=0:allocator_may_return_null=1:handle_abort=1:"
                        "print_summary=1:symbolize=1:malloc_context_size=4:print_legend=0"}


def _leg(name, harness, quick, thorough, **kw):
    d = dict(name=name, harness=harness, flavour="asan", mode=name, quick=quick, thorough=thorough, args=list(_WD), case_timeout=120, env=_ENV)
    d.update(kw)
    return d


_RC_PARSER = [
    # resumable three-stage parser: every stage was left and re-entered, unconsumed bytes stayed in the receive buffer
    "parse_waits_for_request_line", "parse_resumed_in_headers", "parse_resumed_in_body", "unconsumed_bytes_left_in_buffer",
    "streams_with_every_split_position", "feeds_bytewise", "feeds_random_cut_sets",
    "cut_inside-method", "cut_after-method", "cut_inside-request-line", "cut_between-cr-lf", "cut_inside-headers",
    "cut_inside-content-length-digits", "cut_inside-blank-line", "cut_before-body", "cut_inside-body", "cut_request-boundary",
    "body_over_1k", "body_contains_blank_line", "requests_http10", "targets_with_escapes", "targets_with_params", "targets_with_query",
    # totality
    "hostile_content_length_value_mutated", "hostile_missing_colon", "hostile_bare_cr", "hostile_nul", "hostile_bad_escape",
    "hostile_unstructured", "hostile_rejected", "hostile_yielded_requests", "hostile_waiting_for_more",
    # declared lengths at the boundaries of the size type (2^64 - k for k around the header-block length, SIZE_MAX, 2^63, 2^32, 2^31)
    "hostile_cl_2p64_minus_header_length", "hostile_cl_2p64_window", "hostile_cl_2p64_exact", "hostile_cl_size_max", "hostile_cl_2p63_boundary",
    "hostile_cl_2p32_boundary", "hostile_cl_2p31_boundary", "hostile_cl_boundary_with_bytes_following", "hostile_cl_boundary_without_body",
]
_RC_SERVER = [
    "srv_requests_delivered", "srv_responses_received",
    # responses committed out of turn are parked and flushed when their turn comes
    "srv_completed_inside_callback", "srv_completed_late", "srv_completed_out_of_turn", "srv_response_parked", "srv_parked_responses_flushed",
    "srv_next_called_late", "srv_second_stage_reached",
    # last-request detection by version and by header; connection dropped after the last response
    "srv_closing_by_connection_header", "srv_closing_by_http10_default", "srv_http10_keep_alive_request", "srv_closing_request_answered_late",
    "srv_requests_behind_closing_request", "srv_pipelines_keep_alive",
    # segmentation as the live server sees it, partial writes of large responses
    "srv_cut_inside-method", "srv_cut_between-cr-lf", "srv_cut_inside-body", "srv_cut_request-boundary", "srv_large_response",
    "order_cases",
    # hostile bytes and vanishing clients against the live server
    "live_cases", "live_content_length_value_mutated", "live_client_closed_mid_stream", "live_client_reset_mid_stream",
    "live_handlers_pending_when_client_left", "live_completed_after_server_cleanup", "live_requests_reached_handler", "live_server_dropped_connection",
    "live_cl_2p64_minus_header_length", "live_cl_2p64_window", "live_cl_size_max", "live_cl_2p63_boundary", "live_cl_2p32_boundary",
    "live_cl_boundary_with_bytes_following", "live_cl_boundary_without_body",
]
_RC_FUZZ = ["fuzz_execs", "fuzz_multi_segment_execs", "fuzz_feeds_rejected", "fuzz_feeds_yielding_requests", "fuzz_inputs_with_byte_ge_0x80",
            "fuzz_seeds_with_boundary_content_length"]

PROP = dict(
    harnesses={
        "c12_parser": dict(sources=["harness/c12_parser.cpp"]),
        "c12_server": dict(sources=["harness/c12_server.cpp"]),
        "c12_fuzz": dict(sources=["harness/c12_fuzz.cpp"], ldflags=["-fsanitize=fuzzer"]),
    },
    legs=[
        # one case = one stream of 1..6 requests fed unsegmented, split at EVERY position, byte by byte and at 6 random cut sets
        _leg("segment", "c12_parser", 3000, 200000),
        # bodies up to 70 kB, random cut sets only
        _leg("bigsplit", "c12_parser", 1000, 40000),
        _leg("hostile", "c12_parser", 120000, 3000000),
        _leg("pipeline", "c12_server", 6000, 100000),
        # n = 1..4 requests x completion permutations x inside-callback/late masks x closing position x {spread, same pass}
        _leg("order", "c12_server", 4280, 4280, scalable=False, exhaustive=True),
        _leg("live", "c12_server", 20000, 400000),
        # one case = one libFuzzer session of 200 000 executions over a generated corpus (thorough tier only)
        dict(name="fuzz", harness="c12_fuzz", flavour="fuzz", mode="fuzz", args=["--runs", "200000", "--maxlen", "600"],
             quick=0, thorough=96, case_timeout=900, env=_ENV),
    ],
    rule=("segment/bigsplit: one case = one generated stream of 1-6 (1-4) well-formed HTTP/1.0/1.1 requests, each with a Content-Length header "
          "(all seven methods; targets with percent-escapes in either hex case, ;params, ?query, #fragment, empty values; 0-4 extra headers with "
          "optional blanks around the value, ':' / tab / high bytes inside it; Content-Length with leading zeros, anywhere among the headers; bodies that "
          "are empty, binary, all NUL, contain CRLFCRLF or look like a pipelined request; up to 300 bytes, bigsplit up to 70 kB). The stream is fed to a "
          "RequestParser the way server_imp.cpp feeds it (append segment, parse(readable) on an exactly sized heap copy, drop the bytes it claims, collect on "
          "kFinishedAll, stop on kFail): unsegmented, split in two at every position, byte by byte, and at 6 (12) random cut sets aimed at the landmarks; "
          "every feed must hand out exactly the generator's request sequence (method, path, params, query, fragment, version, header map, body), never "
          "claim more bytes than given, and end in kInit with nothing left. "
          "hostile: one case = random bytes, protocol token soup, hostile header lines, 1-9 kB single tokens, or a valid stream with 1-3 edits (Content-Length "
          "replaced by non-numeric / negative / 2^31 / 2^32 / 2^63 / 2^64 / 26-digit / empty / blank / '+5' / '0x10' / '1e3' text, missing colon, bare CR or LF, NULs, "
          "deleted / duplicated / flipped bytes, truncation, broken escapes, target noise, extra header lines), or (1 case in 11) a request whose Content-Length is a valid "
          "decimal at a boundary of the size type - 2^64-k for k in 0..H+8 with H the length of its own start line + headers (k = H in a third of them), SIZE_MAX, SIZE_MAX-1, "
          "2^63+-1, 2^32+-1, 2^31+-1 - with nothing, a few body bytes, random bytes or another request behind it; fed whole, in 2 segments, in 2-8 segments and "
          "byte by byte: parse() must return, claim no more than it got, never report kFinishedAll out of a call that consumed nothing, and hand out a request only with "
          "exactly as many body bytes as its decimal Content-Length says. "
          "pipeline: a real Server on a loopback port driven pass by pass by the harness thread; 1-8 requests on one connection, 60% with a closing request "
          "(Connection: close or HTTP/1.0 without keep-alive) last or in the middle, sent in 1-8 segments (or byte by byte) with 0-5 loop passes in between; each "
          "handler is scripted: answered by the first or second stage of a middleware chain whose next() is called at once or 1-6 passes later, completed inside "
          "the callback or 1-20 passes later in a scripted order; response bodies 0-20 kB, one in 8 pipelines with a 150-900 kB response through an 8 kB send buffer "
          "and a slow reader. Observed: requests handed to the handlers (compared with the generator's truth), bytes on the client socket (responses carry the "
          "request ordinal; exactly one each, in request order, complete, nothing behind the closing one), EOF/reset after the closing response. "
          "order: the same machinery over the complete product n in 1..4 x permutation x inside/late mask x closing position x spacing. "
          "live: hostile bytes to the live server in random segments, the client leaving (FIN or RST) with handlers pending, handlers completing after the "
          "connection is gone or after Server::cleanup(); one case in 8 carries a boundary Content-Length as above: nothing may escape runLoop() or trip a sanitizer, the "
          "handlers may not be called more often than requests were sent (bound: bytes sent / 16 + 1; the first stage throws a harness exception to get out of a "
          "server that re-delivers for ever), and a delivered request has as many body bytes as its decimal Content-Length. "
          "Non-trivial: stream of at least 2 requests or 60 bytes; pipeline with at least 2 requests, a parked response or a late closing response; hostile input "
          "of at least 4 bytes. distinct = distinct hashes of (stream bytes, cuts, handler script)."),
    assumptions=[
        "well-formed means: METHOD SP target SP HTTP/1.x CRLF, header lines 'Name:' OWS value OWS CRLF with distinct canonical names, a non-empty value and blanks as the "
        "only optional white space, an explicit Content-Length on every request (a body without one takes the rest of the segment by design and is not held to the "
        "segmentation clause); header names in other letter case, empty header values, tabs as optional white space and chunked bodies are not generated",
        "the bytes given to parse() are an exactly sized heap block (an over-read of one byte is an AddressSanitizer report); over-reads inside std::string copies the "
        "parser makes itself are visible only as content differences",
        "loopback TCP inside one thread. A verdict that something never happened (response lost, request not delivered, connection not closed) is given only "
        "after every scripted handler has completed, 40 further passes brought no byte, no request and no completion, and either the client has seen EOF/reset or "
        "the kernel is quiescent on 5 consecutive passes with the server's end still open (SIOCOUTQ and SIOCINQ zero on the client socket and on the server's "
        "end of the connection, found from outside by its address pair): whatever the server wrote has then arrived. While packets are in flight the harness keeps "
        "passing and waiting (up to 3 s); a case that never settles is left unjudged and counted (env_unjudged_kernel_not_quiescent), never reported",
        "requests sent behind a closing request must not be answered; when the client keeps talking after its closing request all responses are kept below 20 kB so "
        "that the kernel's reset-on-close-with-unread-data cannot truncate a response and be mistaken for a server defect",
        "the client never half-closes: it closes only after the verdict; a peer that sends FIN is treated by TcpConnection as gone, which the property leaves open",
        "a small SO_SNDBUF is put on the listening socket from outside (found with getsockname) so that large responses are written in several pieces; "
        "nothing inside the server is touched",
        "handlers are released before Server::cleanup()/destruction except in the live leg, where completion after cleanup() (but before destruction) is exercised "
        "for memory safety only",
    ],
    technique=("runtime monitoring: the real RequestParser and the real http::server::Server (loopback TCP, real event loop driven pass by pass) run on generated "
               "streams, exhaustive split positions, scripted handler completion orders and hostile bytes under ASan+UBSan; requests are compared with the generator's "
               "ground truth, the response byte stream with an ordinal-carrying reference; libFuzzer session in the thorough tier"),
    level_text=("Every generated request stream is parsed unsegmented, at every two-way split, byte by byte and at random cut sets and must give the generator's "
                "request sequence; every scripted pipeline against the live server must deliver each request once and put each response on the wire exactly once in "
                "request order, stop at the closing request and close; hostile bytes, vanishing clients and late completions must not throw, crash or trip "
                "AddressSanitizer/UBSan. The completion-order space for up to 4 pipelined requests is enumerated completely. Held on the cases explored, not a proof."),
    level_note=("trusts the generator's ground truth (independent of the library's tables), the client-side response parser, loopback TCP ordering, gcc ASan/UBSan; "
                "timing is logical (loop passes), never wall-clock"),
    required_counters={"quick": _RC_PARSER + _RC_SERVER, "thorough": _RC_PARSER + _RC_SERVER + _RC_FUZZ},
)
