"""C12 configuration (see lib/props.py for the format)."""

PROP = dict(
    harnesses={"c12_parser": dict(sources=["harness/c12_parser.cpp"]),
               "c12_server": dict(sources=["harness/c12_server.cpp"])},
    legs=[
        dict(name="segment", harness="c12_parser", flavour="asan", mode="segment", quick=3000, thorough=200000),
        dict(name="bigsplit", harness="c12_parser", flavour="asan", mode="bigsplit", quick=300, thorough=8000),
        dict(name="hostile", harness="c12_parser", flavour="asan", mode="hostile", quick=60000, thorough=4000000),
        dict(name="pipeline", harness="c12_server", flavour="asan", mode="pipeline", quick=3000, thorough=100000),
        dict(name="order", harness="c12_server", flavour="asan", mode="order", quick=4280, thorough=4280, scalable=False, exhaustive=True),
        dict(name="live", harness="c12_server", flavour="asan", mode="live", quick=3000, thorough=100000),
    ],
    rule="tbd",
    assumptions=[],
    technique="tbd",
    level_text="tbd",
    level_note="tbd",
    required_counters={"all": []},
)
