"""C09 configuration (format: lib/props.py)."""

_A = ["--watchdog", "120"]
PROP = dict(
    harnesses={"c09_logging": dict(sources=["harness/c09_logging.cpp"])},
    legs=[
        dict(name="tsan", harness="c09_logging", flavour="tsan", mode="mix", quick=240, thorough=8000, concurrent=True, args=_A, case_timeout=300),
        dict(name="asan", harness="c09_logging", flavour="asan", mode="mix", quick=480, thorough=16000, seed_offset=611953, concurrent=True, args=_A, case_timeout=300),
        dict(name="disable-race-tsan", harness="c09_logging", flavour="tsan", mode="disable-race", quick=300, thorough=10000, seed_offset=77, concurrent=True, args=_A, case_timeout=300),
        dict(name="disable-race-asan", harness="c09_logging", flavour="asan", mode="disable-race", quick=600, thorough=20000, seed_offset=611999, concurrent=True, args=_A, case_timeout=300),
    ],
    rule=("each case: 1-8 logging threads x 1-4 bursts x 5-160 calls through LogPrintfFunc in both the printf form (one and two conversions) and "
          "the puts form, levels -1..8, 4 module ids, 4 function/file names, text lengths {0,1,2047,2048,2049,max-1,max,max+1,3*max,~2045,<200}, "
          "maximum length per burst in {64,2048,2049,5000,default 100 KiB}; up to three sinks (recording sink on the public Sink API, "
          "AsyncFileSink with size limit in {1,200,4096,1 MiB} into a fresh directory, AsyncStdoutSink or SyncStdoutSink with fd 1 redirected), "
          "each with its own default/per-module thresholds and enable/disable pattern per burst (changed only at quiescent points), pipe buffers "
          "16..10240 B x 1-3/2-20, flush interval 1..100 ms, seeded delay between the two pipe appends of a record. After the last disable() "
          "the sinks are read back at once and compared per thread, in order, with the calls that were made while the sink was enabled and "
          "pass its filter (level, module, function, file basename, line, text cut to exactly max, truncation mark, timestamp in the call "
          "window); every line of every log file must parse as one whole record, files ordered by timestamp and numeric suffix. Non-trivial = "
          ">= 2 logging threads; distinct = distinct configuration+script hashes. Mode disable-race: 1-5 threads log short records continuously "
          "into one sink (recording or AsyncFileSink) while the main thread calls disable() after a seeded pause; call/return/disable instants are "
          "taken from one atomic counter; every call that had returned before disable() was entered must be in the sink when disable() returns, "
          "no call entered after it returned may be, records per thread are in call order, whole and unique"),
    assumptions=["mode mix: maximum length, sink thresholds and enable/disable change only between bursts (all logging threads parked on a barrier); mode disable-race: disable() runs concurrently with log calls, calls overlapping it may or may not be recorded",
                 "module, function and file names are short static strings (the back end formats them into a 1 KiB buffer)",
                 "text contains no spaces or newlines so a formatted line can be parsed back unambiguously",
                 "levels IMPORTANT and INFO share the letter I in formatted sinks; they are distinguished only in the recording sink"],
    technique="per-thread sequence comparison of what each sink received with the calls made (reference = the harness's own call log), under ThreadSanitizer and ASan with an injected delay inside the two-part pipe append",
    level_text=("Hundreds to thousands of randomized multi-thread logging scenarios against the real front end, AsyncPipe-based sinks and file "
                "roll-over; every record in every sink is matched to exactly one call. Held on the schedules and configurations observed."),
    level_note="trusts the harness's line parser and call log, gcc TSan/ASan; schedules sampled",
    required_counters={"all": ["race_disable_cases_file_sink", "race_disable_cases_recording_sink", "race_disable_calls_returned_before_disable", "race_disable_calls_overlapping_disable", "race_disable_calls_entered_after_disable_returned", "file_fault_windows", "file_fault_windows_with_a_file_already_open", "records_recording_sink", "records_file_sink", "records_async_stdout", "records_sync_stdout", "records_truncated",
                               "records_empty_text", "records_over_2048", "file_rollovers", "calls_rejected_by_filter",
                               "calls_while_sink_disabled", "enable_disable_transitions", "relevel_module_set_again", "relevel_module_unset", "relevel_default", "verif_point_delays"]},
)
