// C15: DNS client - reply parsing is total and bounded; each lookup completes once.
//
// Modes (see lib/props_c15.py):
//   parse     one case = one well-formed reply (checked to be delivered completely) + some hundred hostile datagrams derived
//             from it, each injected into the real DnsRequest (probe subclass exposing onUdpRecv) for a fresh outstanding
//             lookup, from an exactly sized heap block, twice with differently pre-filled stacks; datagrams whose
//             compression pointers form cycles / long chains run in a forked child so stack exhaustion is a datum.
//   memcheck  same workload, the program re-executes itself under valgrind memcheck; verdict = new memcheck errors
//             attributed per datagram through client requests.
//   history   lookups, cancels, replies from 1-3 servers (any order, duplicated, stale, server failures), clock advances
//             under a virtual monotonic clock; callbacks that start lookups / cancel other lookups; lock-step model.
//   udp       the same histories, but datagrams travel over real UDP sockets from fake servers bound to
//             127.0.0.{1,2,3}:53 inside a private network namespace (UdpSocket + fd event path); the servers also send
//             well-formed replies of 4097..9000 bytes whose records straddle / lie behind the client's 4096-byte
//             receive buffer: the client can only have received the first 4096 bytes, and is judged on those.
//   wrap      one long history of more than 65536 lookups on one client (id wrap-around).
#include "common/vh.hpp"
#include "c15_ref.hpp"
#include "c15_gen.hpp"

#include <deque>
#include <memory>
#include <algorithm>
#include <sched.h>
#include <poll.h>
#include <signal.h>
#include <sys/wait.h>
#include <sys/socket.h>
#include <sys/ioctl.h>
#include <net/if.h>
#include <netinet/in.h>
#include <arpa/inet.h>
#include <valgrind/memcheck.h>

#include <tbox/event/loop.h>
#include <tbox/event/verif_hooks.h>
#include <tbox/network/dns_request.h>

using tbox::network::DnsRequest;
using tbox::network::DomainName;
using tbox::network::IPAddress;
using tbox::network::SockAddr;
using c15gen::Bytes;
typedef DnsRequest::Result::Status Status;

namespace {

uint64_t g_now = 5000000;
uint64_t clock_fn() { return g_now; }
tbox::event::Loop *g_loop = nullptr;

void pump(int passes = 1) {
    for (int i = 0; i < passes; ++i) { g_loop->runNext([] {}); g_loop->runLoop(tbox::event::Loop::Mode::kOnce); }
}

struct Probe : public DnsRequest {
    using DnsRequest::DnsRequest;
    using DnsRequest::onUdpRecv;
};

const char *status_name(int s) {
    switch (Status(s)) {
        case Status::kSuccess: return "kSuccess"; case Status::kDomainError: return "kDomainError";
        case Status::kAllDnsFail: return "kAllDnsFail"; case Status::kTimeout: return "kTimeout"; case Status::kFail: return "kFail";
    }
    return "status?";
}

//--------------------------------------------------------------------------------------------------------------
// socket call interposition (-Wl,--wrap): queries never leave the process in the probe modes; in udp mode the
// datagram the client actually consumed is shown to the model before the client sees it.
bool g_real_net = false;
uint64_t g_queries_sent = 0;
uint64_t g_recv_longer_than_buffer = 0;
Bytes g_last_query;
std::function<void(const uint8_t *, size_t, const struct sockaddr_in &)> g_on_client_recv;
std::set<int> g_server_fds;

}  // namespace

extern "C" ssize_t __real_sendto(int, const void *, size_t, int, const struct sockaddr *, socklen_t);
extern "C" ssize_t __real_recvfrom(int, void *, size_t, int, struct sockaddr *, socklen_t *);
extern "C" ssize_t __wrap_sendto(int fd, const void *buf, size_t len, int flags, const struct sockaddr *to, socklen_t tolen) {
    ++g_queries_sent;
    g_last_query.assign(static_cast<const uint8_t *>(buf), static_cast<const uint8_t *>(buf) + len);
    if (!g_real_net) return ssize_t(len);
    return __real_sendto(fd, buf, len, flags, to, tolen);
}
extern "C" ssize_t __wrap_recvfrom(int fd, void *buf, size_t len, int flags, struct sockaddr *from, socklen_t *fromlen) {
    ssize_t n = __real_recvfrom(fd, buf, len, flags, from, fromlen);
    if (n >= 0 && g_on_client_recv && !g_server_fds.count(fd) && from && fromlen && *fromlen >= sizeof(struct sockaddr_in)) {
        struct sockaddr_in sin;
        memcpy(&sin, from, sizeof sin);
        // the model is shown what the caller's buffer can really hold: with MSG_TRUNC-style flags the return value may exceed it
        size_t held = size_t(n) < len ? size_t(n) : len;
        if (size_t(n) > len) ++g_recv_longer_than_buffer;
        g_on_client_recv(static_cast<const uint8_t *>(buf), held, sin);
    }
    return n;
}

namespace {

//--------------------------------------------------------------------------------------------------------------
// model
enum LkState { OUT, DONE, CANCELLED };
enum React { R_NONE, R_NEW_LOOKUP, R_CANCEL_OTHER };

struct Lk {
    int uid; uint16_t id; uint64_t t_req; int st; unsigned fail_cnt; unsigned maybe_fail; std::set<int> fail_srv; int ncb; std::string domain;
    int react; bool timed_out;
};

struct Ev { int uid; int status; std::vector<c15ref::RepA> a; std::vector<c15ref::RepC> c; };

enum ExpKind { X_NOCB, X_MUST, X_MAY, X_MAY_EXACT, X_MAY_ERR, X_MAY_ALLFAIL };
struct Exp {
    ExpKind k = X_NOCB; int uid = -1; int status = 0; std::string why; bool counts_fail = false; int srv = 0;
    c15ref::Info info;
};

enum Step { S_NONE, S_DGRAM, S_TICK, S_API };

std::string hexs(const Bytes &b) { return vh::hex(b.data(), b.size()); }

std::string show_ev(const Ev &e) {
    std::string s = vh::fmt("L%d %s A[%zu]", e.uid, status_name(e.status), e.a.size());
    for (size_t i = 0; i < e.a.size() && i < 6; ++i) s += vh::fmt(" %u.%u.%u.%u/ttl=%u", e.a[i].ip[0], e.a[i].ip[1], e.a[i].ip[2], e.a[i].ip[3], e.a[i].ttl);
    s += vh::fmt(" CNAME[%zu]", e.c.size());
    for (size_t i = 0; i < e.c.size() && i < 6; ++i) s += " " + vh::jstr(e.c[i].name) + vh::fmt("/ttl=%u", e.c[i].ttl);
    return s;
}

struct Ctx {
    std::unique_ptr<Probe> dns;
    int nsrv = 1;
    std::deque<Lk> lk;
    std::map<uint16_t, int> by_id;
    Step step = S_NONE;
    std::vector<Ev> evs;
    uint64_t last_advance = 0;
    vh::Rng *rng = nullptr;
    bool in_child = false;
    int depth_cb = 0;
    int last_named_uid = -1;    //! lookup the most recently delivered datagram names (-1: none)
    std::string &desc() { return vh::st().case_desc; }

    void open(int n) {
        nsrv = n;
        DnsRequest::IPAddressVec v;
        for (int i = 0; i < n; ++i) v.push_back(IPAddress::FromString(vh::fmt("127.0.0.%d", i + 1)));
        dns.reset(new Probe(g_loop, v));
        desc() += vh::fmt("servers=%d; ", n);
    }
    void close() { dns.reset(); pump(2); }

    std::vector<int> outstanding() const { std::vector<int> v; for (auto &kv : by_id) v.push_back(kv.second); std::sort(v.begin(), v.end()); return v; }

    int request(const std::string &domain, int react = R_NONE) {
        int uid = int(lk.size());
        lk.push_back(Lk{uid, 0, g_now, OUT, 0, 0, {}, 0, domain, react, false});
        Step saved = step;
        if (depth_cb == 0) step = S_API;
        Ctx *self = this;
        uint16_t id = dns->request(DomainName(domain), [self, uid](const DnsRequest::Result &r) { self->on_cb(uid, r); });
        step = saved;
        lk[uid].id = id;
        vh::counter("lookups");
        if (id == 0) vh::counter("request_returned_id_zero");
        auto it = by_id.find(id);
        if (it != by_id.end()) {
            vh::viol("once/request/id-of-outstanding-lookup-reused",
                     vh::fmt("request() returned id %u which still belongs to outstanding lookup L%d: that lookup can no longer complete", id, it->second));
            lk[it->second].st = CANCELLED;
        }
        by_id[id] = uid;
        desc() += vh::fmt("L%d=req(%s)->id %u%s; ", uid, domain.c_str(), id, react == R_NEW_LOOKUP ? " [cb:new-lookup]" : react == R_CANCEL_OTHER ? " [cb:cancel-other]" : "");
        return uid;
    }

    void cancel_id(uint16_t id, const char *what) {
        auto it = by_id.find(id);
        bool expect = it != by_id.end();
        Step saved = step;
        if (depth_cb == 0) step = S_API;
        bool got = dns->cancel(id);
        step = saved;
        desc() += vh::fmt("cancel(%u)[%s]=%d; ", id, what, got);
        vh::counter(expect ? "cancel_outstanding" : "cancel_not_outstanding");
        if (got != expect)
            vh::viol("once/cancel/return-value", vh::fmt("cancel(%u) returned %d, the lookup %s outstanding", id, got, expect ? "is" : "is not"));
        if (expect) { lk[it->second].st = CANCELLED; by_id.erase(it); }
    }

    void check_running(uint16_t id) {
        bool expect = by_id.count(id) != 0;
        bool got = dns->isRunning(id);
        vh::counter("isrunning_checks");
        if (got != expect) vh::viol("once/isRunning/mismatch", vh::fmt("isRunning(%u)=%d, model says %d", id, got, expect));
    }

    void on_cb(int uid, const DnsRequest::Result &r) {
        ++depth_cb;
        Lk &L = lk[uid];
        ++L.ncb;
        vh::counter("callbacks");
        Ev e;
        e.uid = uid;
        e.status = int(r.status);
        for (auto &a : r.a_vec) { c15ref::RepA x; x.ttl = a.ttl; uint32_t v = uint32_t(a.ip); memcpy(x.ip, &v, 4); e.a.push_back(x); }
        for (auto &c : r.cname_vec) { c15ref::RepC x; x.ttl = c.ttl; x.name = c.cname.toString(); e.c.push_back(x); }
        desc() += "<cb " + show_ev(e).substr(0, 200) + "> ";
        if (L.st == CANCELLED) vh::viol("once/callback/after-cancel", vh::fmt("lookup L%d (id %u) was cancelled and its callback ran: %s", uid, L.id, show_ev(e).c_str()));
        else if (L.st == DONE) vh::viol("once/callback/twice", vh::fmt("callback of lookup L%d (id %u) ran a second time: %s", uid, L.id, show_ev(e).c_str()));
        if (step == S_NONE || step == S_API)
            vh::viol("once/callback/outside-delivery-and-tick", vh::fmt("callback of L%d ran while no datagram was being delivered and no time passed", uid));
        if (step == S_TICK) {
            vh::counter("timeout_callbacks");
            uint64_t age = g_now - L.t_req;
            if (r.status != Status::kTimeout)
                vh::viol("once/timeout/status", vh::fmt("callback of L%d during a clock advance carries %s", uid, status_name(e.status)));
            else {
                if (age < 4000) vh::viol("once/timeout/early", vh::fmt("L%d timed out %llu ms after request(); five one-second ticks cannot take less than 4000 ms", uid, (unsigned long long)age));
                if (age < 4100) vh::counter("timeout_at_4000ms_edge");
                if (age >= 5000) vh::counter("timeout_at_5000ms_edge");
                L.timed_out = true;
            }
            if (!e.a.empty() || !e.c.empty()) vh::viol("once/timeout/result-carries-records", show_ev(e));
        }
        evs.push_back(e);
        if (L.st == OUT) {
            L.st = DONE;
            auto it = by_id.find(L.id);
            if (it != by_id.end() && it->second == uid) by_id.erase(it);
        }
        if (!in_child) {
            if (L.react == R_NEW_LOOKUP) {
                vh::counter("reentrant_request_in_callback");
                request(c15gen::rand_domain(*rng), R_NONE);
            } else if (L.react == R_CANCEL_OTHER) {
                std::vector<int> o = outstanding();
                o.erase(std::remove(o.begin(), o.end(), uid), o.end());
                if (!o.empty()) { vh::counter("reentrant_cancel_other_in_callback"); cancel_id(lk[o[rng->below(o.size())]].id, "in-callback"); }
            }
        }
        --depth_cb;
    }

    //! what the property allows for this datagram, decided before the client sees it
    Exp preview(const uint8_t *p, size_t n, int srv) {
        Exp x;
        x.srv = srv;
        x.info = c15ref::classify(p, n);
        const c15ref::Info &I = x.info;
        if (!I.has_flags) { x.k = X_NOCB; x.why = "datagram-without-id-and-flags"; return x; }
        auto it = by_id.find(I.id);
        if (it == by_id.end()) { x.k = X_NOCB; x.why = "no-outstanding-lookup-has-this-id"; return x; }
        x.uid = it->second;
        if ((I.flags & 0x8000) == 0) { x.k = X_NOCB; x.why = "query-not-reply"; x.uid = -1; return x; }
        unsigned rcode = I.flags & 15;
        Lk &L = lk[x.uid];
        if (rcode == 0) {
            if (I.strict) { x.k = X_MUST; x.status = int(Status::kSuccess); x.why = "well-formed-reply"; }
            // the whole message parses under RDLENGTH framing but has an unusual feature (slack behind a CNAME's name, odd label
            // bytes, ...): a client may refuse it, but one that answers kSuccess from it must report exactly its records
            else if (I.framed) { x.k = X_MAY_EXACT; x.status = int(Status::kSuccess); x.why = I.why; }
            else { x.k = X_MAY; x.why = I.why; }
            return x;
        }
        int st = rcode == 3 ? int(Status::kDomainError) : rcode == 1 ? int(Status::kFail) : int(Status::kAllDnsFail);
        x.status = st;
        if (!I.has_header || (I.flags & 0x7800)) { x.k = X_MAY_ERR; x.why = I.has_header ? "error-reply-opcode-nonzero" : "error-reply-short-header"; return x; }
        if (rcode == 3 || rcode == 1) { x.k = X_MUST; x.why = rcode == 3 ? "name-error-reply" : "format-error-reply"; return x; }
        x.counts_fail = true;
        unsigned cnt = L.fail_cnt + 1;
        std::set<int> d = L.fail_srv; d.insert(srv);
        // maybe_fail: malformed failure replies (short header, opcode != 0) that produced no callback; a client may have counted them
        if (cnt + L.maybe_fail < unsigned(nsrv)) { x.k = X_NOCB; x.why = "server-failure-while-other-servers-pending"; }
        else if (cnt < unsigned(nsrv)) { x.k = X_MAY_ALLFAIL; x.why = "server-failure-after-malformed-failure-replies"; }
        else if (d.size() >= size_t(nsrv)) { x.k = X_MUST; x.why = "server-failure-from-every-server"; }
        else { x.k = X_MAY_ALLFAIL; x.why = "server-failure-repeated-by-one-server"; }
        return x;
    }

    //! compare what happened with what was allowed; returns a short outcome string (for the differential comparison)
    std::string commit(const Exp &x, const Bytes &dg, const std::vector<Ev> &got) {
        std::string out;
        auto ctx = [&]() { return vh::fmt(" | datagram(%zu bytes, %s)=%s", dg.size(), x.why.c_str(), hexs(dg).substr(0, 1400).c_str()); };
        vh::counter("dgram_" + x.why);
        size_t mine = 0;
        for (auto &e : got) {
            out += vh::fmt("%s A[%zu]", status_name(e.status), e.a.size());
            for (auto &a : e.a) out += vh::fmt(" %02x%02x%02x%02x/%u", a.ip[0], a.ip[1], a.ip[2], a.ip[3], a.ttl);
            out += vh::fmt(" CNAME[%zu]", e.c.size());
            for (auto &cn : e.c) out += vh::fmt(" len%zu/%u", cn.name.size(), cn.ttl);
            out += ";";
            if (e.uid != x.uid) {
                if (x.k == X_NOCB)
                    vh::viol("ignore/callback-on-" + x.why, show_ev(e) + ctx());
                else
                    vh::viol("once/callback/for-a-lookup-the-datagram-does-not-name", show_ev(e) + vh::fmt(" (datagram id %u names L%d)", x.info.id, x.uid) + ctx());
                continue;
            }
            ++mine;
            // reported must be readable out of this datagram, whatever else holds
            c15ref::Matcher m(dg.data(), dg.size(), e.a, e.c);
            bool ok = m.run();
            if (m.capped) vh::counter("ref_matcher_capped");
            if (!ok) {
                std::vector<c15ref::RepA> na; std::vector<c15ref::RepC> nc;
                c15ref::Matcher ma(dg.data(), dg.size(), e.a, nc), mc(dg.data(), dg.size(), na, e.c);
                bool a_ok = ma.run(), c_ok = mc.run();
                if (!a_ok) vh::viol("parser/reported-not-encoded/address", show_ev(e) + ctx());
                if (!c_ok) vh::viol(mc.nul_cut_would_match ? "parser/reported-not-encoded/name-cut-at-nul" : "parser/reported-not-encoded/name", show_ev(e) + ctx());
                if (a_ok && c_ok) vh::viol("parser/reported-not-encoded/records-of-no-single-reading", show_ev(e) + ctx());
            } else if (!e.a.empty() || !e.c.empty()) vh::counter("reported_records_checked_against_reference", e.a.size() + e.c.size());
        }
        const Ev *ev = nullptr;
        for (auto &e : got) if (e.uid == x.uid) { ev = &e; break; }
        if (mine > 1) { /* already reported as once/callback/twice */ }
        switch (x.k) {
            case X_NOCB:
                // fewer failure replies than servers, counting every datagram a client could have counted: the lookup has to go on waiting
                if (ev && x.counts_fail) vh::viol("ignore/callback-on-" + x.why, show_ev(*ev) + vh::fmt(" (failure replies so far %u of %d servers)", lk[x.uid].fail_cnt + 1, nsrv) + ctx());
                break;
            case X_MUST:
                if (!ev) {
                    vh::viol(x.status == int(Status::kSuccess) ? "once/reply/well-formed-reply-not-delivered" : "once/reply/error-reply-not-delivered",
                             vh::fmt("no callback for L%d; expected %s", x.uid, status_name(x.status)) + ctx());
                    break;
                }
                if (ev->status != x.status) { vh::viol("once/reply/status", vh::fmt("got %s, expected %s (%s)", status_name(ev->status), status_name(x.status), x.why.c_str()) + ctx()); break; }
                if (x.status == int(Status::kSuccess)) {
                    const c15ref::Info &I = x.info;
                    bool same = ev->a.size() == I.a.size() && ev->c.size() == I.c.size();
                    for (size_t i = 0; same && i < I.a.size(); ++i) same = ev->a[i].ttl == I.a[i].ttl && memcmp(ev->a[i].ip, I.a[i].ip, 4) == 0;
                    for (size_t i = 0; same && i < I.c.size(); ++i) same = ev->c[i].ttl == I.c[i].ttl && c15ref::norm_name(ev->c[i].name) == c15ref::norm_name(I.c[i].name);
                    if (!same) vh::viol("once/reply/content-differs-from-well-formed-reply", show_ev(*ev) + vh::fmt(" expected A[%zu] CNAME[%zu]", I.a.size(), I.c.size()) + ctx());
                    vh::counter("strict_replies_delivered");
                    if (I.uses_compression) vh::counter("strict_replies_with_compression");
                    if (!I.c.empty()) vh::counter("strict_replies_with_cname");
                    if (I.n_other) vh::counter("strict_replies_with_other_types");
                    if (I.a.empty() && I.c.empty()) vh::counter("strict_replies_without_a_or_cname");
                    vh::counter_max("max_pointer_jumps_in_strict_reply", I.max_jumps);
                } else vh::counter(std::string("error_replies_delivered_") + status_name(x.status));
                break;
            case X_MAY_EXACT:
                if (ev && ev->status == int(Status::kSuccess)) {
                    const c15ref::Info &I = x.info;
                    bool same = ev->a.size() == I.a.size() && ev->c.size() == I.c.size();
                    for (size_t i = 0; same && i < I.a.size(); ++i) same = ev->a[i].ttl == I.a[i].ttl && memcmp(ev->a[i].ip, I.a[i].ip, 4) == 0;
                    for (size_t i = 0; same && i < I.c.size(); ++i) same = ev->c[i].ttl == I.c[i].ttl && c15ref::norm_name(ev->c[i].name) == c15ref::norm_name(I.c[i].name);
                    if (!same) vh::viol("once/reply/content-differs-from-rdlength-framed-reply",
                                        show_ev(*ev) + vh::fmt(" expected A[%zu] CNAME[%zu]", I.a.size(), I.c.size()) + ctx());
                    vh::counter("framed_unusual_replies_delivered_exactly");
                    if (I.n_slack_cname) vh::counter("slack_cname_replies_delivered_exactly");
                }
                // fall through
            case X_MAY:
                if (ev) {
                    vh::counter("malformed_reply_completed_lookup");
                    if (ev->status != int(Status::kSuccess) && ev->status != int(Status::kFail))
                        vh::viol("once/reply/status", vh::fmt("malformed rcode-0 reply produced %s", status_name(ev->status)) + ctx());
                } else vh::counter("malformed_reply_ignored");
                break;
            case X_MAY_ERR:
            case X_MAY_ALLFAIL:
                if (ev && ev->status != x.status && !(x.k == X_MAY_ERR && ev->status == int(Status::kFail)))
                    vh::viol("once/reply/status", vh::fmt("got %s, allowed %s (%s)", status_name(ev->status), status_name(x.status), x.why.c_str()) + ctx());
                if (x.k == X_MAY_ALLFAIL) vh::counter(ev ? "dup_servfail_completed_lookup" : "dup_servfail_waited");
                break;
        }
        if (x.k == X_MAY_ERR && x.status == int(Status::kAllDnsFail) && x.uid >= 0 && !ev) lk[x.uid].maybe_fail++;
        if (x.counts_fail && x.uid >= 0 && !ev) { lk[x.uid].fail_cnt++; lk[x.uid].fail_srv.insert(x.srv); }
        if (x.k == X_NOCB && x.counts_fail) vh::counter("servfail_waits_for_other_servers");
        return out;
    }

    //! probe delivery: exactly sized heap copy straight into onUdpRecv
    std::string deliver(const Bytes &dg, int srv, const char *tag) {
        Exp x = preview(dg.data(), dg.size(), srv);
        last_named_uid = x.uid;
        desc() += vh::fmt("dg[%s,srv%d,len=%zu,id=%u,%s]; ", tag, srv, dg.size(), x.info.id, x.why.c_str());
        std::unique_ptr<uint8_t[]> buf(new uint8_t[dg.size()]);
        if (!dg.empty()) memcpy(buf.get(), dg.data(), dg.size());
        SockAddr from(IPAddress::FromString(vh::fmt("127.0.0.%d", srv + 1)), 53);
        evs.clear();
        step = S_DGRAM;
        dns->onUdpRecv(buf.get(), dg.size(), from);
        step = S_NONE;
        vh::counter("datagrams_injected");
        std::vector<Ev> got;
        got.swap(evs);
        return commit(x, dg, got);
    }

    void tick(uint64_t ms) {
        g_now += ms;
        last_advance = ms;
        desc() += vh::fmt("+%llums; ", (unsigned long long)ms);
        evs.clear();
        step = S_TICK;
        pump(2);
        step = S_NONE;
        vh::counter("clock_advances");
        for (auto &kv : by_id) {
            Lk &L = lk[kv.second];
            if (g_now - L.t_req >= 5000) {
                vh::viol("once/timeout/missing", vh::fmt("L%d (id %u) is %llu ms old, unanswered, and got no timeout callback", L.uid, L.id, (unsigned long long)(g_now - L.t_req)));
                L.st = CANCELLED;   // report once
            }
        }
        for (auto it = by_id.begin(); it != by_id.end();) { if (lk[it->second].st != OUT) it = by_id.erase(it); else ++it; }
        evs.clear();
    }

    //! end of a history: everything outstanding must time out; then nothing may be left
    void finish_history() {
        for (int i = 0; i < 7 && !by_id.empty(); ++i) tick(1000);
        for (auto &L : lk) {
            if (L.st == CANCELLED && L.ncb == 0) vh::counter("cancelled_lookups_never_called");
            if (L.st == DONE && L.ncb == 1) vh::counter("lookups_completed_exactly_once");
            if (L.timed_out) vh::counter("lookups_timed_out");
            if (L.st == OUT) vh::viol("once/lookup/never-completed", vh::fmt("L%d (id %u) neither completed nor timed out", L.uid, L.id));
        }
    }
};

}  // namespace

#include "c15_modes.hpp"
