// C14, thorough tier only (VERIF_C14_FUZZ=0 leaves it out, see lib/props_c14.py): coverage-guided exploration (libFuzzer + ASan + UBSan)
// of the three framings' decoders.
//
// No reference here, only what must hold for every byte string: no exception, return value <= size, and for the
// two stream framings the decode of the input cut in two at a fuzzer-chosen position (and byte by byte for short
// inputs) equals the unsegmented decode (callback sequence and final state), through the documented driver loop
// with exactly sized heap copies.
//
// Input layout: byte 0 = framing (mod 3), byte 1 = cut selector, bytes 2.. = the stream. HeaderStream uses the
// magic 0x7B22 ('{"'), so texts the fuzzer grows for the other two framings are header candidates as well.
//
// Framing of the runner protocol: one *case* is one bounded libFuzzer session (`-seed=f(S,i) -runs=R`, empty corpus)
// in a forked child, so case i is reproducible alone (`--first i --count 1`). Same scheme as harness/c19_fuzz.cpp.
#include "c14_common.hpp"

#include <sys/mman.h>
#include <sys/wait.h>
#include <sys/stat.h>
#include <signal.h>

using namespace c14;

namespace {

struct Shared {
    uint64_t execs[3];
    uint64_t decoded_messages[3];
    uint64_t negative_returns[3];
    uint64_t waiting[3];
    uint64_t segment_checks;
};
Shared *g_sh = nullptr;

const uint16_t kMagic = 0x7B22;

void fatal(const char *what) { fprintf(stderr, "VH-FATAL: %s\n", what); abort(); }

struct Res { std::vector<Event> ev; bool closed; std::string left; };

Res run(int kind, const std::string &s, const std::vector<size_t> &cuts) {
    std::unique_ptr<Proto> p = make_proto(kind, kMagic);
    Recorder rec; rec.attach(*p);
    Driver d(*p, kind);
    size_t at = 0;
    for (size_t c : cuts) { if (c <= at || c >= s.size()) continue; d.feed(s.data() + at, c - at); at = c; }
    d.feed(s.data() + at, s.size() - at);
    Res r; r.ev = std::move(rec.ev); r.closed = d.closed; r.left = d.buf;
    return r;
}

}  // namespace

extern "C" int LLVMFuzzerTestOneInput(const uint8_t *data, size_t size) {
    if (size < 2 || !g_sh) return 0;
    int kind = data[0] % 3;
    unsigned sel = data[1];
    std::string body((const char *)data + 2, size - 2);
    ++g_sh->execs[kind];
    vh::st().case_desc = vh::fmt("fuzz framing=%s sel=%u input=%s", pk_name(kind), sel, vh::hex(body).substr(0, 800).c_str());
    if (kind == PK_PACKET) {
        std::unique_ptr<Proto> p = make_proto(kind, kMagic);
        Recorder rec; rec.attach(*p);
        CallStat cs;
        ssize_t ret = call_recv(*p, kind, body.data(), body.size(), cs);
        g_sh->decoded_messages[kind] += rec.ev.size();
        if (ret < 0) ++g_sh->negative_returns[kind];
        if (ret == 0 && rec.ev.size()) vh::viol("fuzz/packet/callback-but-nothing-consumed", vh::fmt("%zu callbacks, return 0", rec.ev.size()));
        return 0;
    }
    std::vector<size_t> none;
    Res whole = run(kind, body, none);
    g_sh->decoded_messages[kind] += whole.ev.size();
    if (whole.closed) ++g_sh->negative_returns[kind]; else if (!whole.left.empty()) ++g_sh->waiting[kind];
    std::vector<std::vector<size_t>> cutsets;
    if (!body.empty()) cutsets.push_back(std::vector<size_t>(1, 1 + sel % body.size()));
    if (body.size() <= 48) { std::vector<size_t> c; for (size_t i = 1; i < body.size(); ++i) c.push_back(i); cutsets.push_back(c); }
    for (const std::vector<size_t> &c : cutsets) {
        Res seg = run(kind, body, c);
        ++g_sh->segment_checks;
        if (first_diff(seg.ev, whole.ev) >= 0)
            vh::viol(std::string("fuzz/") + pk_name(kind) + "/segmented-sequence-differs", vh::fmt("%zu cuts (first at %zu): %s", c.size(), c.empty() ? 0 : c[0], diff_text(seg.ev, whole.ev).c_str()));
        else if (seg.closed != whole.closed || (!whole.closed && seg.left != whole.left))
            vh::viol(std::string("fuzz/") + pk_name(kind) + "/segmented-final-state-differs",
                     vh::fmt("%zu cuts (first at %zu): whole closed=%d left=%zu, segmented closed=%d left=%zu", c.size(), c.empty() ? 0 : c[0], whole.closed, whole.left.size(), seg.closed, seg.left.size()));
    }
    fflush(stdout);     // violations are JSON lines on stdout (at most 3 per key per session); the session goes on
    return 0;
}

extern "C" int LLVMFuzzerInitialize(int *argc, char ***argv) {
    vh::parse_args(*argc, *argv);
    vh::Args &a = vh::st().args;
    const long runs = a.num("runs", 100000);
    g_sh = (Shared *)mmap(nullptr, sizeof(Shared), PROT_READ | PROT_WRITE, MAP_SHARED | MAP_ANONYMOUS, -1, 0);
    if (g_sh == MAP_FAILED) fatal("mmap");
    memset(g_sh, 0, sizeof *g_sh);
    for (uint64_t i = a.first; i < a.first + a.count; ++i) {
        vh::begin_case(i);
        fflush(stdout); fflush(stderr);
        pid_t pid = fork();
        if (pid < 0) fatal("fork");
        if (pid == 0) {
            static std::vector<std::string> args;
            args.push_back((*argv)[0]);
            args.push_back("-seed=" + std::to_string((vh::mix(a.seed, i) & 0x7ffffffe) + 1));
            args.push_back("-runs=" + std::to_string(runs));
            args.push_back("-max_len=" + std::to_string(a.num("maxlen", 256)));
            args.push_back("-verbosity=0");
            args.push_back("-print_final_stats=0");
            args.push_back("-detect_leaks=0");
            args.push_back("-timeout=60");
            args.push_back("-artifact_prefix=" + (a.out.empty() ? std::string("/dev/null") : a.out + "/fuzz-case" + std::to_string(i) + "-"));
            // seed corpus: a few well-formed frames per framing, so that mutation starts from decodable streams
            if (!a.out.empty()) {
                std::string dir = a.out + "/fuzz-corpus" + std::to_string(i);
                mkdir(dir.c_str(), 0755);
                static const char *texts[] = {
                    "{\"jsonrpc\":\"2.0\",\"method\":\"m\",\"id\":1,\"params\":[1,\"a}\\\"]\"]}",
                    "{\"jsonrpc\":\"2.0\",\"id\":2,\"result\":{\"k\":\"\\\\\"}}",
                    "{\"jsonrpc\":\"2.0\",\"id\":3,\"error\":{\"code\":-32601,\"message\":\"x\"}}",
                    "[{\"jsonrpc\":\"2.0\",\"method\":\"n\"},{\"jsonrpc\":\"2.0\",\"id\":4,\"result\":null}]",
                };
                int n = 0;
                for (int k = 0; k < 3; ++k) {
                    std::string two;
                    for (const char *t : texts) {
                        std::string f = frame_text(k, kMagic, t);
                        std::string unit; unit += (char)k; unit += (char)(7 * n); unit += f;
                        FILE *fp = fopen((dir + "/seed" + std::to_string(n++)).c_str(), "wb");
                        if (fp) { fwrite(unit.data(), 1, unit.size(), fp); fclose(fp); }
                        if (two.size() < 200) two += f;
                    }
                    if (k != PK_PACKET) {
                        std::string unit; unit += (char)k; unit += (char)33; unit += two;
                        FILE *fp = fopen((dir + "/seed" + std::to_string(n++)).c_str(), "wb");
                        if (fp) { fwrite(unit.data(), 1, unit.size(), fp); fclose(fp); }
                    }
                }
                args.push_back(dir);
            }
            static std::vector<char *> av;
            for (auto &s : args) av.push_back(&s[0]);
            av.push_back(nullptr);
            *argc = (int)args.size();
            *argv = av.data();
            return 0;
        }
        int st = 0;
        while (waitpid(pid, &st, 0) < 0 && errno == EINTR) {}
        if (!(WIFEXITED(st) && WEXITSTATUS(st) == 0)) {
            fflush(stdout);
            if (WIFSIGNALED(st)) { signal(WTERMSIG(st), SIG_DFL); kill(getpid(), WTERMSIG(st)); }
            _exit(WIFEXITED(st) ? WEXITSTATUS(st) : 70);
        }
        vh::note_case(vh::mix(a.seed, i), true);
        vh::end_case();
    }
    uint64_t total = 0;
    for (int k = 0; k < 3; ++k) {
        vh::counter(std::string("fuzz_execs_") + pk_name(k), g_sh->execs[k]);
        vh::counter(std::string("fuzz_decoded_messages_") + pk_name(k), g_sh->decoded_messages[k]);
        vh::counter(std::string("fuzz_negative_returns_") + pk_name(k), g_sh->negative_returns[k]);
        vh::counter(std::string("fuzz_left_waiting_") + pk_name(k), g_sh->waiting[k]);
        total += g_sh->execs[k];
    }
    vh::counter("fuzz_execs", total);
    vh::counter("fuzz_segment_checks", g_sh->segment_checks);
    vh::counter("fuzz_sessions", vh::st().cases);
    vh::finish();
    fflush(stdout);
    _exit(0);
}
