// C06 support: position-coded streams, the raw peer, kernel-object helpers.
#ifndef VERIF_C06_SUPPORT_HPP
#define VERIF_C06_SUPPORT_HPP

#include "common/vh.hpp"

#include <sys/types.h>
#include <sys/socket.h>
#include <sys/un.h>
#include <sys/ioctl.h>
#include <sys/stat.h>
#include <netinet/in.h>
#include <netinet/tcp.h>
#include <arpa/inet.h>
#include <linux/sockios.h>
#include <poll.h>
#include <signal.h>
#include <errno.h>

namespace c06 {

enum Transport { kUnix = 0, kPipe = 1, kTcp = 2 };
inline const char *trname(Transport t) { return t == kUnix ? "unix" : t == kPipe ? "pipe" : "tcp"; }

//! one direction of a connection
struct Dir {
    uint32_t id = 0;
    uint64_t accepted = 0;      //! bytes handed to the sender (tbox: send() returned true; raw: written into the kernel)
    uint64_t verified = 0;      //! bytes seen and checked at the receiver (raw: read; tbox: highest offset presented)
};

inline uint8_t fbyte(uint32_t sid, uint64_t i) {
    uint32_t x = (uint32_t)(i ^ (i >> 29)) * 2654435761u + sid * 0x85EBCA6Bu;
    x ^= x >> 15;
    return (uint8_t)(x ^ (x >> 8) ^ (x >> 20));
}
inline void ffill(uint32_t sid, uint64_t off, uint8_t *p, size_t n) { for (size_t k = 0; k < n; ++k) p[k] = fbyte(sid, off + k); }
//! index of the first byte of p[0,n) that is not f(sid, off+k), or -1
inline long fdiff(uint32_t sid, uint64_t off, const uint8_t *p, size_t n) {
    for (size_t k = 0; k < n; ++k) if (p[k] != fbyte(sid, off + k)) return (long)k;
    return -1;
}
//! for a witness: which stream offset do the bytes at p look like?
inline std::string explain(uint32_t sid, uint64_t expected_off, const uint8_t *p, size_t n) {
    size_t w = n < 12 ? n : 12;
    if (w < 4) return vh::fmt("got %s", vh::hex(p, w).c_str());
    uint64_t lo = expected_off > (1u << 21) ? expected_off - (1u << 21) : 0, hi = expected_off + (1u << 21);
    for (uint64_t j = lo; j < hi; ++j) {
        if (fbyte(sid, j) != p[0]) continue;
        size_t k = 1;
        while (k < w && fbyte(sid, j + k) == p[k]) ++k;
        if (k == w)
            return vh::fmt("the bytes found there are those of stream offset %llu (%s by %lld)", (unsigned long long)j,
                           j < expected_off ? "duplicated/replayed, behind" : "skipped ahead", (long long)(j > expected_off ? j - expected_off : expected_off - j));
    }
    return vh::fmt("got %s, matches no nearby offset of this stream", vh::hex(p, w).c_str());
}

inline int lowest_free_fd() {
    int fd = ::open("/dev/null", O_RDONLY | O_CLOEXEC);
    if (fd >= 0) ::close(fd);
    return fd;
}
inline int second_lowest_free_fd() {
    int a = ::open("/dev/null", O_RDONLY | O_CLOEXEC);
    int b = ::open("/dev/null", O_RDONLY | O_CLOEXEC);
    if (a >= 0) ::close(a);
    if (b >= 0) ::close(b);
    return b;
}
inline long inq(int fd) { int v = 0; if (fd < 0 || ::ioctl(fd, FIONREAD, &v) != 0) return -1; return v; }
inline long outq(int fd) { int v = 0; if (fd < 0 || ::ioctl(fd, SIOCOUTQ, &v) != 0) return -1; return v; }
//! 1 readable (data, EOF or error pending), 0 not, -1 unknown
inline int poll_in(int fd) {
    if (fd < 0) return -1;
    struct pollfd p; p.fd = fd; p.events = POLLIN; p.revents = 0;
    int r = ::poll(&p, 1, 0);
    if (r < 0) return -1;
    if (p.revents & POLLNVAL) return -1;
    return (p.revents & (POLLIN | POLLHUP | POLLERR)) ? 1 : 0;
}
inline bool is_socket(int fd) { struct stat st; return fd >= 0 && ::fstat(fd, &st) == 0 && S_ISSOCK(st.st_mode); }
inline void set_nonblock(int fd) { int f = ::fcntl(fd, F_GETFL, 0); ::fcntl(fd, F_SETFL, f | O_NONBLOCK); }
//! 0 leaves the default, 1 asks for the kernel minimum
inline void set_bufs(int fd, int snd, int rcv) {
    if (snd > 0) ::setsockopt(fd, SOL_SOCKET, SO_SNDBUF, &snd, sizeof snd);
    if (rcv > 0) ::setsockopt(fd, SOL_SOCKET, SO_RCVBUF, &rcv, sizeof rcv);
}

//! small segments and no Nagle delay: with the 64 KiB loopback MSS, small socket buffers would make every window update
//! wait for the persist timer (wall-clock stalls that have nothing to do with the code under test)
inline void tcp_tune(int fd, bool mss) {
    int one = 1, seg = 1200;
    if (mss) ::setsockopt(fd, IPPROTO_TCP, TCP_MAXSEG, &seg, sizeof seg);
    ::setsockopt(fd, IPPROTO_TCP, TCP_NODELAY, &one, sizeof one);
}

//! the far side of a link, driven by the script: raw non-blocking descriptors
struct Raw {
    int rfd = -1, wfd = -1;     //! the same descriptor for sockets
    Dir *in = nullptr, *out = nullptr;
    bool eof = false, rerr = false, werr = false;
    int rerrno = 0;
    bool wr_shut = false, closed = false;
    bool eof_or_err() const { return eof || rerr; }

    //! read up to max bytes, check them against the position code; err = "key|detail" on a violation
    size_t read_some(size_t max, std::string &err) {
        static std::vector<uint8_t> tmp(1 << 16);
        size_t got = 0;
        while (got < max && rfd >= 0 && !eof && !rerr) {
            size_t want = max - got < tmp.size() ? max - got : tmp.size();
            ssize_t n = ::read(rfd, tmp.data(), want);
            if (n > 0) {
                if (err.empty()) {
                    long bad = fdiff(in->id, in->verified, tmp.data(), (size_t)n);
                    if (bad >= 0)
                        err = "peer/content-mismatch|" + vh::fmt("the raw peer expected stream offset %llu: %s",
                              (unsigned long long)(in->verified + bad), explain(in->id, in->verified + bad, tmp.data() + bad, (size_t)n - bad).c_str());
                    else if (in->verified + (uint64_t)n > in->accepted)
                        err = "peer/more-than-sent|" + vh::fmt("the raw peer has read %llu bytes, only %llu were handed to send()",
                              (unsigned long long)(in->verified + n), (unsigned long long)in->accepted);
                }
                in->verified += (uint64_t)n;
                got += (size_t)n;
            } else if (n == 0) { eof = true; }
            else if (errno == EINTR) continue;
            else if (errno == EAGAIN || errno == EWOULDBLOCK) break;
            else { rerr = true; rerrno = errno; }
        }
        return got;
    }
    //! write up to n position-coded bytes; returns what the kernel took
    size_t write_some(size_t n) {
        static std::vector<uint8_t> tmp(1 << 16);
        size_t done = 0;
        while (done < n && wfd >= 0 && !wr_shut && !werr) {
            size_t c = n - done < tmp.size() ? n - done : tmp.size();
            ffill(out->id, out->accepted, tmp.data(), c);
            ssize_t w = ::write(wfd, tmp.data(), c);
            if (w > 0) { out->accepted += (uint64_t)w; done += (size_t)w; if ((size_t)w < c) break; }
            else if (w < 0 && errno == EINTR) continue;
            else if (w < 0 && (errno == EAGAIN || errno == EWOULDBLOCK)) break;
            else { werr = true; break; }
        }
        return done;
    }
    void close_all() {
        if (rfd >= 0) ::close(rfd);
        if (wfd >= 0 && wfd != rfd) ::close(wfd);
        rfd = wfd = -1;
        closed = true;
    }
};

inline bool unix_pair(int sv[2], int snd0, int snd1) {
    if (::socketpair(AF_UNIX, SOCK_STREAM | SOCK_NONBLOCK | SOCK_CLOEXEC, 0, sv) != 0) return false;
    set_bufs(sv[0], snd0, 0);
    set_bufs(sv[1], snd1, 0);
    return true;
}
inline bool pipe_pair(int p[2], int size) {
    if (::pipe2(p, O_NONBLOCK | O_CLOEXEC) != 0) return false;
    ::fcntl(p[1], F_SETPIPE_SZ, size);
    return true;
}

//! a loopback address of this process's own (all of 127/8 is local), so that shards and other workers never share ports
inline uint32_t my_loopback_ip() {
    static uint32_t ip = 0;
    if (ip) return ip;
    uint32_t h = (uint32_t)getpid();
    uint32_t a = 127, b = 1 + ((h >> 15) % 200), c = (h >> 7) & 0xFF, d = 1 + (h & 0x7F);
    uint32_t cand = htonl((a << 24) | (b << 16) | (c << 8) | d);
    int s = ::socket(AF_INET, SOCK_STREAM | SOCK_CLOEXEC, 0);
    struct sockaddr_in sa; memset(&sa, 0, sizeof sa);
    sa.sin_family = AF_INET; sa.sin_addr.s_addr = cand; sa.sin_port = 0;
    bool ok = s >= 0 && ::bind(s, (struct sockaddr *)&sa, sizeof sa) == 0;
    if (s >= 0) ::close(s);
    ip = ok ? cand : htonl(INADDR_LOOPBACK);
    return ip;
}
inline int tcp_listen(uint32_t ip, uint16_t &port, int bufs) {
    int s = ::socket(AF_INET, SOCK_STREAM | SOCK_NONBLOCK | SOCK_CLOEXEC, 0);
    if (s < 0) return -1;
    int one = 1; ::setsockopt(s, SOL_SOCKET, SO_REUSEADDR, &one, sizeof one);
    set_bufs(s, bufs, bufs);
    tcp_tune(s, true);
    struct sockaddr_in sa; memset(&sa, 0, sizeof sa);
    sa.sin_family = AF_INET; sa.sin_addr.s_addr = ip; sa.sin_port = 0;
    socklen_t sl = sizeof sa;
    if (::bind(s, (struct sockaddr *)&sa, sizeof sa) != 0 || ::listen(s, 8) != 0 || ::getsockname(s, (struct sockaddr *)&sa, &sl) != 0) { ::close(s); return -1; }
    port = ntohs(sa.sin_port);
    return s;
}
//! a port that was free a moment ago on ip
inline uint16_t free_port(uint32_t ip) {
    uint16_t port = 0;
    int s = tcp_listen(ip, port, 0);
    if (s >= 0) ::close(s);
    return port;
}
inline int tcp_connect(uint32_t ip, uint16_t port, int bufs) {
    int s = ::socket(AF_INET, SOCK_STREAM | SOCK_CLOEXEC, 0);
    if (s < 0) return -1;
    set_bufs(s, bufs, bufs);
    tcp_tune(s, true);
    struct sockaddr_in sa; memset(&sa, 0, sizeof sa);
    sa.sin_family = AF_INET; sa.sin_addr.s_addr = ip; sa.sin_port = htons(port);
    struct timeval tv = {5, 0};
    ::setsockopt(s, SOL_SOCKET, SO_SNDTIMEO, &tv, sizeof tv);
    if (::connect(s, (struct sockaddr *)&sa, sizeof sa) != 0) { ::close(s); return -1; }
    set_nonblock(s);
    return s;
}
inline bool tcp_pair(int sv[2], int snd0, int snd1) {
    uint16_t port = 0;
    uint32_t ip = my_loopback_ip();
    int ls = tcp_listen(ip, port, snd0);
    if (ls < 0) return false;
    int c = tcp_connect(ip, port, snd1);
    if (c < 0) { ::close(ls); return false; }
    int a = -1;
    for (int i = 0; i < 2000 && a < 0; ++i) {
        a = ::accept4(ls, nullptr, nullptr, SOCK_NONBLOCK | SOCK_CLOEXEC);
        if (a < 0) { struct pollfd p; p.fd = ls; p.events = POLLIN; p.revents = 0; ::poll(&p, 1, 5); }
    }
    ::close(ls);
    if (a < 0) { ::close(c); return false; }
    sv[0] = a; sv[1] = c;
    return true;
}
inline bool fill_un(struct sockaddr_un &sa, const std::string &path) {
    memset(&sa, 0, sizeof sa);
    sa.sun_family = AF_UNIX;
    if (path.size() >= sizeof sa.sun_path) return false;
    memcpy(sa.sun_path, path.data(), path.size());
    return true;
}
inline int unix_listen(const std::string &path, int bufs) {
    struct sockaddr_un sa;
    if (!fill_un(sa, path)) return -1;
    int s = ::socket(AF_UNIX, SOCK_STREAM | SOCK_NONBLOCK | SOCK_CLOEXEC, 0);
    if (s < 0) return -1;
    set_bufs(s, bufs, 0);
    ::unlink(path.c_str());
    if (::bind(s, (struct sockaddr *)&sa, sizeof sa) != 0 || ::listen(s, 8) != 0) { ::close(s); return -1; }
    return s;
}
inline int unix_connect(const std::string &path, int bufs) {
    struct sockaddr_un sa;
    if (!fill_un(sa, path)) return -1;
    int s = ::socket(AF_UNIX, SOCK_STREAM | SOCK_CLOEXEC, 0);
    if (s < 0) return -1;
    set_bufs(s, bufs, 0);
    if (::connect(s, (struct sockaddr *)&sa, (socklen_t)(offsetof(struct sockaddr_un, sun_path) + path.size())) != 0) { ::close(s); return -1; }
    set_nonblock(s);
    return s;
}
//! do two connected inet sockets form one connection? (local address of a == peer address of b)
inline bool inet_paired(int a, int b) {
    struct sockaddr_in x, y; socklen_t xl = sizeof x, yl = sizeof y;
    if (::getsockname(a, (struct sockaddr *)&x, &xl) != 0 || ::getpeername(b, (struct sockaddr *)&y, &yl) != 0) return false;
    return x.sin_family == AF_INET && y.sin_family == AF_INET && x.sin_port == y.sin_port && x.sin_addr.s_addr == y.sin_addr.s_addr;
}

}  // namespace c06

#endif
