// C18: coroutine Scheduler + Channel / Mutex / Semaphore / Condition / Broadcast.
//
// Every case builds a fresh Loop + Scheduler + a few primitives, 1-8 routines that interpret generated
// scripts, and a "main program" that acts from a loop callback (the main context) at scripted points:
// when the scheduler has gone idle, a fixed number of loop passes later, or back-to-back.
// Every step logs a CALL and a RET event into one global trace; a shadow state (FIFO of values, mutex
// holder, semaphore count, condition set, who is blocked in which call) is rebuilt from that trace only
// and the property's clauses are checked on it:
//   * channel values come out exactly once and in order; a mutex has one holder; acquisitions <= releases+initial
//   * at every idle point: nobody is suspended in recv on a non-empty channel / lock on a free mutex /
//     acquire on a positive semaphore / a broadcast or condition wait that was posted / a join whose target ended /
//     a yield, a resumed wait, or at all if it was cancelled
//   * a call that was blocked when its routine got cancelled (or when cleanup() began) returns failure,
//     and after cleanup() every started routine has ended; join returns true only after its target ended
// modes: random | exhaustive (<=3 routines x <=3 steps over {send,recv,yield} / {lock,unlock,yield} /
//        {acquire,release,yield}) | directed (hand-written histories for the rare windows)
#include "common/vh.hpp"

#include <tbox/event/loop.h>
#include <tbox/coroutine/scheduler.h>
#include <tbox/coroutine/channel.hpp>
#include <tbox/coroutine/mutex.hpp>
#include <tbox/coroutine/semaphore.hpp>
#include <tbox/coroutine/condition.hpp>
#include <tbox/coroutine/broadcast.hpp>

#include <deque>
#include <memory>
#include <set>
#include <string>
#include <vector>

using namespace tbox;
using namespace tbox::coroutine;

namespace {

enum Op : uint8_t {
    YIELD, WAIT, SEND, RECV, LOCK, UNLOCK, ACQ, REL, BWAIT, BPOST, CADD, CWAIT, CPOST,
    JOIN, CREATE, CANCEL, RESUME, NOP, CLEANUP, OP_MAX
};
const char *kOpName[OP_MAX] = {"yield", "wait", "send", "recv", "lock", "unlock", "acquire", "release", "bwait",
                               "bpost", "cadd", "cwait", "cpost", "join", "create", "cancel", "resume", "nop", "cleanup"};

//! a: object index or routine slot; b: value / count / run_now flag
struct Step { Op op; int a; int b; };

enum When : uint8_t { W_IDLE, W_PASS, W_NOW };
const char *kWhenName[] = {"idle", "pass", "now"};
struct MainStep { When when; Step s; bool dyn; };

struct Script {
    std::vector<Step> steps;
    bool raii = true;       //!< release held mutexes on the way out (what Mutex::Locker does)
    bool heed = true;       //!< stop at the first cancelled yield()/wait() or failed blocking call; false: carry on like the
                            //!< README's `for (...) { ...; sch.yield(); }` loop does (the script is finite, so it still ends)
    bool run_now = true;
    bool initial = true;    //!< created by the main context before the loop starts
};

enum EvKind : uint8_t { E_CALL, E_RET, E_BEGIN, E_END };
struct Ev { EvKind kind; int8_t rid; Op op; int a; int b; int res; };

constexpr int kMain = -1;
constexpr int kMaxRoutines = 8;

bool is_blocking(Op op) { return op == RECV || op == LOCK || op == ACQ || op == BWAIT || op == CWAIT || op == JOIN; }

struct Rt {    //!< one routine slot: real token + shadow
    RoutineToken tok;
    // shadow, maintained by process_events() only
    bool created = false, started = false, ended = false;
    bool canceled = false;          //!< cancel() was called on it or cleanup() began
    bool owed_start = false;        //!< made ready before it ever ran: must have started by the next idle point
    bool has_call = false;          //!< a CALL without RET
    Op call_op = NOP; int call_a = 0; size_t call_ev = 0;
    bool owed = false;              //!< the outstanding call was posted/resumed: must have returned by the next idle point
    bool cancel_hit = false;        //!< got cancelled while the outstanding call was blocked: must return failure
    bool ever_blocked = false;
    const char *stack_base = nullptr;
};

struct World {
    event::Loop *loop = nullptr;
    Scheduler *sch = nullptr;
    std::vector<std::unique_ptr<Channel<int>>> ch;
    std::vector<std::unique_ptr<Mutex>> mx;
    std::vector<std::unique_ptr<Semaphore>> sem;
    std::vector<std::unique_ptr<Broadcast>> bc;
    std::vector<std::unique_ptr<Condition<int>>> cond;
    std::vector<int> sem_init;
    int nbcast = 0;
    std::vector<int> cond_all;      //!< 1 = Logic::kAll
    std::vector<int> cond_owner;    //!< the only routine slot that adds to / waits on this condition

    std::vector<Script> scripts;    //!< one per routine slot
    std::vector<MainStep> mainprog;
    Rt rt[kMaxRoutines];
    int nrt = 0;
    size_t stack_size = 0;          //!< 0 = library default (8 KiB)

    std::vector<Ev> ev;
    size_t ev_done = 0;
    int next_val = 1;
    vh::Rng *rng = nullptr;

    // shadow of the primitives
    std::vector<std::deque<int>> sh_q;
    std::vector<int> sh_holder;     //!< -1 free, else routine slot
    std::vector<int> sh_count;
    std::vector<std::set<int>> sh_cond;
    std::vector<char> mx_handoff;   //!< an unlock woke a waiter that has not run yet (window counter only)
    std::vector<char> cond_added;   //!< add() was called since the condition set was last cleared by a completed wait()
    std::vector<char> cond_early;   //!< a listed value was posted while nobody was inside wait() (between add() and wait())

    // driver state
    size_t mp = 0;
    int pass_wait = 0;
    int quiet = 0;
    bool idle_checked = false;
    bool activity = false;
    bool cleaned = false;
    int after_clean_ticks = 0;
    size_t ev_at_cleanup_ret = 0;
    uint64_t ticks = 0;
    bool aborted = false;
    std::set<std::string> reported;   //!< one report per key per case
    size_t max_depth = 0;
    int blocked_routines = 0, prim_wakeups = 0;   //!< for the non-triviality rule
    bool exhaustive = false;

    void log(EvKind k, int rid, Op op, int a, int b, int res) {
        if (rid >= 0 && rt[rid].stack_base) {
            char here;
            size_t d = (size_t)(rt[rid].stack_base - &here);
            if (d > max_depth && d < (1u << 30)) max_depth = d;
        }
        Ev e; e.kind = k; e.rid = (int8_t)rid; e.op = op; e.a = a; e.b = b; e.res = res;
        ev.push_back(e);
    }

    // ---- text ---------------------------------------------------------------------------------
    static std::string obj(Op op, int a) {
        switch (op) {
            case SEND: case RECV: return vh::fmt("c%d", a);
            case LOCK: case UNLOCK: return vh::fmt("m%d", a);
            case ACQ: case REL: return vh::fmt("s%d", a);
            case BWAIT: case BPOST: return vh::fmt("b%d", a);
            case CADD: case CWAIT: case CPOST: return vh::fmt("k%d", a);
            case JOIN: case CREATE: case CANCEL: case RESUME: return vh::fmt("r%d", a);
            default: return "";
        }
    }
    static std::string step_text(const Step &s) {
        std::string t = kOpName[s.op];
        std::string o = obj(s.op, s.a);
        if (!o.empty()) t += " " + o;
        if (s.op == SEND && s.b != 1) t += vh::fmt(" x%d", s.b);
        if (s.op == CADD || s.op == CPOST) t += vh::fmt(" %d", s.b);
        return t;
    }
    std::string script_text() const {
        std::string t = "objects:";
        t += vh::fmt(" channels=%zu mutexes=%zu", sh_q.size(), sh_holder.size());
        t += " semaphores=[";
        for (size_t i = 0; i < sem_init.size(); ++i) t += vh::fmt("%s%d", i ? "," : "", sem_init[i]);
        t += vh::fmt("] broadcasts=%d conditions=[", nbcast);
        for (size_t i = 0; i < cond_all.size(); ++i)
            t += vh::fmt("%s%s:waiter=r%d", i ? "," : "", cond_all[i] ? "All" : "Any", cond_owner[i]);
        t += vh::fmt("] stack=%zu\n", stack_size);
        for (int i = 0; i < nrt; ++i) {
            const Script &sc = scripts[i];
            t += vh::fmt("r%d(%s%s%s%s): ", i, sc.initial ? "initial" : "child", sc.run_now ? ",run_now" : ",run_later",
                         sc.raii ? ",locker" : "", sc.heed ? "" : ",ignores-cancel");
            for (size_t k = 0; k < sc.steps.size(); ++k) { if (k) t += "; "; t += step_text(sc.steps[k]); }
            t += "\n";
        }
        t += "main:";
        for (auto &m : mainprog) t += vh::fmt(" @%s %s%s;", kWhenName[m.when], step_text(m.s).c_str(), m.dyn ? "*" : "");
        t += "\n";
        return t;
    }
    std::string trace_text(size_t upto) const {
        std::string t = "trace:";
        size_t from = 0;
        if (upto > 400) { from = upto - 400; t += " ..."; }
        for (size_t i = from; i < upto && i < ev.size(); ++i) {
            const Ev &e = ev[i];
            std::string who = e.rid < 0 ? std::string("main") : vh::fmt("r%d", e.rid);
            if (e.kind == E_BEGIN) t += " " + who + ":BEGIN";
            else if (e.kind == E_END) t += " " + who + ":END";
            else if (e.kind == E_CALL) {
                t += " " + who + ":" + kOpName[e.op];
                std::string o = obj(e.op, e.a);
                if (!o.empty()) t += "(" + o + (e.op == SEND || e.op == CADD || e.op == CPOST ? vh::fmt(",%d", e.b) : std::string()) + ")";
            } else {
                t += " " + who + ":" + kOpName[e.op] + "->";
                if (e.op == RECV && e.res) t += vh::fmt("%d", e.b);
                else if (e.op == YIELD || e.op == WAIT) t += e.res ? "cancelled" : "ok";
                else t += e.res ? "true" : "false";
            }
        }
        return t;
    }
    void report(const std::string &key, const std::string &detail, size_t upto) {
        if (!reported.insert(key).second) return;
        vh::st().case_desc = script_text() + trace_text(upto);
        vh::viol(key, detail);
    }

    // ---- shadow state: everything below is driven by the trace only ------------------------------
    int waiters_on(Op op, int a, int except = -2) const {
        int n = 0;
        for (int i = 0; i < nrt; ++i)
            if (i != except && rt[i].has_call && rt[i].call_op == op && rt[i].call_a == a && !rt[i].ended) ++n;
        return n;
    }

    void mark_canceled(int t, const char *counter_blocked) {
        Rt &x = rt[t];
        if (!x.created || x.ended) return;
        x.canceled = true;
        if (x.has_call && (is_blocking(x.call_op) || x.call_op == YIELD || x.call_op == WAIT)) {
            x.cancel_hit = true;
            if (is_blocking(x.call_op) || x.call_op == WAIT) vh::counter(counter_blocked);
        }
    }

    void process_events() {
        for (; ev_done < ev.size(); ++ev_done) {
            const size_t i = ev_done;
            const Ev e = ev[i];
            if (e.rid >= 0) activity = true;
            if (cleaned && e.rid >= 0 && i >= ev_at_cleanup_ret)
                report("cleanup/routine-ran-after-cleanup-returned", vh::fmt("r%d logged '%s' after cleanup() had returned", e.rid, kOpName[e.op]), i + 1);
            switch (e.kind) {
                case E_BEGIN: rt[e.rid].started = true; rt[e.rid].owed_start = false; vh::counter("routines_started"); break;
                case E_END: {
                    Rt &me = rt[e.rid];
                    me.ended = true; me.has_call = false; me.owed = false;
                    vh::counter(me.canceled ? "routines_ended_after_cancel" : "routines_ended_normally");
                    break;
                }
                case E_CALL: on_call(e, i); break;
                case E_RET: on_ret(e, i); break;
            }
        }
    }

    void on_call(const Ev &e, size_t i) {
        if (e.rid >= 0) {
            Rt &me = rt[e.rid];
            me.has_call = true; me.call_op = e.op; me.call_a = e.a; me.call_ev = i;
            me.owed = false; me.cancel_hit = false;
        }
        switch (e.op) {
            case YIELD: vh::counter("yield_calls"); break;
            case WAIT: vh::counter("wait_calls"); break;
            case SEND: {
                int nw = waiters_on(RECV, e.a, e.rid);
                vh::counter("chan_send");
                if (nw >= 1) vh::counter("chan_send_with_waiter");
                // window: second of two sends with no switch in between while >= 2 receivers are waiting
                if (nw >= 2 && i >= 2 && ev[i - 1].kind == E_RET && ev[i - 1].op == SEND && ev[i - 1].a == e.a && ev[i - 1].rid == e.rid)
                    vh::counter("chan_back_to_back_sends_two_waiters");
                sh_q[e.a].push_back(e.b);
                break;
            }
            case RECV: break;
            case LOCK: break;
            case UNLOCK:
                if (e.rid >= 0 && sh_holder[e.a] == e.rid) {
                    sh_holder[e.a] = -1;
                    vh::counter("mutex_unlock");
                    if (waiters_on(LOCK, e.a, e.rid) >= 1) { vh::counter("mutex_unlock_with_waiter"); mx_handoff[e.a] = 1; }
                } else {
                    vh::counter("mutex_unlock_by_non_holder");
                }
                break;
            case ACQ: break;
            case REL: {
                int nw = waiters_on(ACQ, e.a, e.rid);
                vh::counter("sem_release");
                if (nw >= 1) vh::counter("sem_release_with_waiter");
                if (nw >= 2 && i >= 2 && ev[i - 1].kind == E_RET && ev[i - 1].op == REL && ev[i - 1].a == e.a && ev[i - 1].rid == e.rid)
                    vh::counter("sem_back_to_back_releases_two_waiters");
                ++sh_count[e.a];
                break;
            }
            case BWAIT: break;
            case BPOST: {
                int n = 0;
                for (int r = 0; r < nrt; ++r)
                    if (r != e.rid && rt[r].has_call && rt[r].call_op == BWAIT && rt[r].call_a == e.a) { rt[r].owed = true; ++n; }
                vh::counter("bcast_post");
                if (n >= 1) vh::counter("bcast_post_with_waiter");
                if (n >= 2) vh::counter("bcast_post_with_two_or_more_waiters");
                break;
            }
            case CADD: sh_cond[e.a].insert(e.b); cond_added[e.a] = 1; vh::counter("cond_add"); break;
            case CWAIT:
                // a post that landed between add() and wait() counts: the set may already be (partly) satisfied here
                if (cond_early[e.a] && cond_added[e.a]) vh::counter(sh_cond[e.a].empty() ? "cond_wait_called_already_satisfied" : "cond_wait_called_after_early_partial_post");
                break;
            case CPOST: {
                std::set<int> &S = sh_cond[e.a];
                if (S.find(e.b) == S.end()) { vh::counter("cond_post_unlisted_value"); break; }
                if (waiters_on(CWAIT, e.a, e.rid) == 0) { cond_early[e.a] = 1; vh::counter("cond_post_between_add_and_wait"); }
                bool sat;
                if (cond_all[e.a]) { S.erase(e.b); sat = S.empty(); if (!sat) vh::counter("cond_all_partial_post"); }
                else { S.clear(); sat = true; }
                if (sat) {
                    int n = 0;
                    for (int r = 0; r < nrt; ++r)
                        if (r != e.rid && rt[r].has_call && rt[r].call_op == CWAIT && rt[r].call_a == e.a) { rt[r].owed = true; ++n; }
                    if (n) vh::counter(cond_all[e.a] ? "cond_all_satisfied_with_waiter" : "cond_any_satisfied_with_waiter");
                    else vh::counter("cond_satisfied_without_waiter");
                }
                break;
            }
            case JOIN: break;
            case CREATE: {
                Rt &t = rt[e.a];
                t.created = true;
                if (e.b) t.owed_start = true;
                vh::counter(e.rid >= 0 ? "create_from_routine" : "create_from_main");
                if (!e.b) vh::counter("create_run_later");
                break;
            }
            case CANCEL: {
                Rt &t = rt[e.a];
                vh::counter("cancel_calls");
                if (t.created && !t.ended) {
                    if (!t.started) { t.owed_start = true; vh::counter("cancel_of_unstarted_routine"); }
                    if (e.a == e.rid) { t.canceled = true; vh::counter("cancel_self"); }
                    else mark_canceled(e.a, "cancel_of_blocked_routine");
                }
                break;
            }
            case RESUME: {
                Rt &t = rt[e.a];
                vh::counter("resume_calls");
                if (t.created && !t.ended && e.a != e.rid) {
                    if (!t.started) { t.owed_start = true; vh::counter("resume_starts_routine"); }
                    else if (t.has_call && t.call_op == WAIT) { t.owed = true; vh::counter("resume_of_waiting_routine"); }
                    else if (t.has_call && is_blocking(t.call_op)) vh::counter("spurious_resume_of_blocked_routine");
                }
                break;
            }
            case CLEANUP: {
                int blocked = 0, unstarted = 0;
                for (int r = 0; r < nrt; ++r) {
                    if (!rt[r].created || rt[r].ended) continue;
                    if (!rt[r].started) { ++unstarted; continue; }
                    if (rt[r].has_call && (is_blocking(rt[r].call_op) || rt[r].call_op == WAIT)) ++blocked;
                    mark_canceled(r, "cleanup_of_blocked_routine");
                }
                vh::counter("cleanup_calls");
                if (blocked) vh::counter("cleanup_with_blocked_routines");
                if (unstarted) vh::counter("cleanup_with_unstarted_routines");
                break;
            }
            default: break;
        }
    }

    void on_ret(const Ev &e, size_t i) {
        if (e.rid < 0) {
            if (e.op == CLEANUP) {
                for (int r = 0; r < nrt; ++r)
                    if (rt[r].created && rt[r].started && !rt[r].ended)
                        report("cleanup/started-routine-not-terminated",
                               vh::fmt("cleanup() returned but r%d (started) has not returned from its entry function%s", r,
                                       rt[r].has_call ? vh::fmt("; it is still inside %s", kOpName[rt[r].call_op]).c_str() : ""), i + 1);
                cleaned = true;
                ev_at_cleanup_ret = i + 1;
            }
            return;
        }
        Rt &me = rt[e.rid];
        const bool suspended = me.has_call && i > me.call_ev + 1;   // someone else logged something in between
        const bool hit = me.cancel_hit;
        me.has_call = false; me.owed = false; me.cancel_hit = false;
        if (suspended && (is_blocking(e.op) || e.op == WAIT)) {
            if (!me.ever_blocked) { me.ever_blocked = true; ++blocked_routines; }
        }
        if (hit) {
            if (is_blocking(e.op)) {
                if (e.res) report(std::string("cancel/") + kOpName[e.op] + "/blocked-call-returned-success",
                                  vh::fmt("r%d was blocked in %s %s when it was cancelled (or cleanup began), and the call returned true",
                                          e.rid, kOpName[e.op], obj(e.op, e.a).c_str()), i + 1);
                else vh::counter("cancel_blocked_call_returned_failure");
            } else if (e.op == YIELD || e.op == WAIT) {
                if (!e.res) report(std::string("cancel/") + kOpName[e.op] + "/cancel-flag-not-visible",
                                   vh::fmt("r%d was in %s when it was cancelled, but isCanceled() is false after the call returned", e.rid, kOpName[e.op]), i + 1);
                else vh::counter("cancel_wait_or_yield_returned_cancelled");
            }
        }
        switch (e.op) {
            case YIELD: if (suspended) vh::counter("yield_rescheduled"); break;
            case WAIT: if (suspended) vh::counter("wait_resumed"); break;
            case RECV:
                if (e.res) {
                    std::deque<int> &q = sh_q[e.a];
                    if (q.empty()) {
                        report("channel/recv/value-never-sent-or-received-twice",
                               vh::fmt("r%d received %d from c%d but every value sent so far has already been received", e.rid, e.b, e.a), i + 1);
                    } else if (q.front() != e.b) {
                        bool queued = false;
                        for (int v : q) if (v == e.b) queued = true;
                        report(queued ? "channel/recv/out-of-order" : "channel/recv/value-never-sent-or-received-twice",
                               vh::fmt("r%d received %d from c%d, expected %d (oldest value not yet received)", e.rid, e.b, e.a, q.front()), i + 1);
                        if (queued) { while (!q.empty() && q.front() != e.b) q.pop_front(); if (!q.empty()) q.pop_front(); }
                    } else {
                        q.pop_front();
                    }
                    vh::counter(suspended ? "chan_recv_blocked_then_woken" : "chan_recv_immediate");
                    if (suspended) ++prim_wakeups;
                }
                break;
            case LOCK:
                if (e.res) {
                    int &h = sh_holder[e.a];
                    if (h == -1) {
                        h = e.rid;
                        if (suspended) { vh::counter("mutex_lock_blocked_then_acquired"); ++prim_wakeups; mx_handoff[e.a] = 0; }
                        else {
                            vh::counter("mutex_lock_immediate");
                            // window: the mutex was handed to a woken waiter, and somebody else took it first
                            if (mx_handoff[e.a] && waiters_on(LOCK, e.a, e.rid) >= 1) vh::counter("mutex_relocked_before_woken_waiter_ran");
                        }
                    } else if (h == e.rid) {
                        vh::counter("mutex_lock_reentrant");
                    } else {
                        report("mutex/lock/two-holders",
                               vh::fmt("lock m%d returned true in r%d while r%d%s holds it", e.a, e.rid, h, rt[h].ended ? " (ended without unlocking)" : ""), i + 1);
                    }
                }
                break;
            case ACQ:
                if (e.res) {
                    if (sh_count[e.a] <= 0)
                        report("semaphore/acquire/more-acquisitions-than-releases-plus-initial",
                               vh::fmt("acquire s%d returned true in r%d with shadow count %d (initial %d)", e.a, e.rid, sh_count[e.a], sem_init[e.a]), i + 1);
                    --sh_count[e.a];
                    vh::counter(suspended ? "sem_acquire_blocked_then_granted" : "sem_acquire_immediate");
                    if (suspended) ++prim_wakeups;
                }
                break;
            case BWAIT:
                if (suspended && e.res) { vh::counter("bcast_waiter_resumed"); ++prim_wakeups; }
                break;
            case CWAIT:
                if (suspended) {
                    if (e.res && cond_early[e.a]) vh::counter("cond_waiter_resumed_after_early_post");
                    sh_cond[e.a].clear(); cond_added[e.a] = 0; cond_early[e.a] = 0;
                    if (e.res) { vh::counter("cond_waiter_resumed"); ++prim_wakeups; }
                } else if (sh_cond[e.a].empty() && cond_added[e.a] && cond_early[e.a]) {
                    // everything that was added has been posted before wait() was called: it must not block (it returns false)
                    vh::counter("cond_wait_returned_immediately_already_satisfied");
                    cond_added[e.a] = 0; cond_early[e.a] = 0;
                } else {
                    vh::counter("cond_wait_refused");
                }
                break;
            case JOIN:
                if (e.res) {
                    if (!rt[e.a].ended)
                        report("join/returned-true-before-target-finished",
                               vh::fmt("join r%d returned true in r%d but r%d has %s", e.a, e.rid, e.a,
                                       rt[e.a].created ? "not returned from its entry function" : "never been created"), i + 1);
                    else if (suspended) { vh::counter("join_blocked_then_target_finished"); ++prim_wakeups; }
                } else if (!me.canceled) {
                    if (rt[e.a].ended) vh::counter("join_false_target_already_finished");
                    else vh::counter("join_false_other");
                }
                break;
            default: break;
        }
    }

    //! called when two whole loop passes went by without any routine executing a step
    void idle_check() {
        vh::counter("idle_points_checked");
        const size_t upto = ev.size();
        int deadlocked = 0;
        for (int r = 0; r < nrt; ++r) {
            Rt &x = rt[r];
            if (!x.created || x.ended) continue;
            if (x.owed_start && !x.started)
                report("idle/create/ready-routine-never-started", vh::fmt("r%d was created with run_now / resumed / cancelled but has not started", r), upto);
            if (x.canceled && x.started) {
                report("idle/cancel/cancelled-routine-not-terminated",
                       vh::fmt("r%d was cancelled but is still %s", r, x.has_call ? vh::fmt("inside %s %s", kOpName[x.call_op], obj(x.call_op, x.call_a).c_str()).c_str() : "alive"), upto);
                continue;
            }
            if (!x.has_call) continue;
            const int a = x.call_a;
            switch (x.call_op) {
                case YIELD:
                    report("idle/yield/routine-not-rescheduled", vh::fmt("r%d yielded and was never run again", r), upto);
                    break;
                case WAIT:
                    if (x.owed) report("idle/wait/resumed-routine-not-run", vh::fmt("r%d was resumed while in wait() but wait() has not returned", r), upto);
                    break;
                case RECV:
                    if (!sh_q[a].empty())
                        report("idle/channel/waiter-suspended-on-nonempty",
                               vh::fmt("r%d is suspended in recv c%d while %zu value(s) are queued (oldest %d); %d receiver(s) suspended in total",
                                       r, a, sh_q[a].size(), sh_q[a].front(), waiters_on(RECV, a)), upto);
                    else ++deadlocked;
                    break;
                case LOCK:
                    if (sh_holder[a] == -1)
                        report("idle/mutex/waiter-suspended-on-free", vh::fmt("r%d is suspended in lock m%d while nobody holds it", r, a), upto);
                    else ++deadlocked;
                    break;
                case ACQ:
                    if (sh_count[a] > 0)
                        report("idle/semaphore/waiter-suspended-on-positive", vh::fmt("r%d is suspended in acquire s%d while its count is %d", r, a, sh_count[a]), upto);
                    else ++deadlocked;
                    break;
                case BWAIT:
                    if (x.owed) report("idle/broadcast/waiter-not-resumed", vh::fmt("r%d was waiting on b%d when it was posted and has not been resumed", r, a), upto);
                    break;
                case CWAIT:
                    if (x.owed)
                        report("idle/condition/waiter-not-resumed", vh::fmt("r%d was waiting on k%d when it became satisfied and has not been resumed", r, a), upto);
                    else if (sh_cond[a].empty())
                        report("idle/condition/waiter-suspended-on-satisfied",
                               vh::fmt("r%d is suspended in wait() on k%d (%s) although every condition it added had been posted before it called wait()",
                                       r, a, cond_all[a] ? "All" : "Any"), upto);
                    else ++deadlocked;
                    break;
                case JOIN:
                    if (rt[a].ended) report("idle/join/joiner-suspended-after-target-finished", vh::fmt("r%d is suspended in join r%d, which has ended", r, a), upto);
                    else ++deadlocked;
                    break;
                default: break;
            }
        }
        if (deadlocked) vh::counter("idle_routines_legitimately_blocked", deadlocked);
        // the public observers must agree with the trace (a lost or invented value is not "received exactly once")
        for (size_t c = 0; c < ch.size(); ++c) {
            bool e_real = ch[c]->empty(), e_sh = sh_q[c].empty();
            if (e_real && !e_sh)
                report("channel/value-lost", vh::fmt("c%zu reports empty() but %zu sent value(s) were never received (oldest %d)", c, sh_q[c].size(), sh_q[c].front()), upto);
            if (!e_real && e_sh)
                report("channel/phantom-value", vh::fmt("c%zu reports !empty() but every sent value has been received", c), upto);
        }
    }

    // ---- the routine body: interprets scripts[slot] on the coroutine's own stack -------------------
    static void routine_body(World *w, int slot, Scheduler &sch) {
        char base;
        w->rt[slot].stack_base = &base;
        w->log(E_BEGIN, slot, NOP, 0, 0, 0);
        const Script &sc = w->scripts[slot];
        unsigned held = 0;
        for (size_t pc = 0; pc < sc.steps.size(); ++pc) {
            const Step s = sc.steps[pc];
            bool ok = true;
            switch (s.op) {
                case YIELD: w->log(E_CALL, slot, s.op, 0, 0, 0); sch.yield(); ok = !sch.isCanceled(); w->log(E_RET, slot, s.op, 0, 0, !ok); break;
                case WAIT: w->log(E_CALL, slot, s.op, 0, 0, 0); sch.wait(); ok = !sch.isCanceled(); w->log(E_RET, slot, s.op, 0, 0, !ok); break;
                case SEND:
                    for (int k = 0; k < s.b; ++k) {
                        int v = w->next_val++;
                        w->log(E_CALL, slot, SEND, s.a, v, 0);
                        *w->ch[s.a] << v;
                        w->log(E_RET, slot, SEND, s.a, v, 1);
                    }
                    break;
                case RECV: {
                    int v = -1;
                    w->log(E_CALL, slot, s.op, s.a, 0, 0);
                    ok = (*w->ch[s.a] >> v);
                    w->log(E_RET, slot, s.op, s.a, v, ok);
                    break;
                }
                case LOCK:
                    w->log(E_CALL, slot, s.op, s.a, 0, 0);
                    ok = w->mx[s.a]->lock();
                    if (ok) held |= 1u << s.a;
                    w->log(E_RET, slot, s.op, s.a, 0, ok);
                    break;
                case UNLOCK:
                    w->log(E_CALL, slot, s.op, s.a, 0, 0);
                    w->mx[s.a]->unlock();
                    held &= ~(1u << s.a);
                    w->log(E_RET, slot, s.op, s.a, 0, 1);
                    break;
                case ACQ: w->log(E_CALL, slot, s.op, s.a, 0, 0); ok = w->sem[s.a]->acquire(); w->log(E_RET, slot, s.op, s.a, 0, ok); break;
                case REL: w->log(E_CALL, slot, s.op, s.a, 0, 0); w->sem[s.a]->release(); w->log(E_RET, slot, s.op, s.a, 0, 1); break;
                case BWAIT: w->log(E_CALL, slot, s.op, s.a, 0, 0); ok = w->bc[s.a]->wait(); w->log(E_RET, slot, s.op, s.a, 0, ok); break;
                case BPOST: w->log(E_CALL, slot, s.op, s.a, 0, 0); w->bc[s.a]->post(); w->log(E_RET, slot, s.op, s.a, 0, 1); break;
                case CADD: w->log(E_CALL, slot, s.op, s.a, s.b, 0); w->cond[s.a]->add(s.b); w->log(E_RET, slot, s.op, s.a, s.b, 1); break;
                case CWAIT: w->log(E_CALL, slot, s.op, s.a, 0, 0); ok = w->cond[s.a]->wait(); w->log(E_RET, slot, s.op, s.a, 0, ok); break;
                case CPOST: w->log(E_CALL, slot, s.op, s.a, s.b, 0); w->cond[s.a]->post(s.b); w->log(E_RET, slot, s.op, s.a, s.b, 1); break;
                case JOIN: w->log(E_CALL, slot, s.op, s.a, 0, 0); ok = sch.join(w->rt[s.a].tok); w->log(E_RET, slot, s.op, s.a, 0, ok); break;
                case CREATE: if (!sch.isCanceled()) w->do_create(slot, s.a); break;   // a cancelled routine creates nothing (assumption)
                case CANCEL: { w->log(E_CALL, slot, s.op, s.a, 0, 0); bool r = sch.cancel(w->rt[s.a].tok); w->log(E_RET, slot, s.op, s.a, 0, r); break; }
                case RESUME: { w->log(E_CALL, slot, s.op, s.a, 0, 0); bool r = sch.resume(w->rt[s.a].tok); w->log(E_RET, slot, s.op, s.a, 0, r); break; }
                default: break;
            }
            // a failed call in a cancelled routine ends it (a refused Condition::wait or join in a live routine does not)
            if (!ok && sch.isCanceled() && sc.heed) break;
        }
        if (sc.raii) {
            for (int m = 0; held; ++m, held >>= 1) {
                if (!(held & 1)) continue;
                w->log(E_CALL, slot, UNLOCK, m, 0, 0);
                w->mx[m]->unlock();
                w->log(E_RET, slot, UNLOCK, m, 0, 1);
            }
        }
        w->log(E_END, slot, NOP, 0, 0, 0);
    }

    void do_create(int by, int slot) {
        if (slot < 0 || slot >= nrt || !rt[slot].tok.isNull()) return;
        const Script &sc = scripts[slot];
        log(E_CALL, by, CREATE, slot, sc.run_now, 0);
        World *self = this;
        RoutineEntry entry = [self, slot](Scheduler &s) { routine_body(self, slot, s); };
        if (stack_size) rt[slot].tok = sch->create(entry, sc.run_now, vh::fmt("r%d", slot), stack_size);
        else rt[slot].tok = sch->create(entry, sc.run_now, vh::fmt("r%d", slot));
        log(E_RET, by, CREATE, slot, sc.run_now, 1);
    }

    // ---- main context ----------------------------------------------------------------------------
    void do_main(const MainStep &m) {
        Step s = m.s;
        if (m.dyn && s.op == RESUME) {
            // resume somebody who is actually in wait() or not yet started, if there is one
            std::vector<int> c;
            for (int r = 0; r < nrt; ++r)
                if (rt[r].created && !rt[r].ended && ((rt[r].has_call && rt[r].call_op == WAIT) || !rt[r].started)) c.push_back(r);
            if (!c.empty()) s.a = c[rng->below(c.size())];
        }
        switch (s.op) {
            case SEND:
                for (int k = 0; k < s.b; ++k) { int v = next_val++; log(E_CALL, kMain, SEND, s.a, v, 0); *ch[s.a] << v; log(E_RET, kMain, SEND, s.a, v, 1); }
                break;
            case REL: log(E_CALL, kMain, REL, s.a, 0, 0); sem[s.a]->release(); log(E_RET, kMain, REL, s.a, 0, 1); break;
            case BPOST: log(E_CALL, kMain, BPOST, s.a, 0, 0); bc[s.a]->post(); log(E_RET, kMain, BPOST, s.a, 0, 1); break;
            case CPOST: log(E_CALL, kMain, CPOST, s.a, s.b, 0); cond[s.a]->post(s.b); log(E_RET, kMain, CPOST, s.a, s.b, 1); break;
            case CREATE: do_create(kMain, s.a); break;
            case CANCEL: { log(E_CALL, kMain, CANCEL, s.a, 0, 0); bool r = sch->cancel(rt[s.a].tok); log(E_RET, kMain, CANCEL, s.a, 0, r); break; }
            case RESUME: { log(E_CALL, kMain, RESUME, s.a, 0, 0); bool r = sch->resume(rt[s.a].tok); log(E_RET, kMain, RESUME, s.a, 0, r); break; }
            case CLEANUP: log(E_CALL, kMain, CLEANUP, 0, 0, 0); sch->cleanup(); log(E_RET, kMain, CLEANUP, 0, 0, 1); break;
            default: break;
        }
        process_events();
        activity = false;
    }

    //! one call per loop pass, from a runNext callback (main context)
    void tick() {
        ++ticks;
        process_events();
        if (activity) { quiet = 0; idle_checked = false; } else ++quiet;
        activity = false;
        bool idle = quiet >= 2;
        if (idle && !idle_checked && !cleaned) { idle_check(); idle_checked = true; }
        if (cleaned) {
            if (++after_clean_ticks >= 3) { loop->exitLoop(); return; }
        } else {
            if (pass_wait > 0) --pass_wait;
            while (mp < mainprog.size()) {
                const MainStep &m = mainprog[mp];
                if (m.when == W_IDLE && !idle) break;
                if (m.when == W_PASS && pass_wait > 0) break;
                do_main(m);
                ++mp;
                quiet = 0; idle = false; idle_checked = false;
                if (cleaned) break;
                if (mp < mainprog.size() && mainprog[mp].when == W_PASS) pass_wait = 1 + mainprog[mp].s.b % 3;
            }
        }
        if (ticks > 20000 && !aborted) {
            aborted = true;
            report("harness/tick-limit", "20000 loop passes without reaching the end of the main program", ev.size());
            if (!cleaned) { MainStep c; c.when = W_NOW; c.s = Step{CLEANUP, 0, 0}; c.dyn = false; do_main(c); }
            loop->exitLoop();
            return;
        }
        loop->runNext([this] { tick(); }, "c18.tick");
    }

    // ---- set-up, run, tear-down --------------------------------------------------------------------
    void build(int nch, int nmx, const std::vector<int> &sems, int nbc, const std::vector<int> &conds_all, const std::vector<int> &owners) {
        loop = event::Loop::New();
        sch = new Scheduler(loop);
        for (int i = 0; i < nch; ++i) ch.emplace_back(new Channel<int>(*sch));
        for (int i = 0; i < nmx; ++i) mx.emplace_back(new Mutex(*sch));
        for (int v : sems) sem.emplace_back(new Semaphore(*sch, v));
        for (int i = 0; i < nbc; ++i) bc.emplace_back(new Broadcast(*sch));
        for (int a : conds_all)
            cond.emplace_back(new Condition<int>(*sch, a ? Condition<int>::Logic::kAll : Condition<int>::Logic::kAny));
        sem_init = sems; cond_all = conds_all; cond_owner = owners; nbcast = nbc;
        sh_q.resize(nch); sh_holder.assign(nmx, -1); sh_count = sems; sh_cond.resize(conds_all.size()); mx_handoff.assign(nmx, 0);
        cond_added.assign(conds_all.size(), 0); cond_early.assign(conds_all.size(), 0);
        ev.reserve(1024);
    }

    void run(bool tick_first) {
        nrt = (int)scripts.size();
        if (mainprog.empty() || mainprog.back().s.op != CLEANUP) {
            MainStep c; c.when = W_IDLE; c.s = Step{CLEANUP, 0, 0}; c.dyn = false; mainprog.push_back(c);
        }
        if (tick_first) loop->runNext([this] { tick(); }, "c18.tick");
        for (int i = 0; i < nrt; ++i)
            if (scripts[i].initial) do_create(kMain, i);
        if (!tick_first) loop->runNext([this] { tick(); }, "c18.tick");
        if (mainprog[0].when == W_PASS) pass_wait = 1 + mainprog[0].s.b % 3;
        loop->runLoop(event::Loop::Mode::kForever);
        process_events();
        delete sch; sch = nullptr;      // ~Scheduler calls cleanup() again: nothing may be left
        process_events();
        ch.clear(); mx.clear(); sem.clear(); bc.clear(); cond.clear();
        delete loop; loop = nullptr;
        vh::counter_max("max_routine_stack_depth_seen_by_harness", max_depth);
    }
};

// ---- generators ------------------------------------------------------------------------------------

struct Weights { int w[OP_MAX]; };

Op pick_op(vh::Rng &r, const Weights &W) {
    int tot = 0;
    for (int i = 0; i < OP_MAX; ++i) tot += W.w[i];
    int x = (int)r.below(tot);
    for (int i = 0; i < OP_MAX; ++i) { if (x < W.w[i]) return (Op)i; x -= W.w[i]; }
    return YIELD;
}

Weights mixed_weights() {
    Weights W; memset(&W, 0, sizeof W);
    W.w[YIELD] = 14; W.w[WAIT] = 4; W.w[SEND] = 10; W.w[RECV] = 10; W.w[LOCK] = 8; W.w[UNLOCK] = 2; W.w[ACQ] = 7; W.w[REL] = 7;
    W.w[BWAIT] = 4; W.w[BPOST] = 4; W.w[CADD] = 2; W.w[CWAIT] = 3; W.w[CPOST] = 4; W.w[JOIN] = 4; W.w[CREATE] = 3; W.w[CANCEL] = 2; W.w[RESUME] = 3;
    return W;
}

Weights theme_weights(int theme) {
    Weights W; memset(&W, 0, sizeof W);
    switch (theme) {
        case 1: W.w[SEND] = 10; W.w[RECV] = 12; W.w[YIELD] = 6; break;
        case 2: W.w[LOCK] = 12; W.w[UNLOCK] = 2; W.w[YIELD] = 7; break;
        case 3: W.w[ACQ] = 12; W.w[REL] = 10; W.w[YIELD] = 6; break;
        case 4: W.w[BWAIT] = 7; W.w[BPOST] = 5; W.w[CADD] = 4; W.w[CWAIT] = 7; W.w[CPOST] = 10; W.w[YIELD] = 7; break;
        case 5: W.w[JOIN] = 10; W.w[CREATE] = 7; W.w[CANCEL] = 5; W.w[YIELD] = 8; W.w[WAIT] = 3; W.w[RECV] = 3; break;
        case 6: W.w[YIELD] = 12; W.w[WAIT] = 8; W.w[RESUME] = 6; W.w[CANCEL] = 2; break;
        default: return mixed_weights();
    }
    return W;
}

void sign(vh::Sig &sig, const World &w) {
    sig.add(w.sh_q.size()); sig.add(w.sh_holder.size()); sig.add(w.nbcast);
    for (int v : w.sem_init) sig.add(100 + v);
    for (size_t i = 0; i < w.cond_all.size(); ++i) sig.add(200 + w.cond_all[i] * 16 + w.cond_owner[i]);
    for (auto &sc : w.scripts) {
        sig.add(0xABCD00 + sc.heed * 8 + sc.raii * 4 + sc.run_now * 2 + sc.initial);
        for (auto &s : sc.steps) sig.add(((uint64_t)s.op << 32) ^ ((uint64_t)(s.a & 0xffff) << 16) ^ (uint64_t)(s.b & 0xffff));
    }
    for (auto &m : w.mainprog)
        sig.add(0xEE000000ULL + ((uint64_t)m.when << 40) + ((uint64_t)m.s.op << 32) + ((uint64_t)(m.s.a & 0xffff) << 16) + (uint64_t)(m.s.b & 0xffff) + ((uint64_t)m.dyn << 48));
}

void finish_case(World &w, const char *mode) {
    vh::Sig sig; sign(sig, w);
    sig.add(std::string(mode));
    bool nontrivial = w.blocked_routines >= 2 && w.prim_wakeups >= 1;
    if (w.exhaustive) nontrivial = w.blocked_routines >= 1 && w.prim_wakeups >= 1;
    vh::note_case(sig.h, nontrivial);
    vh::counter("trace_events", w.ev.size());
    if (nontrivial && vh::want_sample()) {
        std::string t = w.trace_text(w.ev.size());
        vh::sample("{\"scripts\":" + vh::jstr(w.script_text().substr(0, 1500)) + ",\"trace\":" + vh::jstr(t.substr(0, 1800)) + "}");
    }
}

void random_case(uint64_t, vh::Rng &r) {
    World w;
    w.rng = &r;
    w.stack_size = (size_t)vh::st().args.num("stack", 0);
    static const int theme_tab[] = {0, 0, 0, 0, 0, 0, 1, 1, 1, 2, 2, 2, 3, 3, 3, 4, 4, 5, 5, 6};
    long forced = vh::st().args.num("theme", -1);
    const int theme = forced >= 0 ? (int)forced : r.pick(theme_tab);
    vh::counter(vh::fmt("theme_%d_cases", theme));
    const bool themed = theme != 0;
    int nch = themed ? 1 : 1 + (int)r.below(2), nmx = themed ? 1 : 1 + (int)r.below(2);
    int nsem = themed ? 1 : 1 + (int)r.below(2);
    std::vector<int> sems;
    for (int i = 0; i < nsem; ++i) sems.push_back((int)r.below(theme == 3 ? 2 : 3));
    int ninit = 2 + (int)r.below(4);                 // 2..5 initial routines
    if (r.chance(1, 12)) ninit = 1;
    int nchild = (theme == 5) ? 1 + (int)r.below(3) : (r.chance(1, 3) ? 1 + (int)r.below(2) : 0);
    if (ninit + nchild > kMaxRoutines) nchild = kMaxRoutines - ninit;
    const int nrt = ninit + nchild;
    int ncond = 1 + (int)r.below(2);
    std::vector<int> call, owners;
    for (int i = 0; i < ncond; ++i) { call.push_back((int)r.below(2)); owners.push_back((int)r.below(nrt)); }
    w.build(nch, nmx, sems, 1, call, owners);

    const Weights WT = theme_weights(theme), WM = mixed_weights();
    int next_child = ninit;
    w.scripts.resize(nrt);
    for (int i = 0; i < nrt; ++i) {
        Script &sc = w.scripts[i];
        sc.initial = i < ninit;
        sc.run_now = !r.chance(1, 6);
        sc.raii = !r.chance(1, 4);
        sc.heed = !r.chance(1, 4);
        int len = 1 + (int)r.below(themed ? 6 : 8);
        std::vector<Step> &st = sc.steps;
        std::vector<Step> pending_unlock;       // (step, remaining distance)
        while ((int)st.size() < len) {
            Op op = pick_op(r, (themed && !r.chance(1, 5)) ? WT : WM);
            Step s{op, 0, 0};
            switch (op) {
                case SEND: s.a = (int)r.below(nch); s.b = r.chance(1, 3) ? 2 + (int)r.below(2) : 1; break;
                case RECV: s.a = (int)r.below(nch); break;
                case LOCK: case UNLOCK: s.a = (int)r.below(nmx); break;
                case ACQ: case REL: s.a = (int)r.below(nsem); break;
                case BWAIT: case BPOST: s.a = 0; break;
                case CPOST: s.a = (int)r.below(ncond); s.b = (int)r.below(3); break;
                case CADD: case CWAIT: {
                    // only the designated waiter adds and waits (Condition supports one waiter); others post instead
                    std::vector<int> mine;
                    for (int c = 0; c < ncond; ++c) if (owners[c] == i) mine.push_back(c);
                    if (mine.empty()) { s.op = CPOST; s.a = (int)r.below(ncond); s.b = (int)r.below(3); break; }
                    s.a = mine[r.below(mine.size())];
                    if (op == CADD) { s.b = (int)r.below(3); break; }
                    if (r.chance(1, 4)) break;      // a bare wait(): whatever was added earlier (possibly nothing)
                    int nadd = 1 + (int)r.below(2);
                    int v0 = (int)r.below(3);
                    for (int k = 0; k < nadd; ++k) st.push_back(Step{CADD, s.a, (v0 + k) % 3});
                    // the window between add() and wait(): the waiter gives up the CPU 0-2 times, so posts can land in it
                    int gap = r.chance(1, 3) ? 0 : 1 + (int)r.below(2);
                    for (int k = 0; k < gap; ++k) {
                        unsigned g = (unsigned)r.below(10);
                        if (g < 6) st.push_back(Step{YIELD, 0, 0});
                        else if (g < 7) st.push_back(Step{WAIT, 0, 0});
                        else if (g < 8) st.push_back(Step{RECV, (int)r.below(nch), 0});
                        else if (g < 9) st.push_back(Step{ACQ, (int)r.below(nsem), 0});
                        else st.push_back(Step{CPOST, s.a, (v0 + (int)r.below(2)) % 3});
                    }
                    break;
                }
                case JOIN:      // joining oneself can only dead-lock: treated as misuse, not generated
                    s.a = (int)r.below(nrt);
                    if (s.a == i) s.a = (i + 1) % nrt;
                    if (s.a == i) s.op = YIELD;
                    break;
                case CANCEL: case RESUME: s.a = (int)r.below(nrt); break;
                case CREATE:
                    if (next_child < nrt) s.a = next_child++;
                    else s.op = YIELD;
                    break;
                default: break;
            }
            st.push_back(s);
            if (s.op == LOCK && !r.chance(1, 6)) {
                int gap = (int)r.below(3);
                for (int k = 0; k < gap; ++k) {
                    Op o2 = pick_op(r, (themed && !r.chance(1, 4)) ? WT : WM);
                    if (o2 == YIELD || o2 == WAIT) st.push_back(Step{o2, 0, 0});
                    else if (o2 == RECV) st.push_back(Step{RECV, (int)r.below(nch), 0});
                    else if (o2 == SEND) st.push_back(Step{SEND, (int)r.below(nch), 1});
                    else if (o2 == ACQ) st.push_back(Step{ACQ, (int)r.below(nsem), 0});
                    else if (o2 == LOCK) st.push_back(Step{LOCK, (int)r.below(nmx), 0});
                    else st.push_back(Step{YIELD, 0, 0});
                }
                st.push_back(Step{UNLOCK, s.a, 0});
            }
        }
    }
    // main program
    int nact = (int)r.below(7);
    for (int k = 0; k < nact; ++k) {
        MainStep m; m.dyn = false;
        unsigned x = (unsigned)r.below(10);
        m.when = x < 5 ? W_IDLE : x < 8 ? W_PASS : W_NOW;
        unsigned y = (unsigned)r.below(100);
        Step s{NOP, 0, (int)r.below(3)};
        if (y < 30) { s.op = RESUME; s.a = (int)r.below(nrt); m.dyn = r.chance(3, 5); }
        else if (y < 42) { s.op = CANCEL; s.a = (int)r.below(nrt); }
        else if (y < 57) { s.op = SEND; s.a = (int)r.below(nch); s.b = 1 + (int)r.below(2); }
        else if (y < 67) { s.op = REL; s.a = (int)r.below(nsem); }
        else if (y < 75) { s.op = BPOST; s.a = 0; }
        else if (y < 82) { s.op = CPOST; s.a = (int)r.below(ncond); s.b = (int)r.below(3); }
        else if (y < 90) { if (next_child < nrt) { s.op = CREATE; s.a = next_child++; } }
        m.s = s;
        w.mainprog.push_back(m);
    }
    {
        MainStep c; c.dyn = false; c.s = Step{CLEANUP, 0, (int)r.below(3)};
        unsigned x = (unsigned)r.below(20);
        c.when = x < 12 ? W_IDLE : x < 17 ? W_PASS : W_NOW;
        w.mainprog.push_back(c);
    }
    w.run(r.chance(1, 2));
    finish_case(w, "random");
}

// ---- exhaustive: every combination of <= 3 routines x 1..depth steps over a 3-letter alphabet ------
uint64_t scripts_per_routine(int depth) { uint64_t n = 0, p = 1; for (int i = 0; i < depth; ++i) { p *= 3; n += p; } return n; }   // 39 for depth 3
uint64_t per_alphabet(int depth) { uint64_t k = scripts_per_routine(depth); return k + k * k + k * k * k; }                    // 60879
uint64_t exhaustive_total(int depth) { return 3 * per_alphabet(depth); }                                                      // 182637

void decode_script(uint64_t k, const Op alpha[3], std::vector<Step> &out) {
    int len = 1; uint64_t p = 3;
    while (k >= p) { k -= p; p *= 3; ++len; }
    for (int i = 0; i < len; ++i) { out.push_back(Step{alpha[k % 3], 0, 1}); k /= 3; }
}

void exhaustive_case(uint64_t idx, vh::Rng &r) {
    static const Op alphas[3][3] = {{SEND, RECV, YIELD}, {LOCK, UNLOCK, YIELD}, {ACQ, REL, YIELD}};
    const int depth = (int)vh::st().args.num("depth", 3);
    const uint64_t K = scripts_per_routine(depth), PA = per_alphabet(depth);
    if (idx >= 3 * PA) return;
    World w;
    w.rng = &r;
    w.exhaustive = true;
    w.stack_size = (size_t)vh::st().args.num("stack", 0);
    const int al = (int)(idx / PA);
    uint64_t rem = idx % PA;
    int n; uint64_t code;
    if (rem < K) { n = 1; code = rem; }
    else if (rem < K + K * K) { n = 2; code = rem - K; }
    else { n = 3; code = rem - K - K * K; }
    w.build(1, 1, std::vector<int>{0}, 1, std::vector<int>{}, std::vector<int>{});
    w.scripts.resize(n);
    for (int i = 0; i < n; ++i) {
        decode_script(code % K, alphas[al], w.scripts[i].steps);
        code /= K;
        w.scripts[i].raii = false;
    }
    vh::counter(vh::fmt("exhaustive_alphabet_%d_cases", al));
    w.run(false);
    finish_case(w, "exhaustive");
}

// ---- exhaustive-cond: one Condition (All / Any); the waiter r0 runs every script of 1-4 steps over
// {add 1, add 2, wait, yield}; 0-2 posters run every script of 1-2 steps over {post 1, post 2, yield} -------------
constexpr uint64_t kCondWaiterScripts = 4 + 16 + 64 + 256;      // 340
constexpr uint64_t kCondPosterScripts = 3 + 9;                  // 12
constexpr uint64_t kCondPosterCombos = 1 + kCondPosterScripts + kCondPosterScripts * kCondPosterScripts;   // 157
constexpr uint64_t kCondTotal = 2 * kCondWaiterScripts * kCondPosterCombos;                                // 106760

void decode_n(uint64_t k, const Step *alpha, uint64_t n, std::vector<Step> &out) {
    int len = 1; uint64_t p = n;
    while (k >= p) { k -= p; p *= n; ++len; }
    for (int i = 0; i < len; ++i) { out.push_back(alpha[k % n]); k /= n; }
}

void exhaustive_cond_case(uint64_t idx, vh::Rng &r) {
    static const Step wa[4] = {{CADD, 0, 1}, {CADD, 0, 2}, {CWAIT, 0, 0}, {YIELD, 0, 0}};
    static const Step pa[3] = {{CPOST, 0, 1}, {CPOST, 0, 2}, {YIELD, 0, 0}};
    if (idx >= kCondTotal) return;
    World w;
    w.rng = &r;
    w.exhaustive = true;
    w.stack_size = (size_t)vh::st().args.num("stack", 0);
    const int all = (int)(idx / (kCondWaiterScripts * kCondPosterCombos));
    uint64_t rem = idx % (kCondWaiterScripts * kCondPosterCombos);
    const uint64_t ws = rem / kCondPosterCombos;
    uint64_t pc = rem % kCondPosterCombos;
    w.build(1, 1, std::vector<int>{0}, 1, std::vector<int>{all}, std::vector<int>{0});
    int np = pc == 0 ? 0 : pc <= kCondPosterScripts ? 1 : 2;
    w.scripts.resize(1 + np);
    decode_n(ws, wa, 4, w.scripts[0].steps);
    if (np == 1) decode_n(pc - 1, pa, 3, w.scripts[1].steps);
    if (np == 2) {
        pc -= 1 + kCondPosterScripts;
        decode_n(pc % kCondPosterScripts, pa, 3, w.scripts[1].steps);
        decode_n(pc / kCondPosterScripts, pa, 3, w.scripts[2].steps);
    }
    vh::counter(all ? "exhaustive_cond_all_cases" : "exhaustive_cond_any_cases");
    w.run(false);
    finish_case(w, "exhaustive-cond");
}

// ---- directed: the histories the unit tests never choose --------------------------------------------
struct Directed {
    const char *name;
    int nch, nmx; std::vector<int> sems; int nbc; std::vector<int> conds_all, owners;
    std::vector<Script> scripts;
    std::vector<MainStep> mainprog;
};

Script S(std::initializer_list<Step> steps, bool run_now = true, bool initial = true, bool raii = true) {
    Script s; s.steps = steps; s.run_now = run_now; s.initial = initial; s.raii = raii; return s;
}
MainStep M(When w, Op op, int a = 0, int b = 1) { MainStep m; m.when = w; m.s = Step{op, a, b}; m.dyn = false; return m; }

const std::vector<Directed> &directed_table() {
    static std::vector<Directed> T;
    if (!T.empty()) return T;
    const Step Y{YIELD, 0, 0}, Wt{WAIT, 0, 0};
    // channel
    T.push_back({"chan: two receivers, two back-to-back sends", 1, 1, {0}, 1, {}, {},
                 {S({{RECV, 0, 0}}), S({{RECV, 0, 0}}), S({Y, {SEND, 0, 2}})}, {}});
    T.push_back({"chan: woken receiver loses the value to a receiver that never waited", 1, 1, {0}, 1, {}, {},
                 {S({{RECV, 0, 0}}), S({{SEND, 0, 1}, Y, Y, {SEND, 0, 1}}), S({{RECV, 0, 0}})}, {}});
    T.push_back({"chan: cancelled receiver, then a send while another receiver waits", 1, 1, {0}, 1, {}, {},
                 {S({{RECV, 0, 0}}), S({{RECV, 0, 0}})}, {M(W_IDLE, CANCEL, 0), M(W_IDLE, SEND, 0, 1)}});
    T.push_back({"chan: producer/consumer in order, sends from main", 1, 1, {0}, 1, {}, {},
                 {S({{RECV, 0, 0}, {RECV, 0, 0}, {RECV, 0, 0}}), S({{SEND, 0, 2}, Y, {SEND, 0, 1}})}, {M(W_IDLE, SEND, 0, 2)}});
    // mutex
    T.push_back({"mutex: holder re-acquires before the woken waiter runs", 1, 1, {0}, 1, {}, {},
                 {S({{LOCK, 0, 0}, Y, {UNLOCK, 0, 0}, {LOCK, 0, 0}, Y, Y, {UNLOCK, 0, 0}}), S({{LOCK, 0, 0}, {UNLOCK, 0, 0}})}, {}});
    T.push_back({"mutex: cancelled waiter, then unlock while another waiter waits", 1, 1, {0}, 1, {}, {},
                 {S({{LOCK, 0, 0}, Wt, {UNLOCK, 0, 0}}), S({{LOCK, 0, 0}, {UNLOCK, 0, 0}}), S({{LOCK, 0, 0}, {UNLOCK, 0, 0}})},
                 {M(W_IDLE, CANCEL, 1), M(W_IDLE, RESUME, 0)}});
    T.push_back({"mutex: three contenders take turns", 1, 1, {0}, 1, {}, {},
                 {S({{LOCK, 0, 0}, Y, {UNLOCK, 0, 0}}), S({{LOCK, 0, 0}, Y, {UNLOCK, 0, 0}}), S({{LOCK, 0, 0}, Y, {UNLOCK, 0, 0}})}, {}});
    // semaphore
    T.push_back({"sem: two waiters, two back-to-back releases", 1, 1, {0}, 1, {}, {},
                 {S({{ACQ, 0, 0}}), S({{ACQ, 0, 0}}), S({Y, {REL, 0, 0}, {REL, 0, 0}})}, {}});
    T.push_back({"sem: woken waiter loses the unit to an acquirer that never waited", 1, 1, {0}, 1, {}, {},
                 {S({{ACQ, 0, 0}}), S({{REL, 0, 0}, Y, Y, {REL, 0, 0}}), S({{ACQ, 0, 0}})}, {}});
    T.push_back({"sem: cancelled waiter, then a release from main while another waiter waits", 1, 1, {0}, 1, {}, {},
                 {S({{ACQ, 0, 0}}), S({{ACQ, 0, 0}})}, {M(W_IDLE, CANCEL, 0), M(W_IDLE, REL, 0)}});
    T.push_back({"sem: initial count two, three acquirers", 1, 1, {2}, 1, {}, {},
                 {S({{ACQ, 0, 0}, Y, {REL, 0, 0}}), S({{ACQ, 0, 0}, Y, {REL, 0, 0}}), S({{ACQ, 0, 0}, Y, {REL, 0, 0}})}, {}});
    // broadcast / condition
    T.push_back({"bcast: three waiters, one post from a routine, one from main", 1, 1, {0}, 1, {}, {},
                 {S({{BWAIT, 0, 0}, {BWAIT, 0, 0}}), S({{BWAIT, 0, 0}}), S({{BWAIT, 0, 0}}), S({Y, {BPOST, 0, 0}})}, {M(W_IDLE, BPOST, 0)}});
    T.push_back({"cond: All of two, posted by two routines; Any of two, posted from main", 1, 1, {0}, 1, {1, 0}, {0, 1},
                 {S({{CADD, 0, 1}, {CADD, 0, 2}, {CWAIT, 0, 0}}), S({{CADD, 1, 0}, {CADD, 1, 1}, {CWAIT, 1, 0}}), S({Y, {CPOST, 0, 1}}), S({Y, Y, {CPOST, 0, 2}})},
                 {M(W_IDLE, CPOST, 1, 1)}});
    // join / create / cancel / cleanup
    T.push_back({"join: parent creates a child and joins it; a second joiner is refused", 1, 1, {0}, 1, {}, {},
                 {S({{CREATE, 2, 0}, {JOIN, 2, 0}}), S({Y, {JOIN, 2, 0}}), S({Y, Y, Y}, true, false)}, {}});
    T.push_back({"join: target cancelled while joined; joiner of an already finished routine", 1, 1, {0}, 1, {}, {},
                 {S({{JOIN, 1, 0}}), S({Wt, Y}), S({Wt, {JOIN, 1, 0}})}, {M(W_IDLE, CANCEL, 1), M(W_IDLE, RESUME, 2)}});
    T.push_back({"join: joiner resumed by main while its target is still running", 1, 1, {0}, 1, {}, {},
                 {S({{JOIN, 1, 0}}), S({Wt})}, {M(W_IDLE, RESUME, 0), M(W_IDLE, RESUME, 1)}});
    T.push_back({"cancel: one routine blocked in each kind of call, each cancelled", 1, 1, {0}, 1, {0}, {4},
                 {S({{LOCK, 0, 0}, Wt}), S({{RECV, 0, 0}}), S({{LOCK, 0, 0}}), S({{ACQ, 0, 0}}), S({{CADD, 0, 1}, {CWAIT, 0, 0}}), S({{BWAIT, 0, 0}}), S({{JOIN, 0, 0}})},
                 {M(W_IDLE, CANCEL, 1), M(W_NOW, CANCEL, 2), M(W_NOW, CANCEL, 3), M(W_IDLE, CANCEL, 4), M(W_PASS, CANCEL, 5), M(W_NOW, CANCEL, 6), M(W_IDLE, CANCEL, 0)}});
    T.push_back({"cleanup: blocked in every kind of call, one unstarted, one ready", 1, 1, {0}, 1, {0}, {4},
                 {S({{LOCK, 0, 0}, Wt}), S({{RECV, 0, 0}}), S({{LOCK, 0, 0}}), S({{ACQ, 0, 0}}), S({{CADD, 0, 1}, {CWAIT, 0, 0}}), S({{BWAIT, 0, 0}}), S({{JOIN, 0, 0}}), S({Y}, false)},
                 {M(W_IDLE, CLEANUP)}});
    T.push_back({"cleanup: immediately after creation, nothing has run", 1, 1, {0}, 1, {}, {},
                 {S({{RECV, 0, 0}}), S({Y, Y}), S({Wt}, false)}, {M(W_NOW, CLEANUP)}});
    T.push_back({"wait/resume: resume from a routine and from main, yield ping-pong", 1, 1, {0}, 1, {}, {},
                 {S({Wt, Y, Wt}), S({Y, {RESUME, 0, 0}, Y, Y})}, {M(W_IDLE, RESUME, 0)}});
    // condition: posts that land between add() and wait() must be remembered
    T.push_back({"cond All: first condition posted between add() and wait(), the last one while the waiter is suspended", 1, 1, {0}, 1, {1}, {0},
                 {S({{CADD, 0, 1}, {CADD, 0, 2}, Y, {CWAIT, 0, 0}}), S({{CPOST, 0, 1}}), S({Y, Y, {CPOST, 0, 2}})}, {}});
    T.push_back({"cond Any: the only post lands between add() and wait(); wait() must not block", 1, 1, {0}, 1, {0}, {0},
                 {S({{CADD, 0, 1}, {CADD, 0, 2}, Y, {CWAIT, 0, 0}, Y}), S({{CPOST, 0, 2}})}, {}});
    T.push_back({"cond All: early post from the main context, waiter parked in wait() in between, last post from main", 1, 1, {0}, 1, {1}, {0},
                 {S({{CADD, 0, 0}, {CADD, 0, 1}, Wt, {CWAIT, 0, 0}})}, {M(W_IDLE, CPOST, 0, 0), M(W_NOW, RESUME, 0), M(W_IDLE, CPOST, 0, 1)}});
    T.push_back({"cond All: every condition posted before wait(); wait() must not block", 1, 1, {0}, 1, {1}, {0},
                 {S({{CADD, 0, 1}, {CADD, 0, 2}, Y, Y, {CWAIT, 0, 0}, Y}), S({{CPOST, 0, 2}, Y, {CPOST, 0, 1}})}, {}});
    return T;
}

void directed_case(uint64_t idx, vh::Rng &r) {
    const auto &T = directed_table();
    const Directed &d = T[idx % T.size()];
    World w;
    w.rng = &r;
    w.stack_size = (size_t)vh::st().args.num("stack", 0);
    w.build(d.nch, d.nmx, d.sems, d.nbc, d.conds_all, d.owners);
    w.scripts = d.scripts;
    w.mainprog = d.mainprog;
    w.run((idx / T.size()) % 2 == 1);
    vh::counter("directed_cases");
    vh::Sig sig; sign(sig, w); sig.add(std::string(d.name)); sig.add((idx / T.size()) % 2);
    vh::note_case(sig.h, true);
    if (vh::st().args.verbose) fprintf(stderr, "directed[%llu] %s\n%s%s\n", (unsigned long long)idx, d.name, w.script_text().c_str(), w.trace_text(w.ev.size()).c_str());
}

}  // namespace

int main(int argc, char **argv) {
    vh::parse_args(argc, argv);
    const std::string mode = vh::st().args.mode;
    if (mode == "ccount") { printf("%llu\n", (unsigned long long)kCondTotal); return 0; }
    if (mode == "exhaustive-cond") return vh::run(argc, argv, exhaustive_cond_case);
    if (mode == "xcount") { printf("%llu\n", (unsigned long long)exhaustive_total((int)vh::st().args.num("depth", 3))); return 0; }
    if (mode == "dcount") { printf("%zu\n", directed_table().size() * 2); return 0; }
    if (mode.compare(0, 10, "exhaustive") == 0) return vh::run(argc, argv, exhaustive_case);   // "exhaustive", "exhaustive4"
    if (mode == "directed") return vh::run(argc, argv, directed_case);
    return vh::run(argc, argv, random_case);
}
