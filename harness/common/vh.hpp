// Harness kit: seeded RNG, case framing, JSON-lines reporting, progress file, counters.
// Every harness: `prog --seed S --first I --count N [--mode M] [--out DIR] [--progress FILE] [--verbose]`
// Case i is derived from splitmix64(S, i) only, so a case is reproducible from two integers.
#ifndef VERIF_VH_HPP
#define VERIF_VH_HPP

#include <cstdint>
#include <cstdio>
#include <cstdlib>
#include <cstring>
#include <cstdarg>
#include <string>
#include <vector>
#include <map>
#include <set>
#include <unordered_set>
#include <functional>
#include <sstream>
#include <sys/mman.h>
#include <sys/stat.h>
#include <fcntl.h>
#include <unistd.h>
#include <pthread.h>
#include <time.h>

namespace vh {

inline uint64_t splitmix64(uint64_t &x) {
    uint64_t z = (x += 0x9e3779b97f4a7c15ULL);
    z = (z ^ (z >> 30)) * 0xbf58476d1ce4e5b9ULL;
    z = (z ^ (z >> 27)) * 0x94d049bb133111ebULL;
    return z ^ (z >> 31);
}

inline uint64_t mix(uint64_t a, uint64_t b) {
    uint64_t x = a ^ (b * 0x9e3779b97f4a7c15ULL + 0x7f4a7c15ULL);
    return splitmix64(x);
}

struct Rng {
    uint64_t s;
    explicit Rng(uint64_t seed = 1) : s(seed) {}
    uint64_t next() { return splitmix64(s); }
    //! uniform in [0, n)
    uint64_t below(uint64_t n) { return n ? next() % n : 0; }
    //! uniform in [lo, hi]
    int64_t range(int64_t lo, int64_t hi) { return lo + (int64_t)below((uint64_t)(hi - lo + 1)); }
    bool chance(unsigned num, unsigned den) { return below(den) < num; }
    template <typename T> const T &pick(const std::vector<T> &v) { return v[below(v.size())]; }
    template <typename T, size_t N> const T &pick(const T (&a)[N]) { return a[below(N)]; }
    uint8_t byte() { return (uint8_t)next(); }
    std::string bytes(size_t n) { std::string r(n, '\0'); for (auto &c : r) c = (char)byte(); return r; }
};

//! FNV-style running signature hasher
struct Sig {
    uint64_t h = 0xcbf29ce484222325ULL;
    void add(uint64_t v) { h = mix(h, v); }
    void add(const std::string &s) { for (unsigned char c : s) { h ^= c; h *= 0x100000001b3ULL; } add(s.size()); }
};

inline std::string jstr(const std::string &s) {
    std::string o = "\"";
    char b[8];
    for (unsigned char c : s) {
        if (c == '"') o += "\\\"";
        else if (c == '\\') o += "\\\\";
        else if (c == '\n') o += "\\n";
        else if (c == '\r') o += "\\r";
        else if (c == '\t') o += "\\t";
        else if (c < 0x20 || c >= 0x7f) { snprintf(b, sizeof b, "\\u%04x", c); o += b; }
        else o += (char)c;
    }
    return o + "\"";
}

inline std::string hex(const void *p, size_t n) {
    static const char *d = "0123456789abcdef";
    std::string o; o.reserve(n * 2);
    auto *b = static_cast<const unsigned char *>(p);
    for (size_t i = 0; i < n; ++i) { o += d[b[i] >> 4]; o += d[b[i] & 15]; }
    return o;
}
inline std::string hex(const std::string &s) { return hex(s.data(), s.size()); }

inline std::string fmt(const char *f, ...) __attribute__((format(printf, 1, 2)));
inline std::string fmt(const char *f, ...) {
    va_list ap; va_start(ap, f);
    char buf[4096];
    int n = vsnprintf(buf, sizeof buf, f, ap);
    va_end(ap);
    if (n < 0) return "";
    if ((size_t)n < sizeof buf) return std::string(buf, n);
    std::string r(n + 1, '\0');
    va_start(ap, f); vsnprintf(&r[0], r.size(), f, ap); va_end(ap);
    r.resize(n);
    return r;
}

struct Args {
    uint64_t seed = 20261002;
    uint64_t first = 0;
    uint64_t count = 1;
    std::string mode;
    std::string out;
    std::string progress;
    bool verbose = false;
    std::map<std::string, std::string> extra;
    long num(const std::string &k, long dflt) const {
        auto it = extra.find(k); return it == extra.end() ? dflt : atol(it->second.c_str());
    }
    std::string str(const std::string &k, const std::string &dflt = "") const {
        auto it = extra.find(k); return it == extra.end() ? dflt : it->second;
    }
};

struct State {
    Args args;
    volatile uint64_t *progress = nullptr;   //! [0]=current case, [1]=cases finished
    uint64_t cur_case = 0;
    uint64_t cases = 0, nontrivial = 0, violations = 0;
    std::unordered_set<uint64_t> sigs;
    size_t sig_cap = 200000;
    std::map<std::string, uint64_t> counters;
    std::map<std::string, int> viol_per_key;
    int samples = 0;
    std::string case_desc;    //! optional textual description of the current case (for witnesses)
};

inline State &st() { static State s; return s; }

inline void prog_store(int i, uint64_t v) { if (st().progress) __atomic_store_n(const_cast<uint64_t *>(st().progress) + i, v, __ATOMIC_RELAXED); }
inline uint64_t prog_load(volatile uint64_t *p, int i) { return __atomic_load_n(const_cast<uint64_t *>(p) + i, __ATOMIC_RELAXED); }

inline void counter(const std::string &name, uint64_t inc = 1) { st().counters[name] += inc; }
inline void counter_max(const std::string &name, uint64_t v) { auto &c = st().counters[name]; if (v > c) c = v; }

//! report a violation. key: stable `<monitor>/<site>/<class>` (the driver prefixes the property id)
inline void viol(const std::string &key, const std::string &detail) {
    State &s = st();
    ++s.violations;
    int &n = s.viol_per_key[key];
    if (++n > 3) return;
    printf("{\"t\":\"viol\",\"key\":%s,\"case\":%llu,\"seed\":%llu,\"mode\":%s,\"detail\":%s,\"desc\":%s}\n",
           jstr(key).c_str(), (unsigned long long)s.cur_case, (unsigned long long)s.args.seed,
           jstr(s.args.mode).c_str(), jstr(detail).c_str(), jstr(s.case_desc.substr(0, 6000)).c_str());
    fflush(stdout);
}

#define VH_CHECK(cond, key, ...) do { if (!(cond)) ::vh::viol((key), ::vh::fmt(__VA_ARGS__)); } while (0)

//! record the signature of a finished case and whether it was non-trivial by the harness's rule
inline void note_case(uint64_t sig, bool nontrivial) {
    State &s = st();
    if (nontrivial) {
        ++s.nontrivial;
        if (s.sigs.size() < s.sig_cap) s.sigs.insert(sig);
    }
}

//! emit an actual case as a sample (first few only); json must be a valid JSON value
inline void sample(const std::string &json, int max_samples = 3) {
    State &s = st();
    if (s.samples >= max_samples) return;
    ++s.samples;
    printf("{\"t\":\"sample\",\"case\":%llu,\"v\":%s}\n", (unsigned long long)s.cur_case, json.c_str());
}
inline bool want_sample(int max_samples = 3) { return st().samples < max_samples; }

inline void parse_args(int argc, char **argv) {
    Args &a = st().args;
    for (int i = 1; i < argc; ++i) {
        std::string k = argv[i];
        auto val = [&]() -> std::string { return (i + 1 < argc) ? argv[++i] : ""; };
        if (k == "--seed") a.seed = strtoull(val().c_str(), nullptr, 0);
        else if (k == "--first") a.first = strtoull(val().c_str(), nullptr, 0);
        else if (k == "--count") a.count = strtoull(val().c_str(), nullptr, 0);
        else if (k == "--mode") a.mode = val();
        else if (k == "--out") a.out = val();
        else if (k == "--progress") a.progress = val();
        else if (k == "--verbose") a.verbose = true;
        else if (k.size() > 2 && k[0] == '-' && k[1] == '-') a.extra[k.substr(2)] = val();
    }
    if (!a.progress.empty()) {
        int fd = open(a.progress.c_str(), O_RDWR | O_CREAT, 0644);
        if (fd >= 0) {
            if (ftruncate(fd, 16) == 0) {
                void *p = mmap(nullptr, 16, PROT_READ | PROT_WRITE, MAP_SHARED, fd, 0);
                if (p != MAP_FAILED) st().progress = static_cast<volatile uint64_t *>(p);
            }
            close(fd);
        }
    }
}

inline void begin_case(uint64_t idx) {
    State &s = st();
    s.cur_case = idx;
    s.case_desc.clear();
    prog_store(0, idx);
}
inline void end_case() {
    State &s = st();
    ++s.cases;
    prog_store(1, s.cases);
}

inline void finish() {
    State &s = st();
    std::string c = "{";
    bool first = true;
    for (auto &kv : s.counters) {
        if (!first) c += ",";
        first = false;
        c += jstr(kv.first) + ":" + std::to_string(kv.second);
    }
    c += "}";
    if (!s.args.out.empty()) {
        std::string p = s.args.out + "/sigs." + s.args.mode + "." + std::to_string(s.args.first) + ".bin";
        FILE *f = fopen(p.c_str(), "wb");
        if (f) { for (auto v : s.sigs) fwrite(&v, 8, 1, f); fclose(f); }
    }
    printf("{\"t\":\"summary\",\"mode\":%s,\"first\":%llu,\"cases\":%llu,\"nontrivial\":%llu,\"distinct\":%llu,\"violations\":%llu,\"counters\":%s}\n",
           jstr(s.args.mode).c_str(), (unsigned long long)s.args.first, (unsigned long long)s.cases,
           (unsigned long long)s.nontrivial, (unsigned long long)s.sigs.size(),
           (unsigned long long)s.violations, c.c_str());
    fflush(stdout);
}

//! In-process watchdog: if one case does not finish within --watchdog seconds (default 300; 0 = off) the
//! process prints a marker and exits with code 97. The runner then re-runs that single case alone in a
//! fresh process before anything is reported (a wall-clock expiry alone proves nothing).
struct WdArg { volatile uint64_t *progress; long limit; };
inline void *watchdog_main(void *argp) {
    WdArg *a = static_cast<WdArg *>(argp);      // never touches vh::State: no races with the harness
    volatile uint64_t *pr = a->progress;
    long limit = a->limit;
    uint64_t last_done = prog_load(pr, 1), last_case = prog_load(pr, 0);
    long idle = 0;
    for (;;) {
        struct timespec ts = {1, 0};
        nanosleep(&ts, nullptr);
        uint64_t d = prog_load(pr, 1), c = prog_load(pr, 0);
        if (d != last_done || c != last_case) { last_done = d; last_case = c; idle = 0; continue; }
        if (++idle >= limit) {
            char buf[128];
            int n = snprintf(buf, sizeof buf, "\nVH-WATCHDOG case=%llu idle=%lds\n", (unsigned long long)c, idle);
            if (write(2, buf, n) < 0) {}
            _exit(97);
        }
    }
    return nullptr;
}
inline void start_watchdog() {
    long limit = st().args.num("watchdog", 300);
    if (limit <= 0 || !st().progress) return;
    static WdArg arg;
    arg.progress = st().progress; arg.limit = limit;
    pthread_t t;
    pthread_attr_t a;
    pthread_attr_init(&a);
    pthread_attr_setdetachstate(&a, PTHREAD_CREATE_DETACHED);
    pthread_create(&t, &a, watchdog_main, &arg);
    pthread_attr_destroy(&a);
}

//! Fail-fast on a violating tree (never triggers where nothing is reported): a shard stops after
//! --max-viol-cases (default 10) cases that reported something, and once any shard of the leg has reported,
//! the others stop --viol-grace seconds (default 15) later. The leg is then decided by what was reported; the
//! driver does not call an unfinished leg "inconclusive" when it has violations.
inline double mono_now() { struct timespec ts; clock_gettime(CLOCK_MONOTONIC_COARSE, &ts); return ts.tv_sec + ts.tv_nsec * 1e-9; }

//! standard driver: runs one_case(idx, rng) for idx in [first, first+count)
inline int run(int argc, char **argv, const std::function<void(uint64_t, Rng &)> &one_case) {
    parse_args(argc, argv);
    Args &a = st().args;
    prog_store(0, a.first); prog_store(1, 0);
    start_watchdog();
    const uint64_t max_viol_cases = (uint64_t)a.num("max-viol-cases", 10);
    const double grace = (double)a.num("viol-grace", 15);
    const std::string flag = a.out.empty() ? std::string() : a.out + "/VIOL_SEEN." + a.mode;
    uint64_t viol_cases = 0;
    double last_poll = mono_now(), flag_seen_at = -1;
    for (uint64_t i = a.first; i < a.first + a.count; ++i) {
        uint64_t v0 = st().violations;
        begin_case(i);
        Rng rng(mix(a.seed, i));
        one_case(i, rng);
        end_case();
        if (st().violations != v0) {
            if (++viol_cases == 1 && !flag.empty()) { int fd = open(flag.c_str(), O_WRONLY | O_CREAT, 0644); if (fd >= 0) close(fd); }
            if (max_viol_cases && viol_cases >= max_viol_cases) { counter("stopped_early_after_violations"); break; }
        }
        if (!flag.empty() && grace >= 0) {
            double now = mono_now();
            if (now - last_poll >= 0.5) {
                last_poll = now;
                if (flag_seen_at < 0 && access(flag.c_str(), F_OK) == 0) flag_seen_at = now;
                if (flag_seen_at >= 0 && now - flag_seen_at >= grace) { counter("stopped_early_after_violations"); break; }
            }
        }
    }
    finish();
    return 0;
}

}  // namespace vh

#endif
