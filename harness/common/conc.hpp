// Helpers for the concurrent harnesses: seeded delay injection at TBOX_VERIF_POINT sites,
// a global logical clock, thread ids.
#ifndef VERIF_CONC_HPP
#define VERIF_CONC_HPP

#include "vh.hpp"
#include <atomic>
#include <thread>
#include <chrono>
#include <mutex>
#include <sys/syscall.h>
#include <time.h>

namespace vc {

//! logical clock: one relaxed atomic counter shared by all recorders
inline std::atomic<uint64_t> &gclock() { static std::atomic<uint64_t> c{1}; return c; }
inline uint64_t tick() { return gclock().fetch_add(1, std::memory_order_relaxed); }

inline long gettid_() { return (long)syscall(SYS_gettid); }

struct DelayCfg {
    std::atomic<uint64_t> seed{0};
    std::atomic<int> prob_num{0};      //! out of 16: how often a point delays at all
    std::atomic<int> max_us{0};        //! delay 0..max_us microseconds (0 => yield only)
    std::atomic<uint64_t> hits{0};
    std::atomic<uint64_t> delays{0};
};
inline DelayCfg &dcfg() { static DelayCfg c; return c; }

inline void set_delays(uint64_t seed, int prob_num, int max_us) {
    dcfg().seed.store(seed); dcfg().prob_num.store(prob_num); dcfg().max_us.store(max_us);
}

inline void sleep_us(long us) {
    if (us <= 0) { std::this_thread::yield(); return; }
    struct timespec ts; ts.tv_sec = us / 1000000; ts.tv_nsec = (us % 1000000) * 1000;
    nanosleep(&ts, nullptr);
}

//! per-thread, per-call pseudo random decision (no shared mutable state besides counters)
inline void point(const char *name) {
    DelayCfg &c = dcfg();
    c.hits.fetch_add(1, std::memory_order_relaxed);
    int pn = c.prob_num.load(std::memory_order_relaxed);
    if (pn <= 0) return;
    static thread_local uint64_t ctr = 0;
    uint64_t h = 1469598103934665603ULL;
    for (const char *p = name; *p; ++p) { h ^= (unsigned char)*p; h *= 1099511628211ULL; }
    uint64_t x = vh::mix(c.seed.load(std::memory_order_relaxed) ^ h, (uint64_t)gettid_() * 1000003ULL + (++ctr));
    if ((int)(x & 15) >= pn) return;
    c.delays.fetch_add(1, std::memory_order_relaxed);
    int mx = c.max_us.load(std::memory_order_relaxed);
    long us = mx > 0 ? (long)((x >> 8) % (uint64_t)(mx + 1)) : 0;
    sleep_us(us);
}

}  // namespace vc

//! the weak symbol called by TBOX_VERIF_POINT in the library
#define VC_DEFINE_POINT() extern "C" void tbox_verif_point(const char *name) { ::vc::point(name); }

#endif
