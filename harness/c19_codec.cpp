// C19: codecs are exact bounded inverses; checksums, MD5, AES match the standards.
//
// The real cpp-tbox functions are run on generated inputs; every expected value comes from the
// python co-process lib/oracles/c19_ref.py (standard library base64/binascii/zlib/hashlib/struct/
// urllib + a FIPS-197 AES written for this task), never from code in this file.
// Inputs are handed over in exactly sized heap blocks (one byte of over-read is an ASan report),
// outputs are written into blocks surrounded by canary guard regions that are checked after every call
// (a write outside the capacity is a violation and the run goes on; far writes are ASan reports).
//
// modes: base64 hex scalable scalable-x serializer url digest md5split md5-huge
#include "common/vh.hpp"
#include "c19_support.hpp"

#include <tbox/util/base64.h>
#include <tbox/util/string.h>
#include <tbox/util/scalable_integer.h>
#include <tbox/util/serializer.h>
#include <tbox/util/crc.h>
#include <tbox/util/checksum.h>
#include <tbox/http/url.h>
#include <tbox/crypto/md5.h>
#include <tbox/crypto/aes.h>

#include <memory>
#include <exception>
#include <stdexcept>

using namespace c19;
namespace b64 = tbox::util::base64;
namespace tstr = tbox::util::string;
using tbox::util::Serializer;
using tbox::util::Deserializer;
using tbox::util::Endian;

namespace {

//! which byte values 0..255 were fed to a decoder (per process; reported as max_<codec>_decoder_byte_values, 256 = all)
struct ByteSet {
    bool seen[256]; unsigned n; const char *name;
    explicit ByteSet(const char *nm) : n(0), name(nm) { memset(seen, 0, sizeof seen); }
    void add(const std::string &s) {
        if (n == 256) return;
        for (unsigned char c : s) if (!seen[c]) { seen[c] = true; ++n; }
        vh::counter_max(name, n);
    }
};
ByteSet g_b64_bytes("max_b64_decoder_byte_values"), g_hex_bytes("max_hex_decoder_byte_values"),
        g_sint_bytes("max_sint_parser_byte_values"), g_url_bytes("max_url_decoder_byte_values");

//! evidence samples: one readable case per leg, taken from the first shard (the runner keeps six in all)
bool want1() { return vh::st().args.first == 0 && vh::st().samples < 1; }

// ---------------------------------------------------------------------------------------------
// byte-string generators
// ---------------------------------------------------------------------------------------------
std::string gen_bytes(vh::Rng &r, size_t n) {
    std::string s(n, '\0');
    switch (r.below(8)) {
        case 0: for (auto &c : s) c = (char)0x00; break;
        case 1: for (auto &c : s) c = (char)0xff; break;
        case 2: { uint8_t b = r.byte(); for (auto &c : s) c = (char)b++; break; }      // ascending: every value 0..255
        case 3: for (auto &c : s) c = (char)(0x80 | r.byte()); break;                   // high half only
        case 4: for (auto &c : s) c = (char)(0x20 + r.below(0x5f)); break;              // printable
        default: for (auto &c : s) c = (char)r.byte(); break;
    }
    return s;
}

size_t gen_len(vh::Rng &r, size_t small_max, size_t big_max) {
    switch (r.below(10)) {
        case 0: return 1 + r.below(4);
        case 1: case 2: case 3: return 1 + r.below(16);
        case 4: case 5: case 6: return 1 + r.below(small_max);
        case 7: { static const size_t edge[] = {47, 48, 49, 63, 64, 65, 255, 256, 257}; return r.pick(edge); }
        case 8: return 1 + r.below(small_max * 4);
        default: return r.chance(1, 12) ? 1 + r.below(big_max) : 1 + r.below(small_max);
    }
}

const char kB64Alphabet[] = "ABCDEFGHIJKLMNOPQRSTUVWXYZabcdefghijklmnopqrstuvwxyz0123456789+/";
bool in_b64_alphabet(unsigned char c) { return c < 0x80 && c != 0 && strchr(kB64Alphabet, c) != nullptr; }

// ---------------------------------------------------------------------------------------------
// base64
// ---------------------------------------------------------------------------------------------
void b64_decode_ptr_checked(const std::string &text, size_t cap, const std::string *expect /*null = only cleanliness*/,
                            bool must_fail, const char *what) {
    In in(text);
    Out out(cap);
    step("base64::Decode(ptr,len=%zu,cap=%zu) %s text=%s", text.size(), cap, what, show(text).c_str());
    size_t ret = b64::Decode((const char *)in.p, text.size(), out.p(), cap);
    out.check("base64-decode");
    VH_CHECK(ret <= cap, "base64/decode/returned-more-than-capacity", "%s: Decode returned %zu with capacity %zu, text=%s",
             what, ret, cap, show(text).c_str());
    if (must_fail) {
        VH_CHECK(ret == 0, "base64/decode/invalid-input-accepted", "%s: Decode returned %zu for text=%s (cap %zu)",
                 what, ret, show(text).c_str(), cap);
        return;
    }
    if (!expect) return;
    if (cap >= expect->size()) {
        if (ret != expect->size())
            vh::viol("base64/decode/wrong-size", vh::fmt("%s: Decode returned %zu, reference decodes %zu bytes, cap=%zu text=%s",
                                                       what, ret, expect->size(), cap, show(text).c_str()));
        else if (memcmp(out.p(), expect->data(), ret) != 0)
            vh::viol("base64/decode/wrong-bytes", vh::fmt("%s: got %s want %s text=%s", what,
                                                        show(std::string((char *)out.p(), ret)).c_str(), show(*expect).c_str(), show(text).c_str()));
    } else {
        VH_CHECK(ret == 0, "base64/decode/short-capacity-not-refused", "%s: capacity %zu < %zu needed but Decode returned %zu, text=%s",
                 what, cap, expect->size(), ret, show(text).c_str());
        vh::counter("b64_decode_short_cap_refused");
    }
}

void base64_case(uint64_t idx, vh::Rng &r) {
    vh::Sig sig;
    const unsigned kind = (unsigned)(idx % 4);     // 0,1: valid round trips; 2,3: hostile decoder input
    size_t n = gen_len(r, 90, 6000);
    std::string raw = gen_bytes(r, n);
    sig.add(kind); sig.add(raw);
    std::string ref_txt = refq("b64e " + H(raw));
    const size_t L = b64::EncodeLength(n);
    vh::st().case_desc = vh::fmt("base64 kind=%u raw[%zu]=%s", kind, n, show(raw).c_str());
    VH_CHECK(L == ref_txt.size(), "base64/encode-length/wrong", "EncodeLength(%zu)=%zu, reference text is %zu long", n, L, ref_txt.size());

    if (kind < 2) {
        // ---- encoders -------------------------------------------------------------------
        In in(raw);
        size_t caps[] = {L, L - 1, 1, L + 1, L + 1 + (size_t)r.below(40)};
        for (size_t cap : caps) {
            Out out(cap);
            step("base64::Encode(ptr,len=%zu,cap=%zu)", n, cap);
            size_t ret = b64::Encode(in.p, n, (char *)out.p(), cap);
            out.check("base64-encode");
            if (cap >= ref_txt.size()) {
                if (cap == L) vh::counter("b64_encode_exact_cap");
                if (ret != ref_txt.size())
                    vh::viol("base64/encode/wrong-size", vh::fmt("Encode returned %zu, reference %zu (cap %zu, raw %s)", ret, ref_txt.size(), cap, show(raw).c_str()));
                else if (memcmp(out.p(), ref_txt.data(), ret) != 0)
                    vh::viol("base64/encode/wrong-text", vh::fmt("got %s want %s", show(std::string((char *)out.p(), ret)).c_str(), show(ref_txt).c_str()));
            } else {
                VH_CHECK(ret == 0, "base64/encode/short-capacity-not-refused", "capacity %zu < %zu but Encode returned %zu", cap, ref_txt.size(), ret);
                vh::counter("b64_encode_short_cap_refused");
            }
        }
        {
            step("base64::Encode(ptr,len) -> string");
            std::string s = b64::Encode(in.p, n);
            VH_CHECK(s == ref_txt, "base64/encode-string/wrong-text", "got %s want %s", show(s).c_str(), show(ref_txt).c_str());
            std::vector<uint8_t> v(raw.begin(), raw.end());
            std::string s2 = b64::Encode(v);
            VH_CHECK(s2 == ref_txt, "base64/encode-vector/wrong-text", "got %s want %s", show(s2).c_str(), show(ref_txt).c_str());
        }
        // ---- size function of the decoder ---------------------------------------------------
        {
            In tin(ref_txt);
            step("base64::DecodeLength");
            size_t dl = b64::DecodeLength((const char *)tin.p, ref_txt.size());
            VH_CHECK(dl == n, "base64/decode-length/wrong", "DecodeLength(%s)=%zu, raw is %zu bytes", show(ref_txt).c_str(), dl, n);
            std::unique_ptr<std::string> hs(new std::string(ref_txt.data(), ref_txt.size()));
            VH_CHECK(b64::DecodeLength(*hs) == n, "base64/decode-length/wrong", "DecodeLength(string %s) != %zu", show(ref_txt).c_str(), n);
            In cz(ref_txt + std::string(1, '\0'));
            VH_CHECK(b64::DecodeLength((const char *)cz.p) == n, "base64/decode-length/wrong", "DecodeLength(cstr %s) != %zu", show(ref_txt).c_str(), n);
        }
        // ---- decoders on the valid text: exact, one short, zero, larger ------------------------
        const bool padded = (n % 3) != 0;
        size_t dcaps[] = {n, n - 1, 0, n + 1, n + 2 + (size_t)r.below(30)};
        for (size_t cap : dcaps) {
            if (cap == n) { vh::counter("b64_decode_exact_cap"); if (padded) vh::counter("b64_decode_exact_cap_padded"); }
            b64_decode_ptr_checked(ref_txt, cap, &raw, false, "valid");
        }
        {
            In cz(ref_txt + std::string(1, '\0'));
            Out out(n);
            step("base64::Decode(cstr,cap=%zu)", n);
            size_t ret = b64::Decode((const char *)cz.p, out.p(), n);
            out.check("base64-decode");
            VH_CHECK(ret == n && memcmp(out.p(), raw.data(), n) == 0, "base64/decode-cstr/wrong", "ret=%zu want %zu text=%s", ret, n, show(ref_txt).c_str());
        }
        {
            std::unique_ptr<std::string> hs(new std::string(ref_txt.data(), ref_txt.size()));
            std::vector<uint8_t> v;
            step("base64::Decode(string,vector)");
            size_t ret = b64::Decode(*hs, v);
            VH_CHECK(ret == n && v.size() == n && memcmp(v.data(), raw.data(), n) == 0, "base64/decode-vector/wrong",
                     "ret=%zu size=%zu want %zu text=%s", ret, v.size(), n, show(ref_txt).c_str());
        }
        // truncated text (not a multiple of four any more) must be refused
        if (L >= 4) {
            size_t cut = L - 1 - r.below(3);
            b64_decode_ptr_checked(ref_txt.substr(0, cut), n + 3, nullptr, true, "truncated");
            vh::counter("b64_len_not_multiple_of_4");
        }
        vh::note_case(sig.h, true);
        if (n >= 4 && n <= 24 && raw[0] != raw[1] && want1())
            vh::sample("{\"mode\":\"base64\",\"raw_hex\":" + vh::jstr(vh::hex(raw.substr(0, 48))) + ",\"text\":" + vh::jstr(ref_txt.substr(0, 64)) +
                       ",\"checked\":\"Encode/Decode at capacities exact, one short, zero/one, larger; string and vector overloads\"}", 2);
        return;
    }

    // ---- hostile decoder input ----------------------------------------------------------------
    std::string h = ref_txt;
    if (h.size() > 64 && r.chance(3, 4)) h.resize(4 * (1 + r.below(16)));
    unsigned hk = (unsigned)r.below(8);
    sig.add(hk);
    switch (hk) {
        case 0: h[r.below(h.size())] = (char)r.byte(); break;                                  // any byte value
        case 1: h[r.below(h.size())] = (char)(0x80 | r.byte()); vh::counter("b64_hostile_high_byte"); break;
        case 2: h.resize(r.below(h.size() + 1)); break;                                        // truncated anywhere
        case 3: h = r.bytes(r.below(41)); break;                                               // arbitrary bytes
        case 4: h.assign(4 * (1 + r.below(8)), 'A');
                for (auto &c : h) c = r.chance(1, 5) ? '=' : kB64Alphabet[r.below(64)];
                break;                                                                         // '=' sprinkled
        case 5: h[r.below(h.size())] = '='; break;                                             // '=' in the middle
        case 6: h.assign(4 * r.below(4), '='); break;                                          // only padding (or empty)
        default: { size_t k = 1 + r.below(3); for (size_t i = 0; i < k; ++i) h[r.below(h.size())] = (char)r.pick(std::vector<int>{0, 0x7f, 0x80, 0xff, '-', '_', ' ', '\n', 0xfe, 0xc0}); }
    }
    sig.add(h);
    for (unsigned char c : h) if (c >= 0x80) { vh::counter("b64_hostile_input_with_byte_ge_0x80"); break; }
    vh::st().case_desc = vh::fmt("base64 hostile kind=%u text[%zu]=%s", hk, h.size(), show(h).c_str());

    // what the reference thinks
    g_b64_bytes.add(h);
    std::string rd = refq("b64d " + H(h));
    const bool ref_ok = rd != "ERR";
    std::string ref_raw = ref_ok ? unhex(rd) : std::string();
    // unambiguous invalidity: length not a multiple of four, or a byte outside the alphabet before the first '='
    bool must_fail = (h.size() % 4) != 0;
    if (!must_fail) {
        for (unsigned char c : h) {
            if (c == '=') break;
            if (!in_b64_alphabet(c)) { must_fail = true; break; }
        }
    } else vh::counter("b64_len_not_multiple_of_4");
    if (must_fail) vh::counter("b64_hostile_invalid_rejected");
    if (ref_ok) vh::counter("b64_hostile_still_valid");

    size_t dl = 0;
    {
        In tin(h);
        step("base64::DecodeLength(hostile)");
        dl = b64::DecodeLength((const char *)tin.p, h.size());
        VH_CHECK(dl <= h.size() / 4 * 3, "base64/decode-length/larger-than-possible", "DecodeLength=%zu for %zu characters", dl, h.size());
        if (ref_ok) VH_CHECK(dl == ref_raw.size(), "base64/decode-length/wrong", "DecodeLength(%s)=%zu, reference %zu", show(h).c_str(), dl, ref_raw.size());
    }
    size_t caps[] = {dl, dl ? dl - 1 : 0, 0, h.size() / 4 * 3, h.size() / 4 * 3 + 1 + (size_t)r.below(8)};
    for (size_t cap : caps)
        b64_decode_ptr_checked(h, cap, ref_ok ? &ref_raw : nullptr, must_fail, "hostile");
    {
        std::unique_ptr<std::string> hs(new std::string(h.data(), h.size()));
        std::vector<uint8_t> v;
        step("base64::Decode(string,vector) hostile");
        size_t ret = b64::Decode(*hs, v);
        VH_CHECK(v.size() <= h.size() / 4 * 3, "base64/decode-vector/more-bytes-than-possible", "vector has %zu bytes from %zu characters", v.size(), h.size());
        if (must_fail)
            VH_CHECK(ret == 0, "base64/decode-vector/invalid-input-accepted", "returned %zu for %s", ret, show(h).c_str());
        if (ref_ok)
            VH_CHECK(ret == ref_raw.size() && v.size() == ret && memcmp(v.data(), ref_raw.data(), ret) == 0, "base64/decode-vector/wrong",
                     "ret=%zu size=%zu reference %zu, text=%s", ret, v.size(), ref_raw.size(), show(h).c_str());
    }
    vh::note_case(sig.h, true);
    if (want1())
        vh::sample("{\"mode\":\"base64-hostile\",\"text_hex\":" + vh::jstr(vh::hex(h.substr(0, 64))) + ",\"reference\":" + vh::jstr(ref_ok ? "valid" : "rejects") +
                   ",\"must_fail\":" + (must_fail ? "true" : "false") + "}", 1);
}

// ---------------------------------------------------------------------------------------------
// hex strings
// ---------------------------------------------------------------------------------------------
struct Thrown { bool thrown = false; bool std_exc = false; std::string what; };

template <typename F> Thrown guarded(F f) {
    Thrown t;
    try { f(); }
    catch (const std::exception &e) { t.thrown = true; t.std_exc = true; t.what = typeid(e).name(); }
    catch (...) { t.thrown = true; t.what = "non-std"; }
    return t;
}

void hex_case(uint64_t idx, vh::Rng &r) {
    vh::Sig sig;
    const unsigned kind = (unsigned)(idx % 3);    // 0,1 valid round trips; 2 hostile
    static const char *delims[] = {"", "", " ", ":", ", ", "\t", "--", " \t", ";"};
    if (kind < 2) {
        size_t n;
        switch (r.below(60)) { case 0: case 3: case 4: n = 0; break; case 1: n = 65535; vh::counter("hex_len_65535"); break;
                               case 2: n = 60000 + r.below(5536); break; default: n = gen_len(r, 80, 3000); }
        if (idx % 64 == 0) n = 0;
        if (n > 65535) n = 65535;
        std::string raw = gen_bytes(r, n);
        bool upper = r.chance(1, 2);
        std::string d = r.pick(delims);
        sig.add(kind); sig.add(raw); sig.add(upper); sig.add(d);
        vh::st().case_desc = vh::fmt("hex raw[%zu]=%s upper=%d delim=%s", n, show(raw).c_str(), upper, show(d).c_str());
        std::string want = unhex(refq("hexs " + H(raw) + (upper ? " 1 " : " 0 ") + H(d)));
        In in(raw);
        step("RawDataToHexStr(len=%zu)", n);
        std::unique_ptr<std::string> txt(new std::string(tstr::RawDataToHexStr(in.p, (uint16_t)n, upper, d)));
        VH_CHECK(*txt == want, "hex/encode/wrong-text", "got %s want %s", show(*txt).c_str(), show(want).c_str());
        size_t adv = n ? n * 2 + (n - 1) * d.size() : 0;
        VH_CHECK(txt->size() == adv, "hex/encode/wrong-size", "text is %zu long, 2n+(n-1)*delimiter = %zu", txt->size(), adv);
        if (n == 0) vh::counter("hex_empty_value");
        std::unique_ptr<std::string> src(new std::string(want.data(), want.size()));   // decode the reference text, exact capacity
        // vector decoder
        {
            std::vector<uint8_t> v(3, 0xEE);
            size_t ret = 0;
            step("HexStrToRawData(vector, delim=%s) len=%zu", show(d).c_str(), src->size());
            Thrown t = guarded([&] { ret = tstr::HexStrToRawData(*src, v, d); });
            if (t.thrown)
                vh::viol("hex/decode-vector/valid-text-threw", vh::fmt("%s thrown for the %zu-character text of %zu bytes (delimiter %s): %s",
                                                                     t.what.c_str(), src->size(), n, show(d).c_str(), show(*src).c_str()));
            else
                VH_CHECK(ret == n && v.size() == n && memcmp(v.data(), raw.data(), n) == 0, "hex/decode-vector/wrong",
                         "ret=%zu size=%zu want %zu, text=%s", ret, v.size(), n, show(*src).c_str());
        }
        // fixed-buffer decoder (no delimiter form only)
        if (d.empty()) {
            size_t caps[] = {n, n ? n - 1 : 0, 0, n + 1, (size_t)r.below(n + 2)};
            for (size_t cap : caps) {
                if (cap > 65535) cap = 65535;
                Out out(cap);
                size_t ret = 0;
                step("HexStrToRawData(ptr, cap=%zu) len=%zu", cap, src->size());
                Thrown t = guarded([&] { ret = tstr::HexStrToRawData(*src, out.p(), (uint16_t)cap); });
                out.check("hex-decode-fixed");
                size_t exp = cap < n ? cap : n;
                if (cap < n) vh::counter("hex_fixed_truncated_by_cap");
                if (cap == n && n) vh::counter("hex_fixed_exact_cap");
                if (t.thrown)
                    vh::viol("hex/decode-fixed/valid-text-threw", vh::fmt("%s thrown, cap=%zu text=%s", t.what.c_str(), cap, show(*src).c_str()));
                else
                    VH_CHECK(ret == exp && memcmp(out.p(), raw.data(), exp) == 0, "hex/decode-fixed/wrong", "ret=%zu want %zu (cap %zu, n %zu)", ret, exp, cap, n);
            }
        }
        vh::note_case(sig.h, n > 0);
        if (n && n < 40 && want1())
            vh::sample("{\"mode\":\"hex\",\"raw_hex\":" + vh::jstr(vh::hex(raw)) + ",\"text\":" + vh::jstr(want) + ",\"delimiter\":" + vh::jstr(d) + "}", 1);
        return;
    }
    // ---- hostile ----------------------------------------------------------------------------------
    static const char hexd[] = "0123456789abcdefABCDEF";
    std::string d = r.pick(delims);
    std::string h;
    unsigned hk = (unsigned)r.below(8);
    size_t pairs = r.below(24);
    auto tok = [&](size_t k) { std::string t; for (size_t i = 0; i < k; ++i) t += hexd[r.below(22)]; return t; };
    switch (hk) {
        case 0: h = r.bytes(r.below(40)); break;
        case 1: h = tok(pairs * 2); if (!h.empty()) h[r.below(h.size())] = (char)r.byte(); break;
        case 2: h = tok(pairs * 2 + 1); vh::counter("hex_odd_length"); break;
        case 3: h = std::string(r.below(4), ' ') + tok(pairs * 2) + std::string(r.below(4), r.chance(1, 2) ? ' ' : '\t'); break;
        case 4: { const std::string dd = d.empty() ? " " : d;
                  for (size_t i = 0; i < pairs; ++i) { h += tok(1 + r.below(r.chance(1, 8) ? 4 : 2)); h += dd.substr(0, 1 + r.below(dd.size())); }
                  break; }
        case 5: h = std::string(r.below(6), r.chance(1, 2) ? ' ' : '\t'); break;
        case 6: h = tok(pairs * 2); if (!h.empty()) h[r.below(h.size())] = (char)r.pick(std::vector<int>{'g', 'G', '/', ':', '@', '`', 0x80, 0xff, 0, ' '}); break;
        default: h = tok(pairs * 2); h.insert(r.below(h.size() + 1), 1, ' '); break;
    }
    sig.add(9); sig.add(hk); sig.add(h); sig.add(d);
    vh::st().case_desc = vh::fmt("hex hostile kind=%u text[%zu]=%s delim=%s", hk, h.size(), show(h).c_str(), show(d).c_str());
    std::unique_ptr<std::string> src(new std::string(h.data(), h.size()));
    g_hex_bytes.add(h);
    {
        std::string rr = d.empty() ? refq("unhexp " + H(h)) : refq("unhexd " + H(h) + " " + H(d));
        std::vector<uint8_t> v;
        size_t ret = 0;
        step("HexStrToRawData(vector, delim=%s) hostile", show(d).c_str());
        Thrown t = guarded([&] { ret = tstr::HexStrToRawData(*src, v, d); });
        if (rr == "ERR") {
            vh::counter("hex_invalid_text");
            if (t.thrown) vh::counter("hex_invalid_digit_thrown");
            VH_CHECK(t.thrown, "hex/decode-vector/invalid-text-accepted", "returned %zu bytes for text %s (delimiter %s)", ret, show(h).c_str(), show(d).c_str());
        } else {
            std::string want = unhex(rr);
            if (t.thrown) {
                // blank-only text without a delimiter list: the reference reads it as the empty value; the round-trip clause
                // only pins the empty string itself (checked in the valid part), so a throw here is tolerated
                if (!(want.empty() && d.empty()))
                    vh::viol("hex/decode-vector/valid-text-threw", vh::fmt("%s thrown for text %s (delimiter %s)", t.what.c_str(), show(h).c_str(), show(d).c_str()));
            } else
                VH_CHECK(ret == want.size() && v.size() == ret && memcmp(v.data(), want.data(), ret) == 0, "hex/decode-vector/wrong",
                         "ret=%zu want %zu text=%s", ret, want.size(), show(h).c_str());
        }
    }
    {
        size_t np = h.size() / 2;
        size_t caps[] = {np, np ? np - 1 : 0, 0, np + 2, (size_t)r.below(np + 2)};
        for (size_t cap : caps) {
            Out out(cap);
            size_t ret = 0;
            step("HexStrToRawData(ptr, cap=%zu) hostile", cap);
            Thrown t = guarded([&] { ret = tstr::HexStrToRawData(*src, out.p(), (uint16_t)cap); });
            out.check("hex-decode-fixed");
            size_t look = cap < np ? cap : np;
            bool all_hex = true;
            for (size_t i = 0; i < look * 2; ++i) if (!isxdigit((unsigned char)h[i])) { all_hex = false; break; }
            if (all_hex) {
                std::string want = look ? unhex(refq("unhexp " + H(h.substr(0, look * 2)))) : std::string();
                if (t.thrown) vh::viol("hex/decode-fixed/valid-text-threw", vh::fmt("%s thrown, cap=%zu text=%s", t.what.c_str(), cap, show(h).c_str()));
                else VH_CHECK(ret == look && memcmp(out.p(), want.data(), look) == 0, "hex/decode-fixed/wrong", "ret=%zu want %zu text=%s cap=%zu", ret, look, show(h).c_str(), cap);
            } else {
                if (t.thrown) vh::counter("hex_invalid_digit_thrown");
                VH_CHECK(t.thrown, "hex/decode-fixed/invalid-text-accepted", "returned %zu for text %s cap=%zu", ret, show(h).c_str(), cap);
            }
        }
    }
    vh::note_case(sig.h, true);
    if (want1())
        vh::sample("{\"mode\":\"hex-hostile\",\"text_hex\":" + vh::jstr(vh::hex(h)) + ",\"delimiter\":" + vh::jstr(d) + "}", 1);
}

// ---------------------------------------------------------------------------------------------
// scalable integers
// ---------------------------------------------------------------------------------------------
uint64_t sint_base(int n) { uint64_t b = 0; for (int k = 1; k < n; ++k) b += (uint64_t)1 << (7 * k); return b; }   // only used to *pick* boundary inputs

void sint_roundtrip(uint64_t v, vh::Rng &r, vh::Sig &sig) {
    sig.add(v);
    std::string want = unhex(refq("sinte " + std::to_string(v)));
    const size_t need = want.size();
    vh::counter(vh::fmt("sint_len_%zu", need));
    size_t caps[] = {need, need - 1, 0, 10, need + 1, (size_t)r.below(need)};
    for (size_t cap : caps) {
        Out out(cap);
        step("DumpScalableInteger(%llu, cap=%zu)", (unsigned long long)v, cap);
        size_t ret = tbox::util::DumpScalableInteger(v, out.p(), cap);
        out.check("scalable-dump");
        if (cap >= need) {
            if (cap == need) vh::counter("sint_dump_exact_cap");
            VH_CHECK(ret == need && memcmp(out.p(), want.data(), need) == 0, "scalable/dump/wrong",
                     "Dump(%llu, cap %zu) returned %zu bytes %s, reference %s", (unsigned long long)v, cap, ret,
                     vh::hex(out.p(), ret <= cap ? ret : cap).c_str(), vh::hex(want).c_str());
        } else {
            VH_CHECK(ret == 0, "scalable/dump/short-capacity-not-refused", "Dump(%llu) needs %zu bytes, capacity %zu, returned %zu", (unsigned long long)v, need, cap, ret);
            vh::counter("sint_dump_short_cap_refused");
        }
    }
    // parse: exact, with trailing bytes, truncated
    {
        In in(want);
        uint64_t got = ~v;
        step("ParseScalableInteger(exact %zu bytes)", need);
        size_t ret = tbox::util::ParseScalableInteger(in.p, need, got);
        VH_CHECK(ret == need && got == v, "scalable/parse/roundtrip-wrong", "Parse(%s) returned %zu value %llu, want %zu value %llu",
                 vh::hex(want).c_str(), ret, (unsigned long long)got, need, (unsigned long long)v);
    }
    {
        std::string more = want + r.bytes(1 + r.below(12));
        In in(more);
        uint64_t got = ~v;
        step("ParseScalableInteger(%zu bytes + trailing)", need);
        size_t ret = tbox::util::ParseScalableInteger(in.p, more.size(), got);
        VH_CHECK(ret == need && got == v, "scalable/parse/roundtrip-wrong", "Parse(%s) returned %zu value %llu, want %zu value %llu",
                 vh::hex(more).c_str(), ret, (unsigned long long)got, need, (unsigned long long)v);
    }
    for (size_t cut = 0; cut < need; ++cut) {
        In in(want.substr(0, cut));
        uint64_t got = 0;
        step("ParseScalableInteger(truncated to %zu of %zu)", cut, need);
        size_t ret = tbox::util::ParseScalableInteger(in.p, cut, got);
        VH_CHECK(ret == 0, "scalable/parse/truncated-accepted", "Parse of the first %zu bytes of %s returned %zu", cut, vh::hex(want).c_str(), ret);
        vh::counter("sint_parse_truncated_refused");
    }
}

void sint_parse_hostile(const std::string &buf) {
    g_sint_bytes.add(buf);
    std::string rr = refq("sintd " + H(buf));
    char stat[16]; unsigned long long rn = 0, rv = 0;
    if (sscanf(rr.c_str(), "%15s %llu %llu", stat, &rn, &rv) != 3) fatal("ref-bad-sintd");
    size_t lead = 0;
    while (lead < buf.size() && ((unsigned char)buf[lead] & 0x80)) ++lead;
    if (lead >= 10) vh::counter("sint_parse_10_continuation");
    if (lead == 10 && buf.size() > 10) vh::counter("sint_parse_11_byte_form");
    In in(buf);
    uint64_t got = 0x5a5a5a5a5a5a5a5aULL;
    step("ParseScalableInteger(hostile %s)", vh::hex(buf).c_str());
    size_t ret = tbox::util::ParseScalableInteger(in.p, buf.size(), got);
    VH_CHECK(ret <= buf.size(), "scalable/parse/consumed-more-than-given", "returned %zu for a %zu-byte buffer %s", ret, buf.size(), vh::hex(buf).c_str());
    if (!strcmp(stat, "OK")) {
        VH_CHECK(ret == rn && got == rv, "scalable/parse/wrong", "Parse(%s) returned %zu value %llu, reference %llu value %llu",
                 vh::hex(buf).c_str(), ret, (unsigned long long)got, rn, rv);
    } else if (!strcmp(stat, "TRUNC")) {
        VH_CHECK(ret == 0, "scalable/parse/unterminated-accepted", "Parse(%s) returned %zu although no terminator occurs in the first ten bytes",
                 vh::hex(buf).c_str(), ret);
        vh::counter("sint_parse_unterminated_refused");
    } else {
        vh::counter("sint_parse_overflow_form");      // 10-byte form above 2^64-1: any clean answer is accepted
        if (ret) vh::counter("sint_parse_overflow_form_accepted");
    }
}

std::string sint_hostile_bytes(vh::Rng &r) {
    size_t n = r.below(15);
    std::string b(n, '\0');
    unsigned k = (unsigned)r.below(6);
    for (size_t i = 0; i < n; ++i) {
        uint8_t x = r.byte();
        if (k == 0) x |= 0x80;                                    // never terminates
        else if (k == 1) x = (i + 1 < n) ? (x | 0x80) : (x & 0x7f);  // terminates exactly at the end
        else if (k == 2) x = r.chance(9, 10) ? (x | 0x80) : (x & 0x7f);
        else if (k == 3) x = (i + 1 < n) ? 0xff : 0x7f;           // maximal payload
        else if (k == 4) x = (i + 1 < n) ? 0x80 : 0x00;           // minimal payload
        b[i] = (char)x;
    }
    return b;
}

void scalable_case(uint64_t idx, vh::Rng &r) {
    vh::Sig sig;
    uint64_t v;
    switch (r.below(6)) {
        case 0: { int n = 2 + (int)r.below(9); v = sint_base(n) + (uint64_t)r.range(-3, 3); vh::counter("sint_boundary_values"); break; }
        case 1: { int b = (int)r.below(64); v = ((uint64_t)1 << b) + (uint64_t)r.range(-2, 2); break; }
        case 2: v = r.next(); break;
        case 3: v = r.next() >> r.below(64); break;
        case 4: v = ~(uint64_t)0 - r.below(4); break;
        default: v = r.below(70000); break;
    }
    vh::st().case_desc = vh::fmt("scalable value=%llu", (unsigned long long)v);
    sint_roundtrip(v, r, sig);
    for (int i = 0; i < 3; ++i) {
        std::string h = sint_hostile_bytes(r);
        sig.add(h);
        vh::st().case_desc = vh::fmt("scalable value=%llu hostile=%s", (unsigned long long)v, vh::hex(h).c_str());
        sint_parse_hostile(h);
    }
    vh::note_case(sig.h, true);
    if (want1())
        vh::sample(vh::fmt("{\"mode\":\"scalable\",\"value\":\"%llu\",\"checked\":\"dump at capacities exact/one short/zero/10, parse exact/trailing/every truncation, 3 hostile buffers\"}", (unsigned long long)v), 1);
}

// exhaustive sub-space: every 1- and 2-byte buffer, every value within 2 of a length boundary or a power of two,
// every all-continuation prefix length 0..12 with/without terminator
enum { kSintX2 = 65536 + 256, kSintXB = 11 * 5, kSintXP = 64 * 5, kSintXC = 13 * 4 };
uint64_t sint_x_total() { return kSintX2 + kSintXB + kSintXP + kSintXC; }

void scalable_x_case(uint64_t idx, vh::Rng &r) {
    vh::Sig sig; sig.add(idx);
    if (idx < 256) {
        std::string b(1, (char)idx);
        vh::st().case_desc = "scalable-x buffer " + vh::hex(b);
        sint_parse_hostile(b);
        vh::counter("sintx_one_byte_buffers");
    } else if (idx < kSintX2) {
        uint64_t k = idx - 256;
        std::string b; b += (char)(k >> 8); b += (char)(k & 0xff);
        vh::st().case_desc = "scalable-x buffer " + vh::hex(b);
        sint_parse_hostile(b);
        vh::counter("sintx_two_byte_buffers");
    } else if (idx < kSintX2 + kSintXB) {
        uint64_t k = idx - kSintX2;
        int n = 1 + (int)(k / 5);                      // n = 1..11 : base(n) is the first value of the n-byte form (n=11: wraps to the top of the range)
        uint64_t v = (n <= 10 ? sint_base(n) : 0) + (uint64_t)((int64_t)(k % 5) - 2);
        vh::st().case_desc = vh::fmt("scalable-x boundary value %llu", (unsigned long long)v);
        sint_roundtrip(v, r, sig);
        vh::counter("sint_boundary_values");
    } else if (idx < kSintX2 + kSintXB + kSintXP) {
        uint64_t k = idx - kSintX2 - kSintXB;
        uint64_t v = ((uint64_t)1 << (k / 5)) + (uint64_t)((int64_t)(k % 5) - 2);
        vh::st().case_desc = vh::fmt("scalable-x power-of-two value %llu", (unsigned long long)v);
        sint_roundtrip(v, r, sig);
    } else {
        uint64_t k = idx - kSintX2 - kSintXB - kSintXP;
        size_t lead = k / 4; unsigned variant = k % 4;
        std::string b(lead, (char)(variant & 1 ? 0xff : 0x80));
        if (variant & 2) b += (char)(variant & 1 ? 0x7f : 0x00);
        vh::st().case_desc = "scalable-x continuation run " + vh::hex(b);
        sint_parse_hostile(b);
        vh::counter("sintx_continuation_runs");
    }
    vh::note_case(sig.h, true);
}

// ---------------------------------------------------------------------------------------------
// serializer / deserializer
// ---------------------------------------------------------------------------------------------
struct Field {
    enum Kind { U8, U16, U32, U64, I8, I16, I32, I64, F32, F64, RAW, POD, BE, LE } kind;
    uint64_t bits;        // integer value / IEEE bit pattern
    std::string bytes;    // RAW / POD payload (POD: host order)
    size_t size() const {
        switch (kind) { case U8: case I8: return 1; case U16: case I16: return 2; case U32: case I32: case F32: return 4;
                        case U64: case I64: case F64: return 8; case RAW: case POD: return bytes.size(); default: return 0; }
    }
    std::string token() const {
        switch (kind) {
            case U8: return "u8:" + std::to_string((uint8_t)bits);
            case U16: return "u16:" + std::to_string((uint16_t)bits);
            case U32: return "u32:" + std::to_string((uint32_t)bits);
            case U64: return "u64:" + std::to_string((uint64_t)bits);
            case I8: return "i8:" + std::to_string((int)(int8_t)bits);
            case I16: return "i16:" + std::to_string((int)(int16_t)bits);
            case I32: return "i32:" + std::to_string((int32_t)bits);
            case I64: return "i64:" + std::to_string((long long)(int64_t)bits);
            case F32: return vh::fmt("f32:%08x", (uint32_t)bits);
            case F64: return vh::fmt("f64:%016llx", (unsigned long long)bits);
            case RAW: return "raw:" + H(bytes);
            case POD: return "pod:" + H(bytes);
            case BE: return "be";
            default: return "le";
        }
    }
};

uint64_t gen_int(vh::Rng &r) {
    switch (r.below(6)) {
        case 0: return 0;
        case 1: return ~(uint64_t)0;
        case 2: return (uint64_t)1 << r.below(64);
        case 3: return 0x0102030405060708ULL;
        case 4: return 0x8000000000000000ULL >> (8 * r.below(8));
        default: return r.next();
    }
}

std::vector<Field> gen_fields(vh::Rng &r) {
    std::vector<Field> f;
    size_t n = 1 + r.below(r.chance(1, 6) ? 24 : 8);
    if (r.chance(1, 2)) { Field e; e.kind = r.chance(1, 2) ? Field::BE : Field::LE; e.bits = 0; f.push_back(e); }
    for (size_t i = 0; i < n; ++i) {
        Field x; x.bits = gen_int(r);
        unsigned k = (unsigned)r.below(15);
        if (k <= Field::F64) x.kind = (Field::Kind)k;
        else if (k == 10) { x.kind = Field::RAW; x.bytes = r.bytes(r.below(r.chance(1, 6) ? 200 : 12)); }
        else if (k == 11) { x.kind = Field::POD; x.bytes = r.bytes(1 + r.below(16)); }
        else if (k == 12) x.kind = Field::BE;
        else if (k == 13) x.kind = Field::LE;
        else x.kind = Field::U32;
        if (x.kind == Field::F32) { x.bits &= 0xffffffffULL; if ((x.bits & 0x7f800000) == 0x7f800000 && (x.bits & 0x7fffff)) x.bits |= 0x400000; }           // keep NaNs quiet: a float passed by value
        if (x.kind == Field::F64) { if ((x.bits & 0x7ff0000000000000ULL) == 0x7ff0000000000000ULL && (x.bits & 0xfffffffffffffULL)) x.bits |= 0x8000000000000ULL; } // may be quietened by the ABI, not by the codec
        f.push_back(x);
    }
    return f;
}

std::string spec_of(const std::vector<Field> &f, const std::vector<bool> *accepted) {
    std::string s = "pack";
    for (size_t i = 0; i < f.size(); ++i)
        if (!accepted || (*accepted)[i]) { s += ' '; s += f[i].token(); }
    return s;
}

// one serializer run; returns false if the API mis-answered (so the caller does not trust its position any more)
void run_serializer(Serializer &s, const std::vector<Field> &f, size_t cap, bool bounded, bool stream, std::vector<bool> &accepted,
                    std::vector<std::unique_ptr<In>> &keep) {
    size_t pos = 0;
    accepted.assign(f.size(), false);
    for (size_t i = 0; i < f.size(); ++i) {
        const Field &x = f[i];
        if (x.kind == Field::BE || x.kind == Field::LE) {
            Endian e = x.kind == Field::BE ? Endian::kBig : Endian::kLittle;
            if (stream) s << e; else s.setEndian(e);
            accepted[i] = true;
            vh::counter(x.kind == Field::BE ? "ser_big" : "ser_little");
            continue;
        }
        const size_t sz = x.size();
        const bool fits = !bounded || pos + sz <= cap;
        bool ok = true; bool have_ret = true;
        step("Serializer %s at pos %zu (cap %zu)", x.token().substr(0, 60).c_str(), pos, cap);
        const bool use_stream = stream && x.kind != Field::RAW && x.kind != Field::POD;
        if (use_stream || x.kind == Field::F32 || x.kind == Field::F64) {
            have_ret = false;
            switch (x.kind) {
                case Field::U8: s << (uint8_t)x.bits; break;
                case Field::U16: s << (uint16_t)x.bits; break;
                case Field::U32: s << (uint32_t)x.bits; break;
                case Field::U64: s << (uint64_t)x.bits; break;
                case Field::I8: s << (int8_t)x.bits; break;
                case Field::I16: s << (int16_t)x.bits; break;
                case Field::I32: s << (int32_t)x.bits; break;
                case Field::I64: s << (int64_t)x.bits; break;
                case Field::F32: { float v; uint32_t b = (uint32_t)x.bits; memcpy(&v, &b, 4); s << v; break; }
                case Field::F64: { double v; uint64_t b = x.bits; memcpy(&v, &b, 8); s << v; break; }
                default: break;
            }
        } else {
            switch (x.kind) {
                case Field::U8: case Field::I8: ok = s.append((uint8_t)x.bits); break;
                case Field::U16: case Field::I16: ok = s.append((uint16_t)x.bits); break;
                case Field::U32: case Field::I32: ok = s.append((uint32_t)x.bits); break;
                case Field::U64: case Field::I64: ok = s.append((uint64_t)x.bits); break;
                case Field::RAW: { keep.emplace_back(new In(x.bytes)); ok = s.append(keep.back()->p, sz); break; }
                case Field::POD: { keep.emplace_back(new In(x.bytes)); ok = s.appendPOD(keep.back()->p, sz); break; }
                default: break;
            }
        }
        if (have_ret)
            VH_CHECK(ok == fits, fits ? "serializer/append/refused-although-it-fits" : "serializer/append/accepted-beyond-capacity",
                     "field %zu (%zu bytes) at position %zu with capacity %zu: append returned %d", i, sz, pos, cap, (int)ok);
        if (fits) { pos += sz; accepted[i] = true; }
        else vh::counter("ser_raw_append_refused");
        if (s.pos() != pos) {
            vh::viol("serializer/pos/wrong", vh::fmt("after field %zu (%s) pos()=%zu, expected %zu (cap %zu)", i, x.token().substr(0, 40).c_str(), s.pos(), pos, cap));
            return;
        }
    }
}

void serializer_case(uint64_t idx, vh::Rng &r) {
    vh::Sig sig;
    std::vector<Field> f = gen_fields(r);
    std::string full_spec = spec_of(f, nullptr);
    sig.add(full_spec);
    size_t total = 0;
    for (auto &x : f) total += x.size();
    vh::st().case_desc = "serializer " + full_spec.substr(0, 1500);
    const std::string want_full = unhex(refq(full_spec));
    if (want_full.size() != total) fatal("ref-pack-size");

    // ---- raw serializer at several capacities ------------------------------------------------------
    std::vector<size_t> caps = {total, total ? total - 1 : 0, 0, total + 3, (size_t)r.below(total + 1)};
    if (total <= 24) { caps.clear(); for (size_t c = 0; c <= total + 1; ++c) caps.push_back(c); vh::counter("ser_every_capacity_cases"); }
    for (size_t ci = 0; ci < caps.size(); ++ci) {
        size_t cap = caps[ci];
        Out out(cap);
        std::vector<bool> acc;
        std::vector<std::unique_ptr<In>> keep;
        Serializer s(out.p(), cap, Endian::kBig);
        run_serializer(s, f, cap, true, r.chance(1, 3), acc, keep);
        out.check("serializer-raw");
        if (cap == total) vh::counter("ser_raw_exact_cap");
        std::string want = (cap >= total) ? want_full : unhex(refq(spec_of(f, &acc)));
        if (s.pos() == want.size() && want.size() <= cap)
            VH_CHECK(memcmp(out.p(), want.data(), want.size()) == 0, "serializer/raw/wrong-bytes", "cap=%zu got %s want %s", cap,
                     vh::hex(out.p(), want.size()).substr(0, 400).c_str(), vh::hex(want).substr(0, 400).c_str());
        else
            vh::viol("serializer/raw/wrong-size", vh::fmt("cap=%zu pos()=%zu reference size %zu", cap, s.pos(), want.size()));
    }
    // ---- vector serializer -----------------------------------------------------------------------------
    {
        std::vector<uint8_t> block;
        if (r.chance(1, 3)) block.assign(r.below(20), 0xEE);   // pre-filled: the serializer starts at offset 0 and sizes the block itself
        std::vector<bool> acc;
        std::vector<std::unique_ptr<In>> keep;
        Serializer s(block, Endian::kBig);
        run_serializer(s, f, 0, false, r.chance(1, 2), acc, keep);
        vh::counter("ser_vector");
        if (total > 0)   // nothing appended: the block is left alone
            VH_CHECK(block.size() == total && s.pos() == total && memcmp(block.data(), want_full.data(), total) == 0, "serializer/vector/wrong",
                     "block.size()=%zu pos()=%zu reference %zu bytes %s", block.size(), s.pos(), total, vh::hex(want_full).substr(0, 300).c_str());
    }
    // ---- deserializer over the reference bytes: whole, and cut short --------------------------------------
    for (int pass = 0; pass < 2; ++pass) {
        size_t avail = pass == 0 ? total : (size_t)r.below(total + 1);
        In in(want_full.substr(0, avail));
        Deserializer d(in.p, avail, Endian::kBig);
        size_t pos = 0;
        bool stream = r.chance(1, 3);
        bool dead = false, misaligned = false, des_big = true;   // the Deserializer is constructed big-endian
        for (size_t i = 0; i < f.size() && !dead; ++i) {
            const Field &x = f[i];
            if (x.kind == Field::BE || x.kind == Field::LE) {
                Endian e = x.kind == Field::BE ? Endian::kBig : Endian::kLittle;
                if (stream) d >> e; else d.setEndian(e);
                des_big = (e == Endian::kBig);
                continue;
            }
            const size_t sz = x.size();
            const bool fits = pos + sz <= avail;
            bool ok = true, have_ret = true, value_ok = true;
            step("Deserializer %s at pos %zu of %zu", x.token().substr(0, 60).c_str(), pos, avail);
            // size probes that can never be satisfied
            if (r.chance(1, 6)) {
                size_t rem = avail - pos;
                size_t probes[] = {rem + 1, (size_t)-1, (size_t)-1 - pos + 1, (size_t)-1 - pos + 1 + (rem ? r.below(rem) : 0), ((size_t)1 << 63) + r.below(64)};
                size_t need = r.pick(probes);
                if (need > rem) {
                    vh::counter("des_huge_size_probe");
                    unsigned w = (unsigned)r.below(3);
                    bool acc2 = w == 0 ? d.checkSize(need) : w == 1 ? d.skip(need) : d.fetchNoCopy(need) != nullptr;
                    if (acc2) {
                        vh::viol("serializer/deserializer-size-check/accepted-size-beyond-input",
                                 vh::fmt("%s: at position %zu of a %zu-byte input a request for %zu bytes was accepted; pos() is now %zu",
                                         w == 0 ? "checkSize" : w == 1 ? "skip" : "fetchNoCopy", pos, avail, need, d.pos()));
                        if (w != 0) { dead = true; break; }
                    }
                    if (d.pos() != pos) { vh::viol("serializer/deserializer-pos/moved-by-refused-request", vh::fmt("pos()=%zu expected %zu", d.pos(), pos)); dead = true; break; }
                }
            }
            uint64_t got = 0;
            std::unique_ptr<Out> ob;
            const bool use_stream = stream && x.kind != Field::RAW && x.kind != Field::POD;
            if (use_stream || x.kind == Field::F32 || x.kind == Field::F64) {
                have_ret = false;
                switch (x.kind) {
                    case Field::U8: { uint8_t v = 0; d >> v; got = v; break; }
                    case Field::U16: { uint16_t v = 0; d >> v; got = v; break; }
                    case Field::U32: { uint32_t v = 0; d >> v; got = v; break; }
                    case Field::U64: { uint64_t v = 0; d >> v; got = v; break; }
                    case Field::I8: { int8_t v = 0; d >> v; got = (uint8_t)v; break; }
                    case Field::I16: { int16_t v = 0; d >> v; got = (uint16_t)v; break; }
                    case Field::I32: { int32_t v = 0; d >> v; got = (uint32_t)v; break; }
                    case Field::I64: { int64_t v = 0; d >> v; got = (uint64_t)v; break; }
                    case Field::F32: { float v = 0; d >> v; uint32_t b; memcpy(&b, &v, 4); got = b; break; }
                    case Field::F64: { double v = 0; d >> v; uint64_t b; memcpy(&b, &v, 8); got = b; break; }
                    default: break;
                }
                if (fits) value_ok = got == (x.kind == Field::U8 || x.kind == Field::I8 ? (uint8_t)x.bits : x.kind == Field::U16 || x.kind == Field::I16 ? (uint16_t)x.bits :
                                             x.kind == Field::U32 || x.kind == Field::I32 || x.kind == Field::F32 ? (uint32_t)x.bits : x.bits);
            } else {
                switch (x.kind) {
                    case Field::U8: case Field::I8: { uint8_t v = 0; ok = d.fetch(v); value_ok = v == (uint8_t)x.bits; break; }
                    case Field::U16: case Field::I16: { uint16_t v = 0; ok = d.fetch(v); value_ok = v == (uint16_t)x.bits; break; }
                    case Field::U32: case Field::I32: { uint32_t v = 0; ok = d.fetch(v); value_ok = v == (uint32_t)x.bits; break; }
                    case Field::U64: case Field::I64: { uint64_t v = 0; ok = d.fetch(v); value_ok = v == x.bits; break; }
                    case Field::RAW: {
                        unsigned w = (unsigned)r.below(3);
                        if (w == 0) { ob.reset(new Out(sz)); for (size_t j = 0; j < sz; ++j) ob->p()[j] = (uint8_t)~(uint8_t)x.bytes[j]; ok = d.fetch(ob->p(), sz); ob->check("deserializer-fetch"); value_ok = !ok || memcmp(ob->p(), x.bytes.data(), sz) == 0; }
                        else if (w == 1) { const void *p = d.fetchNoCopy(sz); ok = p != nullptr;
                                           if (ok && fits) value_ok = p == in.p + pos && memcmp(p, x.bytes.data(), sz) == 0; }
                        else { ok = d.skip(sz); }
                        break;
                    }
                    case Field::POD: {
                        // the destination is poisoned with the complement of every expected byte: a byte the codec leaves untouched
                        // (or copies from the wrong place) cannot look right by accident
                        ob.reset(new Out(sz));
                        for (size_t j = 0; j < sz; ++j) ob->p()[j] = (uint8_t)~(uint8_t)x.bytes[j];
                        ok = d.fetchPOD(ob->p(), sz); ob->check("deserializer-fetchPOD");
                        value_ok = !ok || memcmp(ob->p(), x.bytes.data(), sz) == 0;
                        if (ok && fits && !misaligned) {
                            vh::counter(des_big ? "des_pod_big_endian" : "des_pod_little_endian");
                            if (sz & 1) vh::counter(des_big ? "des_pod_odd_size_big_endian" : "des_pod_odd_size_little_endian");
                            if (sz == 1) vh::counter("des_pod_size_1");
                            vh::counter_max("max_des_pod_size", sz);
                        }
                        break;
                    }
                    default: break;
                }
            }
            if (have_ret && ok != fits) {
                vh::viol(fits ? "serializer/deserializer-fetch/refused-although-available" : "serializer/deserializer-fetch/accepted-beyond-input",
                         vh::fmt("field %zu (%zu bytes) at position %zu of %zu: returned %d", i, sz, pos, avail, (int)ok));
                dead = true; break;
            }
            if (fits) {
                // once a field was refused the following ones are read from another offset than they were written to:
                // only the accept/refuse answers and the position are checked from there on
                VH_CHECK(value_ok || misaligned, "serializer/deserializer-fetch/wrong-value", "field %zu %s at position %zu read back differently (got bits %llx)",
                         i, x.token().substr(0, 60).c_str(), pos, (unsigned long long)got);
                pos += sz;
            } else { misaligned = true; vh::counter(pass ? "des_truncated_refused" : "des_fetch_refused_at_end"); }
            if (d.pos() != pos) { vh::viol("serializer/deserializer-pos/wrong", vh::fmt("after field %zu pos()=%zu expected %zu", i, d.pos(), pos)); dead = true; }
        }
        if (!dead) {
            // at the end of what was consumed: one more byte than remains is refused, what remains is accepted
            size_t rem = avail - pos;
            VH_CHECK(d.checkSize(rem), "serializer/deserializer-checkSize/refused-although-available", "checkSize(%zu) false at %zu of %zu", rem, pos, avail);
            VH_CHECK(!d.checkSize(rem + 1), "serializer/deserializer-size-check/accepted-size-beyond-input", "checkSize(%zu) true at %zu of %zu", rem + 1, pos, avail);
            if (rem == 0) {
                uint8_t b = 0x77; uint64_t q = 0;
                VH_CHECK(!d.fetch(b) && !d.fetch(q) && d.pos() == pos, "serializer/deserializer-fetch/accepted-beyond-input", "fetch at the end of a %zu-byte input succeeded", avail);
                vh::counter("des_fetch_refused_at_end");
            }
            if (avail > 0 && r.chance(1, 2)) {
                size_t p = r.below(avail);
                VH_CHECK(d.set_pos(p) && d.pos() == p && d.ptr() == in.p + p, "serializer/deserializer-set_pos/wrong", "set_pos(%zu) on a %zu-byte input", p, avail);
                uint8_t b = 0;
                VH_CHECK(d.fetch(b) && b == (uint8_t)want_full[p], "serializer/deserializer-fetch/wrong-value", "byte at %zu after set_pos", p);
                VH_CHECK(!d.set_pos(avail + 1 + r.below(5)), "serializer/deserializer-set_pos/accepted-beyond-input", "set_pos beyond %zu accepted", avail);
            }
        }
    }
    vh::note_case(sig.h, total > 0);
    if (total > 0 && total < 40 && want1())
        vh::sample("{\"mode\":\"serializer\",\"fields\":" + vh::jstr(full_spec.substr(5)) + ",\"reference_bytes\":" + vh::jstr(vh::hex(want_full)) + "}", 1);
}

// ---------------------------------------------------------------------------------------------
// URL percent-encoding
// ---------------------------------------------------------------------------------------------
void url_case(uint64_t idx, vh::Rng &r) {
    vh::Sig sig;
    const unsigned kind = (unsigned)(idx % 4);    // 0,1 round trip; 2 hostile decode; 3 Url struct helpers
    static const char special[] = " +&=<>\"#,%{}|\\^[]`;?:@$/.";
    if (kind < 2) {
        size_t n = r.chance(1, 20) ? 0 : gen_len(r, 60, 2000);
        std::string s(n, '\0');
        unsigned g = (unsigned)r.below(5);
        for (auto &c : s) {
            switch (g) { case 0: c = (char)r.byte(); break; case 1: c = (char)(0x20 + r.below(0x5f)); break;
                         case 2: c = special[r.below(sizeof special - 1)]; break; case 3: c = (char)(r.chance(1, 3) ? r.byte() : 'a' + r.below(26)); break;
                         default: c = (char)(0x80 | r.byte()); }
        }
        bool path_mode = r.chance(1, 2);
        sig.add(kind); sig.add(s); sig.add(path_mode);
        for (unsigned char c : s) if (c >= 0x80) { vh::counter("url_high_bytes"); break; }
        vh::st().case_desc = vh::fmt("url encode path_mode=%d s[%zu]=%s", path_mode, n, show(s).c_str());
        std::unique_ptr<std::string> src(new std::string(s.data(), s.size()));
        step("UrlEncode");
        std::unique_ptr<std::string> enc(new std::string(tbox::http::UrlEncode(*src, path_mode)));
        // shape of percent-encoding: printable ASCII only, every '%' starts a two-digit escape
        bool shape = true;
        for (size_t i = 0; i < enc->size() && shape; ++i) {
            unsigned char c = (*enc)[i];
            if (c <= 0x20 || c >= 0x7f) shape = false;
            else if (c == '%') { if (!(i + 2 < enc->size())) shape = false;
                                 else if (!isxdigit((unsigned char)(*enc)[i + 1]) || !isxdigit((unsigned char)(*enc)[i + 2])) shape = false;
                                 else i += 2; }
        }
        VH_CHECK(shape, "url/encode/not-percent-encoding", "UrlEncode(%s) = %s", show(s).c_str(), show(*enc).c_str());
        std::string back;
        step("UrlDecode(UrlEncode)");
        Thrown t = guarded([&] { back = tbox::http::UrlDecode(*enc); });
        if (t.thrown) vh::viol("url/roundtrip/decode-threw", vh::fmt("%s for %s", t.what.c_str(), show(*enc).c_str()));
        else VH_CHECK(back == s, "url/roundtrip/wrong", "UrlDecode(UrlEncode(%s)) = %s via %s", show(s).c_str(), show(back).c_str(), show(*enc).c_str());
        std::string rr = refq("urld " + H(*enc));
        VH_CHECK(rr != "ERR" && unhex(rr) == s, "url/encode/reference-decoder-disagrees", "unquote_to_bytes(%s) != %s", show(*enc).c_str(), show(s).c_str());
        vh::counter("url_roundtrip");
        vh::note_case(sig.h, n > 0);
        if (n && n < 30 && want1())
            vh::sample("{\"mode\":\"url\",\"s_hex\":" + vh::jstr(vh::hex(s)) + ",\"encoded\":" + vh::jstr(*enc) + ",\"path_mode\":" + (path_mode ? "true" : "false") + "}", 1);
        return;
    }
    if (kind == 2) {
        static const char hexd[] = "0123456789abcdefABCDEF";
        size_t n = r.below(60);
        std::string h;
        unsigned hk = (unsigned)r.below(5);
        for (size_t i = 0; i < n; ++i) {
            unsigned w = (unsigned)r.below(10);
            if (w < 4) { h += '%'; h += hexd[r.below(22)]; h += hexd[r.below(22)]; }
            else if (w < 8) h += (char)(hk == 0 ? r.byte() : 0x21 + r.below(0x5e));
            else if (hk == 1) { h += '%'; h += (char)r.byte(); }
            else if (hk == 2) { h += '%'; h += hexd[r.below(22)]; h += (char)r.byte(); }
            else if (hk == 3) h += "%%";
            else h += '+';
        }
        if (r.chance(1, 4)) { h += '%'; if (r.chance(1, 2)) h += hexd[r.below(22)]; vh::counter("url_truncated_escape"); }
        sig.add(kind); sig.add(h);
        vh::st().case_desc = vh::fmt("url decode hostile s[%zu]=%s", h.size(), show(h).c_str());
        g_url_bytes.add(h);
        std::string rr = refq("urld " + H(h));
        std::unique_ptr<std::string> src(new std::string(h.data(), h.size()));
        std::string got;
        step("UrlDecode(hostile)");
        Thrown t = guarded([&] { got = tbox::http::UrlDecode(*src); });
        if (rr != "ERR") {
            vh::counter("url_decode_valid");
            if (t.thrown) vh::viol("url/decode/valid-text-threw", vh::fmt("%s for %s", t.what.c_str(), show(h).c_str()));
            else VH_CHECK(got == unhex(rr), "url/decode/wrong", "UrlDecode(%s) = %s, unquote_to_bytes gives %s", show(h).c_str(), show(got).c_str(), show(unhex(rr)).c_str());
        } else {
            vh::counter("url_decode_invalid");
            if (t.thrown) vh::counter("url_invalid_escape_thrown"); else vh::counter("url_invalid_escape_returned");
            VH_CHECK(got.size() <= h.size(), "url/decode/longer-than-input", "%zu bytes from %zu", got.size(), h.size());
        }
        vh::note_case(sig.h, true);
        return;
    }
    // Url struct helpers: clean behaviour only
    static const char alpha[] = "abcXYZ019:/@?#;=&%.-_~ +";
    size_t n = r.below(70);
    std::string u;
    if (r.chance(1, 2)) u = r.chance(1, 2) ? "http://" : "a://";
    for (size_t i = 0; i < n; ++i) u += r.chance(1, 12) ? (char)r.byte() : alpha[r.below(sizeof alpha - 1)];
    if (r.chance(1, 5)) u += ":99999999999999999999";
    sig.add(kind); sig.add(u);
    vh::st().case_desc = "url struct " + show(u);
    std::unique_ptr<std::string> src(new std::string(u.data(), u.size()));
    step("StringToUrl/Host/Path");
    Thrown t = guarded([&] {
        tbox::http::Url url;
        if (tbox::http::StringToUrl(*src, url)) { vh::counter("url_struct_parsed"); (void)tbox::http::UrlToString(url); }
        tbox::http::Url::Host host;
        if (tbox::http::StringToUrlHost(*src, host)) (void)tbox::http::UrlHostToString(host);
        tbox::http::Url::Path path;
        if (tbox::http::StringToUrlPath("/" + *src, path)) (void)tbox::http::UrlPathToString(path);
    });
    if (t.thrown) vh::counter("url_struct_threw");
    vh::counter("url_struct_calls");
    vh::note_case(sig.h, true);
}

// ---------------------------------------------------------------------------------------------
// CRC, checksums, MD5, AES
// ---------------------------------------------------------------------------------------------
std::string md5_of_pieces(const std::vector<std::string> &pieces) {
    tbox::crypto::MD5 m;
    std::vector<std::unique_ptr<In>> keep;
    for (auto &p : pieces) { keep.emplace_back(new In(p)); m.update(keep.back()->p, p.size()); }
    Out out(16);
    m.finish(out.p());
    out.check("md5-finish");
    return vh::hex(out.p(), 16);
}

// Large inputs (64 KiB .. 16 MiB): the message is `block` repeated and cut to n bytes, described to the reference by
// (n, block) so nothing big crosses the pipe. Sizes and fills are walked deterministically (k = number of the large case),
// so that every run - also a scaled-down one - meets inputs whose 16-bit word sum exceeds 2^32 and inputs of >= 1 MiB.
void digest_big_case(uint64_t idx, uint64_t k, vh::Rng &r) {
    static const size_t sizes[] = {131075, 262144, 1048576, 4194304, 65535, 65536, 65537, 131074, 131076, 262142, 262143,
                                   262145, 262146, 1048577, 8388611, 16777216, 200001, 524289, 2097150, 65538};
    const size_t NS = sizeof sizes / sizeof sizes[0];
    size_t n = sizes[k % NS];
    if (n >= (4u << 20) && (k / NS) % 2 == 1) n = (4u << 20) + r.below(12u << 20);     // every other round: some size in 4..16 MiB
    std::string block;
    unsigned fill = (unsigned)((k + k / NS) % 7);
    const char *fname;
    switch (fill) {
        case 0: block = std::string(1, (char)0xff); fname = "0xFF"; break;
        case 1: { size_t bl = r.pick(std::vector<size_t>{251, 509, 1021, 4099}); block = r.bytes(bl); fname = "random block, prime period"; break; }
        case 2: block = std::string(1, (char)0x80); fname = "0x80"; break;
        case 3: block = std::string("\xff\x00", 2); fname = "alternating ff 00"; break;
        case 4: block = std::string(1, (char)0x00); fname = "0x00"; break;
        case 5: block = std::string("\x00\xff", 2); fname = "alternating 00 ff"; break;
        default: { block = r.bytes(3 + r.below(30)); for (auto &c : block) c |= (char)0xc0; fname = "random high-valued block"; break; }
    }
    std::string data(n, '\0');
    {   // block repeated and cut to n bytes (doubling copy)
        size_t have = std::min(block.size(), n);
        memcpy(&data[0], block.data(), have);
        while (have < n) { size_t c = std::min(have - have % block.size(), n - have); memcpy(&data[have], &data[0], c); have += c; }
    }
    vh::Sig sig; sig.add(n); sig.add(block);
    vh::st().case_desc = vh::fmt("digest large input: %zu bytes, fill %s, block=%s", n, fname, show(block, 40).c_str());
    uint16_t seed16 = r.chance(1, 2) ? 0xffff : (uint16_t)r.next();
    uint32_t seed32 = r.chance(1, 2) ? 0xffffffffu : (uint32_t)r.next();
    std::string ans = refq(vh::fmt("big %zu %s %u %u", n, H(block).c_str(), seed16, seed32));
    unsigned long w16 = 0, w32 = 0, w8 = 0, ws16 = 0; char wmd5[40] = "";
    if (sscanf(ans.c_str(), "%lu %lu %lu %lu %39s", &w16, &w32, &w8, &ws16, wmd5) != 5) fatal("ref-bad-big");
    In in(data);
    // how far a 32-bit accumulator of the big-endian words would have to go (coverage counter only, not an oracle)
    uint64_t word_sum = 0;
    for (size_t i = 0; i + 1 < n; i += 2) word_sum += ((unsigned)(uint8_t)data[i] << 8) | (uint8_t)data[i + 1];
    if (n & 1) word_sum += (unsigned)(uint8_t)data[n - 1] << 8;
    uint64_t byte_sum = 0;
    for (size_t i = 0; i < n; ++i) byte_sum += (uint8_t)data[i];

    step("CalcCrc16 large n=%zu", n);
    unsigned got16 = tbox::util::CalcCrc16(in.p, n, seed16);
    VH_CHECK(got16 == w16, "crc16/wrong", "CalcCrc16(%zu bytes of %s, seed %u)=%u reference %lu", n, fname, seed16, got16, w16);
    step("CalcCrc32 large n=%zu", n);
    uint32_t got32 = tbox::util::CalcCrc32(in.p, n, seed32);
    VH_CHECK(got32 == w32, "crc32/wrong", "CalcCrc32(%zu bytes of %s, seed %u)=%u reference %lu", n, fname, seed32, got32, w32);
    step("CalcCheckSum8 large n=%zu", n);
    unsigned got8 = tbox::util::CalcCheckSum8(in.p, n);
    VH_CHECK(got8 == w8, "checksum8/wrong", "CalcCheckSum8(%zu bytes of %s)=%u reference %lu (plain byte sum %llu)", n, fname, got8, w8, (unsigned long long)byte_sum);
    step("CalcCheckSum16 large n=%zu", n);
    unsigned gots16 = tbox::util::CalcCheckSum16(in.p, n);
    VH_CHECK(gots16 == ws16, "checksum16/wrong", "CalcCheckSum16(%zu bytes of %s)=0x%04x reference 0x%04lx (plain word sum %llu = %.3f * 2^32)", n, fname, gots16, ws16,
             (unsigned long long)word_sum, (double)word_sum / 4294967296.0);
    {   // MD5: at once, and in a few big pieces cut at arbitrary offsets
        std::vector<size_t> cuts;
        size_t np = r.below(4);
        for (size_t i = 0; i < np; ++i) cuts.push_back(r.chance(1, 2) ? r.below(n + 1) : (r.below(n / 64 + 1) * 64) % (n + 1));
        cuts.push_back(0); cuts.push_back(n);
        std::sort(cuts.begin(), cuts.end());
        tbox::crypto::MD5 m;
        std::string desc;
        for (size_t i = 0; i + 1 < cuts.size(); ++i) { m.update(in.p + cuts[i], cuts[i + 1] - cuts[i]); desc += std::to_string(cuts[i + 1] - cuts[i]) + ","; }
        Out out(16);
        step("MD5 large n=%zu pieces %s", n, desc.c_str());
        m.finish(out.p()); out.check("md5-finish");
        VH_CHECK(vh::hex(out.p(), 16) == wmd5, "md5/wrong", "MD5 of %zu bytes of %s fed as pieces [%s] = %s, hashlib %s", n, fname, desc.c_str(), vh::hex(out.p(), 16).c_str(), wmd5);
        if (cuts.size() > 2) vh::counter("md5_multi_update");
    }
    vh::counter("digest_large_inputs");
    vh::counter("crc16"); vh::counter("crc32"); vh::counter("sum8"); vh::counter(n & 1 ? "sum16_odd" : "sum16_even");
    if (n >= (128u << 10)) vh::counter("sum16_input_ge_128KiB");
    if (word_sum >> 32) vh::counter("sum16_word_sum_exceeds_2p32");
    if (byte_sum >> 16) vh::counter("sum8_byte_sum_exceeds_2p16");
    if (n >= (1u << 20)) { vh::counter("crc_input_ge_1MiB"); vh::counter("md5_input_ge_1MiB"); }
    vh::counter_max("max_digest_input_bytes", n);
    vh::note_case(sig.h, true);
}

void digest_case(uint64_t idx, vh::Rng &r) {
    if (idx % 500 == 3) { digest_big_case(idx, idx / 500, r); return; }
    vh::Sig sig;
    static const size_t edges[] = {0, 1, 2, 3, 55, 56, 57, 63, 64, 65, 119, 120, 121, 127, 128, 129, 191, 192, 193};
    size_t n = r.chance(1, 3) ? r.pick(edges) : r.chance(1, 40) ? r.below(70000) : r.below(700);
    std::string data = gen_bytes(r, n);
    sig.add(data);
    std::string hd = H(data);
    vh::st().case_desc = vh::fmt("digest data[%zu]=%s", n, show(data).c_str());
    In in(data);
    std::string note;
    {   // CRC-16/CCITT (poly 0x1021, no reflection), default seed and an arbitrary one
        uint16_t seed = r.chance(1, 2) ? 0xffff : (uint16_t)r.next();
        step("CalcCrc16 seed=%u", seed);
        uint16_t got = seed == 0xffff && r.chance(1, 2) ? tbox::util::CalcCrc16(in.p, n) : tbox::util::CalcCrc16(in.p, n, seed);
        unsigned long want = strtoul(refq("crc16 " + hd + " " + std::to_string(seed)).c_str(), nullptr, 10);
        VH_CHECK(got == want, "crc16/wrong", "CalcCrc16(%zu bytes, seed %u)=%u reference %lu", n, seed, got, want);
        note += vh::fmt("crc16(seed 0x%04x)=0x%04x ", seed, got);
        vh::counter("crc16");
    }
    {   // CRC-32 (reflected 0xEDB88320, final inversion)
        uint32_t seed = r.chance(1, 2) ? 0xffffffffu : (uint32_t)r.next();
        step("CalcCrc32 seed=%u", seed);
        uint32_t got = seed == 0xffffffffu && r.chance(1, 2) ? tbox::util::CalcCrc32(in.p, n) : tbox::util::CalcCrc32(in.p, n, seed);
        unsigned long want = strtoul(refq("crc32 " + hd + " " + std::to_string(seed)).c_str(), nullptr, 10);
        VH_CHECK(got == want, "crc32/wrong", "CalcCrc32(%zu bytes, seed %u)=%u reference %lu", n, seed, got, want);
        note += vh::fmt("crc32(seed 0x%08x)=0x%08x ", seed, got);
        vh::counter("crc32");
    }
    {
        step("CalcCheckSum8/16");
        unsigned got8 = tbox::util::CalcCheckSum8(in.p, n);
        unsigned long want8 = strtoul(refq("sum8 " + hd).c_str(), nullptr, 10);
        VH_CHECK(got8 == want8, "checksum8/wrong", "CalcCheckSum8(%zu bytes)=%u reference %lu", n, got8, want8);
        unsigned got16 = tbox::util::CalcCheckSum16(in.p, n);
        unsigned long want16 = strtoul(refq("sum16 " + hd).c_str(), nullptr, 10);
        VH_CHECK(got16 == want16, "checksum16/wrong", "CalcCheckSum16(%zu bytes)=%u reference %lu", n, got16, want16);
        vh::counter("sum8"); vh::counter(n & 1 ? "sum16_odd" : "sum16_even");
        note += vh::fmt("sum8=0x%02x sum16=0x%04x ", got8, got16);
    }
    {   // MD5 over a random split into updates (zero-length pieces included)
        std::string want = refq("md5 " + hd);
        size_t k = 1 + r.below(7);
        std::vector<size_t> cuts;
        for (size_t i = 0; i + 1 < k; ++i) cuts.push_back(r.chance(1, 3) && n >= 64 ? (r.below(n / 64 + 1) * 64 + r.below(3) - 1) % (n + 1) : r.below(n + 1));
        cuts.push_back(0); cuts.push_back(n);
        std::sort(cuts.begin(), cuts.end());
        std::vector<std::string> pieces;
        for (size_t i = 0; i + 1 < cuts.size(); ++i) pieces.push_back(data.substr(cuts[i], cuts[i + 1] - cuts[i]));
        if (n == 0 && r.chance(1, 2)) pieces.clear();        // finish() with no update at all
        std::string desc;
        for (auto &p : pieces) { desc += std::to_string(p.size()); desc += ','; sig.add(p.size()); }
        step("MD5 pieces %s", desc.c_str());
        std::string got = md5_of_pieces(pieces);
        VH_CHECK(got == want, "md5/wrong", "MD5 of %zu bytes fed as pieces [%s] = %s, hashlib %s", n, desc.c_str(), got.c_str(), want.c_str());
        if (pieces.size() > 1) vh::counter("md5_multi_update");
        note += "md5[pieces " + desc + "]=" + got;
        for (size_t i = 1; i + 1 < cuts.size(); ++i) { if (cuts[i] % 64) vh::counter("md5_split_inside_block"); else if (cuts[i]) vh::counter("md5_split_on_block_edge"); }
        if (n >= 64) vh::counter("md5_multi_block");
    }
    for (int k = 0; k < 2; ++k) {   // AES-128 single block
        std::string key = gen_bytes(r, 16), blk = gen_bytes(r, 16);
        sig.add(key); sig.add(blk);
        vh::st().case_desc = vh::fmt("aes key=%s block=%s", vh::hex(key).c_str(), vh::hex(blk).c_str());
        In kin(key), bin(blk);
        std::unique_ptr<tbox::crypto::AES> aes;
        if (r.chance(1, 2)) aes.reset(new tbox::crypto::AES(kin.p));
        else { In other(gen_bytes(r, 16)); aes.reset(new tbox::crypto::AES(r.chance(1, 2) ? other.p : nullptr)); aes->setKey(kin.p); }
        Out ct(16), pt(16), pt2(16);
        step("AES cipher");
        aes->cipher(bin.p, ct.p()); ct.check("aes-cipher");
        std::string wantc = refq("aese " + vh::hex(key) + " " + vh::hex(blk));
        VH_CHECK(vh::hex(ct.p(), 16) == wantc, "aes/cipher/wrong", "key %s block %s -> %s, FIPS-197 reference %s", vh::hex(key).c_str(), vh::hex(blk).c_str(), vh::hex(ct.p(), 16).c_str(), wantc.c_str());
        In cin(std::string((char *)ct.p(), 16));
        step("AES invcipher(cipher)");
        aes->invcipher(cin.p, pt.p()); pt.check("aes-invcipher");
        VH_CHECK(memcmp(pt.p(), blk.data(), 16) == 0, "aes/roundtrip/wrong", "invcipher(cipher(%s)) = %s under key %s", vh::hex(blk).c_str(), vh::hex(pt.p(), 16).c_str(), vh::hex(key).c_str());
        step("AES invcipher(block)");
        aes->invcipher(bin.p, pt2.p()); pt2.check("aes-invcipher");
        std::string wantd = refq("aesd " + vh::hex(key) + " " + vh::hex(blk));
        VH_CHECK(vh::hex(pt2.p(), 16) == wantd, "aes/invcipher/wrong", "key %s block %s -> %s, FIPS-197 reference %s", vh::hex(key).c_str(), vh::hex(blk).c_str(), vh::hex(pt2.p(), 16).c_str(), wantd.c_str());
        vh::counter("aes_cipher"); vh::counter("aes_invcipher", 2);
    }
    vh::note_case(sig.h, true);
    if (n && n < 24 && want1())
        vh::sample("{\"mode\":\"digest\",\"data_hex\":" + vh::jstr(vh::hex(data)) + ",\"observed_equal_to_reference\":" + vh::jstr(note) + "}", 1);
}

// every split of an n-byte message into three updates (0 <= i <= j <= n), one case per n
// Messages around 2^29 bytes (2^32 bits: the low word of MD5's bit counter wraps into the high word), zero-filled.
// One case = one (length, feeding shape). The buffer is calloc'd (untouched zero pages) and exactly sized.
// Reference digests were produced once with python 3.11 hashlib, feeding bytes(1 << 20) repeatedly:
//   h = hashlib.md5(); z = bytes(1 << 20); [h.update(z[:k]) for the n bytes]; h.hexdigest()
// and agree with RFC 1321's reference code (which casts the bit count: `(UINT4)inputLen << 3`).
struct Md5Huge { size_t n; const char *md5; };
const Md5Huge kMd5Huge[] = {
    {((size_t)1 << 29) - 64,   "250787e94adcb52421d6b4bc4725aa2f"},   // 536870848: one block short of the wrap
    {((size_t)1 << 29) - 1,    "c6c4834a7b0928878ad48c867a1e24d6"},   // 536870911: bit count 2^32-8, the largest that fits the low word
    {((size_t)1 << 29),        "aa559b4e3523a6c931f08f4df52d58f2"},   // 536870912: bit count exactly 2^32
    {((size_t)1 << 29) + 1000, "b0b9022bf39b2600fd66892a61a628c7"},   // 536871912
};
enum { kMd5HugeShapes = 4, kMd5HugeCases = 4 * kMd5HugeShapes };

void md5huge_case(uint64_t idx, vh::Rng &) {
    if (idx >= kMd5HugeCases) return;
    // order: the two lengths at/above the wrap first, so a reduced (quick) set of 8 cases covers every shape on them
    static const int order[4] = {2, 3, 1, 0};
    const Md5Huge &m = kMd5Huge[order[idx / kMd5HugeShapes]];
    const unsigned shape = (unsigned)(idx % kMd5HugeShapes);
    static const char *shape_name[] = {"one update()", "1 MiB pieces", "300 MiB + rest", "37 bytes, then pieces of 96 MiB + 5"};
    vh::st().case_desc = vh::fmt("md5-huge: %zu zero bytes fed as %s", m.n, shape_name[shape]);
    uint8_t *buf = (uint8_t *)calloc(m.n, 1);
    if (!buf) fatal("calloc-512MiB");
    tbox::crypto::MD5 md5;
    size_t pos = 0, calls = 0, biggest = 0;
    auto feed = [&](size_t k) { if (k > m.n - pos) k = m.n - pos; md5.update(buf + pos, k); pos += k; ++calls; if (k > biggest) biggest = k; };
    step("MD5 of %zu zero bytes as %s", m.n, shape_name[shape]);
    switch (shape) {
        case 0: feed(m.n); break;
        case 1: while (pos < m.n) feed((size_t)1 << 20); break;
        case 2: feed((size_t)300 << 20); feed(m.n); break;
        default: feed(37); while (pos < m.n) feed(((size_t)96 << 20) + 5); break;
    }
    Out out(16);
    md5.finish(out.p());
    out.check("md5-finish");
    free(buf);
    std::string got = vh::hex(out.p(), 16);
    if (got != m.md5)
        vh::viol(shape == 0 ? "md5/huge/single-update-digest-mismatch" : "md5/huge/multi-update-digest-mismatch",
                 vh::fmt("MD5 of %zu zero bytes (%s, %zu update() calls, largest %zu bytes) = %s, RFC 1321 / hashlib give %s",
                         m.n, shape_name[shape], calls, biggest, got.c_str(), m.md5));
    vh::counter("md5_huge_cases");
    if (m.n >= ((size_t)1 << 29)) {
        vh::counter(shape == 0 ? "md5_single_update_ge_512MiB" : "md5_multi_update_total_ge_512MiB");
        if (shape == 3) vh::counter("md5_huge_misaligned_first_piece");
    } else vh::counter("md5_huge_just_below_512MiB");
    vh::counter_max("max_md5_message_bytes", m.n);
    vh::Sig sig; sig.add(m.n); sig.add(shape);
    vh::note_case(sig.h, true);
    if (idx == 1 && vh::st().args.first <= 1)
        vh::sample(vh::fmt("{\"mode\":\"md5-huge\",\"zero_bytes\":%zu,\"fed_as\":\"%s\",\"update_calls\":%zu,\"md5\":\"%s\",\"reference\":\"%s\"}",
                           m.n, shape_name[shape], calls, got.c_str(), m.md5), 5);
}

void md5split_case(uint64_t idx, vh::Rng &r) {
    const size_t n = (size_t)idx;
    unsigned mul = 1 + 2 * (unsigned)(vh::st().args.seed % 97), add = (unsigned)(vh::st().args.seed / 97 % 251);
    std::string msg(n, '\0');
    for (size_t i = 0; i < n; ++i) msg[i] = (char)((i * mul + add) & 255);
    std::string want = refq(vh::fmt("md5pat %zu %u %u", n, mul, add));
    In in(msg);
    vh::st().case_desc = vh::fmt("md5split n=%zu mul=%u add=%u", n, mul, add);
    uint64_t bad = 0, done = 0;
    for (size_t i = 0; i <= n; ++i)
        for (size_t j = i; j <= n; ++j) {
            tbox::crypto::MD5 m;
            m.update(in.p, i);
            m.update(in.p + i, j - i);
            m.update(in.p + j, n - j);
            uint8_t dg[16];
            m.finish(dg);
            ++done;
            if (vh::hex(dg, 16) != want && bad++ < 2)
                vh::viol("md5/split/wrong", vh::fmt("n=%zu pieces [%zu,%zu,%zu] digest %s, hashlib %s", n, i, j - i, n - j, vh::hex(dg, 16).c_str(), want.c_str()));
        }
    vh::counter("md5_three_way_splits", done);
    if (n > 64) vh::counter("md5_multi_block");
    vh::Sig sig; sig.add(n); sig.add(mul); sig.add(add);
    vh::note_case(sig.h, true);
    if (n == 65 || n == 3) vh::sample(vh::fmt("{\"mode\":\"md5split\",\"n\":%zu,\"splits_checked\":%llu,\"md5\":\"%s\"}", n, (unsigned long long)done, want.c_str()), 5);
}

}  // namespace

int main(int argc, char **argv) {
    vh::parse_args(argc, argv);
    const std::string mode = vh::st().args.mode;
    if (mode == "xcount") { printf("%llu\n", (unsigned long long)sint_x_total()); return 0; }
    c19::g_verbose = vh::st().args.verbose;
    int rc = vh::run(argc, argv, [&](uint64_t idx, vh::Rng &r) {
        if (mode == "base64") base64_case(idx, r);
        else if (mode == "hex") hex_case(idx, r);
        else if (mode == "scalable") scalable_case(idx, r);
        else if (mode == "scalable-x") { if (idx < sint_x_total()) scalable_x_case(idx, r); }
        else if (mode == "serializer") serializer_case(idx, r);
        else if (mode == "url") url_case(idx, r);
        else if (mode == "digest") digest_case(idx, r);
        else if (mode == "md5split") md5split_case(idx, r);
        else if (mode == "md5-huge") md5huge_case(idx, r);
        else c19::fatal("unknown-mode");
    });
    c19::ref_stop();
    return rc;
}
