// C12, parser level: RequestParser driven exactly as server_imp.cpp drives it (append the segment to the pending
// bytes, parse(readable), drop the bytes it says it consumed, collect the request on kFinishedAll, stop on kFail).
//
// modes
//   segment   one case = one stream of 1..6 well-formed requests with declared body lengths; fed unsegmented, split in two
//             at EVERY position (exhaustive per stream), byte by byte, and at random multi-cut sets; every feed must give
//             the generator's ground-truth request sequence and consume exactly the stream
//   bigsplit  the same with bodies up to 70 kB and random cut sets only (no per-position enumeration)
//   hostile   one case = one byte sequence that is NOT promised to be well-formed (random bytes, token soup, mutated valid
//             streams: non-numeric / negative / huge Content-Length, missing colon, bare CR, NULs, broken escapes ...) in a
//             random segmentation: parse() must return (no exception), never claim more than it was given, make progress,
//             and whatever it hands out must be a complete request object
// The bytes handed to parse() are an exactly sized heap block, so a read past the end is an AddressSanitizer report.
#include "c12_gen.hpp"
#include <tbox/http/server/request_parser.h>
#include <memory>
#include <stdexcept>
#include <typeinfo>
#include <cxxabi.h>

using tbox::http::Request;
using tbox::http::server::RequestParser;
using namespace c12;

namespace {

const char *state_name(RequestParser::State s) {
    switch (s) {
        case RequestParser::State::kInit: return "kInit";
        case RequestParser::State::kFinishedStartLine: return "kFinishedStartLine";
        case RequestParser::State::kFinishedHeads: return "kFinishedHeads";
        case RequestParser::State::kFinishedAll: return "kFinishedAll";
        case RequestParser::State::kFail: return "kFail";
    }
    return "?";
}

struct Feed {
    std::vector<std::string> got;     // canonical rendering of every request handed out
    bool failed = false;              // parser went to kFail
    size_t fail_at = 0;               // stream offset of the first unconsumed byte at that point
    std::string exc;                  // non-empty: exception type escaped from parse()
    bool overclaim = false;
    bool stuck = false;               // kFinishedAll out of a call that consumed nothing (the server's loop would spin on it)
    std::string short_body;           // non-empty: a request was handed out with fewer/more body bytes than its decimal Content-Length
    size_t consumed = 0;
    size_t leftover = 0;
    size_t fed = 0;
    RequestParser::State end_state = RequestParser::State::kInit;
    size_t parse_calls = 0;
};

std::string demangled_current_exception() {
    int st = 0;
    std::type_info *ti = abi::__cxa_current_exception_type();
    if (!ti) return "unknown";
    char *d = abi::__cxa_demangle(ti->name(), nullptr, nullptr, &st);
    std::string n = (st == 0 && d) ? d : ti->name();
    free(d);
    return n;
}

//! the server's receive path, with the readable bytes presented as an exactly sized heap block
Feed feed(const std::vector<std::string> &segs, bool count_mechanisms) {
    Feed f;
    RequestParser parser;
    std::string pending;
    for (const std::string &seg : segs) {
        pending += seg;
        f.fed += seg.size();
        size_t guard = 0;
        while (!pending.empty()) {
            size_t n = pending.size();
            std::unique_ptr<char[]> blk(new char[n]);
            memcpy(blk.get(), pending.data(), n);
            size_t used = 0;
            RequestParser::State before = parser.state();
            ++f.parse_calls;
            try {
                used = parser.parse(blk.get(), n);
            } catch (...) {
                f.exc = demangled_current_exception();
                f.leftover = pending.size();
                return f;
            }
            if (used > n) { f.overclaim = true; f.leftover = pending.size(); return f; }
            pending.erase(0, used);
            f.consumed += used;
            RequestParser::State st = parser.state();
            if (count_mechanisms) {
                if (before != RequestParser::State::kInit) {
                    if (before == RequestParser::State::kFinishedStartLine) vh::counter("parse_resumed_in_headers");
                    else if (before == RequestParser::State::kFinishedHeads) vh::counter("parse_resumed_in_body");
                } else if (used == 0 && st == RequestParser::State::kInit) vh::counter("parse_waits_for_request_line");
                if (st != RequestParser::State::kFinishedAll && st != RequestParser::State::kFail && !pending.empty())
                    vh::counter("unconsumed_bytes_left_in_buffer");
            }
            if (st == RequestParser::State::kFinishedAll) {
                Request *req = parser.getRequest();
                if (req == nullptr) { f.stuck = true; f.leftover = pending.size(); return f; }
                f.got.push_back(canon(*req));
                std::string declared;
                if (f.short_body.empty() && !declared_length_honoured(*req, &declared))
                    f.short_body = vh::fmt("Content-Length %s, body of %zu bytes, parse() returned %zu of %zu", declared.c_str(), req->body.size(), used, n);
                delete req;
                // a request out of a call that consumed nothing: server_imp.cpp's `while (readableSize() > 0)` would deliver it for ever
                if (used == 0) { f.stuck = true; f.leftover = pending.size(); f.end_state = st; return f; }
                (void)guard;
            } else if (st == RequestParser::State::kFail) {
                f.failed = true;
                f.fail_at = f.consumed;
                f.leftover = pending.size();
                f.end_state = st;
                return f;
            } else {
                break;      // needs more bytes
            }
        }
    }
    f.leftover = pending.size();
    f.end_state = parser.state();
    return f;
}

std::string cuts_str(const Cuts &c) {
    std::string s = "[";
    for (size_t i = 0; i < c.size() && i < 24; ++i) { if (i) s += ","; s += std::to_string(c[i]); }
    if (c.size() > 24) s += ",...";
    return s + "]";
}

struct Stream {
    std::vector<Truth> reqs;
    std::vector<std::string> want;
    std::string bytes;
};

Stream gen_stream(vh::Rng &r, const GenOpts &o, int max_reqs) {
    Stream s;
    int n = (int)r.range(1, max_reqs);
    for (int i = 0; i < n; ++i) {
        s.reqs.push_back(gen_request(r, i, o, -1));
        s.want.push_back(canon(s.reqs.back()));
        s.bytes += s.reqs.back().wire;
    }
    return s;
}

//! compare one feed with the ground truth; returns false (and reports) on the first discrepancy
bool judge(const Stream &s, const Cuts &cuts, const Feed &f, const char *how) {
    Where w0 = cuts.empty() ? Where{0, "none"} : locate(s.reqs, cuts[0]);
    auto ctx = [&]() {
        return vh::fmt("%s feed, cuts=%s (first cut %s of request %d), stream of %zu requests / %zu bytes", how, cuts_str(cuts).c_str(),
                       w0.what, w0.req, s.reqs.size(), s.bytes.size());
    };
    if (!f.exc.empty()) {
        vh::viol("segment/exception/" + f.exc, ctx() + ": parse() threw on a well-formed stream after " + std::to_string(f.got.size()) + " requests");
        return false;
    }
    if (f.overclaim) { vh::viol("segment/consumed-more-than-given", ctx()); return false; }
    if (f.stuck) { vh::viol("segment/no-progress", ctx()); return false; }
    if (!f.short_body.empty()) { vh::viol("segment/body-differs-from-declared-length", ctx() + ": " + f.short_body); return false; }
    if (f.failed) {
        // narrow the key by where the segment that was being parsed ended (the history shape of the failure)
        std::string shape = "other";
        for (size_t c : cuts) {
            if (c <= f.fail_at) continue;
            Where w = locate(s.reqs, c);
            shape = w.what;
            break;
        }
        vh::viol("segment/well-formed-stream-rejected/segment-ends-" + shape,
                 ctx() + vh::fmt(": parser went to kFail at stream offset %zu after handing out %zu of %zu requests; pending bytes began with '%s'",
                                 f.fail_at, f.got.size(), s.want.size(), printable(s.bytes.substr(f.fail_at, 24)).c_str()));
        return false;
    }
    size_t n = std::min(f.got.size(), s.want.size());
    for (size_t i = 0; i < n; ++i) {
        if (f.got[i] != s.want[i]) {
            vh::viol("segment/request-differs", ctx() + vh::fmt(": request %zu parsed as {%s} but was generated as {%s}", i,
                                                              brief(f.got[i]).c_str(), brief(s.want[i]).c_str()));
            return false;
        }
    }
    if (f.got.size() != s.want.size()) {
        vh::viol(f.got.size() < s.want.size() ? "segment/requests-missing" : "segment/requests-invented",
                 ctx() + vh::fmt(": %zu requests handed out, %zu sent; end state %s, %zu bytes left unconsumed", f.got.size(), s.want.size(),
                                 state_name(f.end_state), f.leftover));
        return false;
    }
    if (f.consumed != s.bytes.size() || f.leftover != 0 || f.end_state != RequestParser::State::kInit) {
        vh::viol("segment/stream-not-consumed-exactly", ctx() + vh::fmt(": consumed %zu of %zu, %zu left, end state %s", f.consumed, s.bytes.size(),
                                                                      f.leftover, state_name(f.end_state)));
        return false;
    }
    return true;
}

void count_cut(const Stream &s, size_t c) {
    vh::counter(std::string("cut_") + locate(s.reqs, c).what);
}

void sample_stream(const Stream &s, const char *mode, size_t feeds) {
    if (vh::st().args.first != 0 || !vh::want_sample(1)) return;    // one sample per leg (the driver keeps six in all)
    std::string j = "{\"mode\":" + vh::jstr(mode) + ",\"requests\":" + std::to_string(s.reqs.size()) + ",\"bytes\":" + std::to_string(s.bytes.size()) +
                    ",\"feeds\":" + std::to_string(feeds) + ",\"stream_prefix\":" + vh::jstr(s.bytes.substr(0, 260)) + ",\"first_request_parsed_as\":" +
                    vh::jstr(brief(s.want[0], 200)) + "}";
    vh::sample(j, 1);
}

void case_segment(vh::Rng &r, bool big) {
    GenOpts o;
    if (big) { o.max_body = 2000; o.big_body_1_in = 2; }
    else { o.max_body = r.chance(1, 8) ? 300 : 40; }
    Stream s = gen_stream(r, o, big ? 4 : 6);
    const size_t L = s.bytes.size();
    vh::st().case_desc = vh::fmt("%zu requests, %zu bytes: %s", s.reqs.size(), L, printable(s.bytes, 700).c_str());
    vh::Sig sig; sig.add(s.bytes);
    size_t feeds = 0;
    bool ok = true;

    // unsegmented
    {
        Feed f = feed({s.bytes}, true);
        ++feeds;
        vh::counter("feeds_unsegmented");
        vh::counter("requests_parsed", f.got.size());
        ok = judge(s, Cuts(), f, "unsegmented");
    }
    // every single split position
    if (!big) {
        int reported = 0;
        for (size_t p = 1; p < L; ++p) {
            Cuts c{p};
            Feed f = feed(split_at(s.bytes, c), true);
            ++feeds;
            count_cut(s, p);
            if (!judge(s, c, f, "two-segment")) { ok = false; if (++reported >= 2) break; }
        }
        vh::counter("streams_with_every_split_position");
        vh::counter("feeds_two_segments", L ? L - 1 : 0);
    }
    // byte by byte
    if (!big || L < 6000) {
        Cuts c;
        for (size_t p = 1; p < L; ++p) c.push_back(p);
        Feed f = feed(split_at(s.bytes, c), true);
        ++feeds;
        vh::counter("feeds_bytewise");
        if (!judge(s, c, f, "byte-by-byte")) ok = false;
    }
    // random multi-cut sets, some aimed at the landmarks
    int sets = big ? 12 : 6;
    for (int k = 0; k < sets; ++k) {
        Cuts c = random_cuts(r, L, (size_t)r.range(2, 9));
        if (r.chance(1, 2)) {       // add cuts right at / around landmarks of a random request
            size_t base = 0, ri = r.below(s.reqs.size());
            for (size_t i = 0; i < ri; ++i) base += s.reqs[i].wire.size();
            const Truth &t = s.reqs[ri];
            size_t marks[] = {base + t.line_end, base + t.line_end + 1, base + t.line_end + 2, base + t.head_end - 3, base + t.head_end - 2,
                              base + t.head_end - 1, base + t.head_end, base + t.head_end + 1, base + t.wire.size() - 1, base + t.wire.size(), base + 1,
                              base + t.cl_value_off, base + t.cl_value_off + 1};
            for (int q = 0; q < 3; ++q) { size_t m = marks[r.below(sizeof marks / sizeof marks[0])]; if (m > 0 && m < L) c.push_back(m); }
            std::sort(c.begin(), c.end());
            c.erase(std::unique(c.begin(), c.end()), c.end());
        }
        Feed f = feed(split_at(s.bytes, c), true);
        ++feeds;
        vh::counter("feeds_random_cut_sets");
        for (size_t p : c) count_cut(s, p);
        if (!judge(s, c, f, "multi-segment")) ok = false;
    }
    for (auto &t : s.reqs) {
        if (t.body.size() > 1024) vh::counter("body_over_1k");
        if (t.body.find("\r\n\r\n") != std::string::npos) vh::counter("body_contains_blank_line");
        if (t.ver == 10) vh::counter("requests_http10");
        if (!t.params.empty()) vh::counter("targets_with_params");
        if (!t.query.empty()) vh::counter("targets_with_query");
        if (t.wire.substr(0, t.line_end).find('%') != std::string::npos) vh::counter("targets_with_escapes");
    }
    vh::counter("requests_generated", s.reqs.size());
    sample_stream(s, big ? "bigsplit" : "segment", feeds);
    (void)ok;
    vh::note_case(sig.h, s.reqs.size() >= 2 || L >= 60);
}

void case_hostile(vh::Rng &r) {
    std::string what, bytes;
    unsigned kind = (unsigned)r.below(11);
    if (kind == 10) {
        std::string cls; bool tail = false;
        bytes = boundary_length_stream(r, 0, &what, &cls, &tail);
        vh::counter("hostile_cl_" + cls);
        vh::counter(tail ? "hostile_cl_boundary_with_bytes_following" : "hostile_cl_boundary_without_body");
    } else if (kind < 6) {
        GenOpts o; o.max_body = 30;
        Stream s = gen_stream(r, o, 3);
        bytes = mutate(r, s.reqs, &what);
        vh::counter("hostile_mutated_valid_stream");
    } else {
        bytes = garbage(r, &what);
        vh::counter("hostile_unstructured");
    }
    if (what.find("content-length=") != std::string::npos) vh::counter("hostile_content_length_value_mutated");
    if (what.find("drop-colon") != std::string::npos) vh::counter("hostile_missing_colon");
    if (what.find("bare-cr") != std::string::npos) vh::counter("hostile_bare_cr");
    if (what.find("nul") != std::string::npos) vh::counter("hostile_nul");
    if (what.find("bad-escape") != std::string::npos) vh::counter("hostile_bad_escape");
    const size_t L = bytes.size();
    vh::Sig sig; sig.add(bytes);
    int feeds = 1 + (L > 1 ? 3 : 0);
    for (int k = 0; k < feeds; ++k) {
        Cuts c;
        if (k == 1) c = random_cuts(r, L, 1);
        else if (k == 2) c = random_cuts(r, L, (size_t)r.range(2, 8));
        else if (k == 3 && L <= 400) for (size_t p = 1; p < L; ++p) c.push_back(p);
        vh::st().case_desc = vh::fmt("%s cuts=%s bytes(%zu)=%s", what.c_str(), cuts_str(c).c_str(), L, printable(bytes, 600).c_str());
        Feed f = feed(split_at(bytes, c), false);
        vh::counter("hostile_feeds");
        if (!f.exc.empty()) {
            vh::counter("hostile_exception_seen");
            vh::viol("parser/exception/" + f.exc, vh::fmt("parse() threw %s; %zu bytes pending began with '%s'", f.exc.c_str(), f.leftover,
                                                         printable(bytes.substr(f.consumed, 60)).c_str()));
            break;
        }
        if (f.overclaim) { vh::viol("parser/consumed-more-than-given", "parse() returned more than data_size"); break; }
        if (f.stuck) {
            vh::viol("parser/no-progress/finished-without-consuming", vh::fmt("parse() returned 0 with state kFinishedAll after %zu requests: the receive loop of the server "
                                                                              "would hand the same request out for ever; %zu bytes pending", f.got.size(), f.leftover));
            break;
        }
        if (!f.short_body.empty()) { vh::viol("parser/body-differs-from-declared-length", f.short_body); break; }
        if (f.consumed + f.leftover != f.fed) { vh::viol("parser/accounting", vh::fmt("consumed %zu + left %zu != fed %zu", f.consumed, f.leftover, f.fed)); break; }
        if (f.failed) vh::counter("hostile_rejected");
        else if (!f.got.empty()) vh::counter("hostile_yielded_requests");
        else vh::counter("hostile_waiting_for_more");
    }
    if (vh::st().args.first == 0 && vh::want_sample(1)) vh::sample("{\"mode\":\"hostile\",\"edits\":" + vh::jstr(what) + ",\"bytes\":" + vh::jstr(bytes.substr(0, 240)) + "}", 1);
    vh::note_case(sig.h, L >= 4);
}

}  // namespace

int main(int argc, char **argv) {
    return vh::run(argc, argv, [](uint64_t, vh::Rng &r) {
        const std::string &m = vh::st().args.mode;
        if (m == "segment") case_segment(r, false);
        else if (m == "bigsplit") case_segment(r, true);
        else case_hostile(r);
    });
}
