// C15 reference: an independent, strict reader of DNS reply datagrams (RFC 1035 wire format).
// Written from the RFC, not from modules/network/dns_request.cpp. It answers three questions about a datagram:
//   1. classify(): is it a well-formed reply in the narrow sense every real server output satisfies (STRICT), and
//      if so which A / CNAME records does its answer section carry;  if not, where is the first malformation;
//   2. accepts(): could a given reported (A list, CNAME list) have been read out of this datagram at all - i.e. is
//      each list an in-order sub-sequence of the answer records that are completely present in the datagram, every record
//      being framed by its RDLENGTH (slack behind an address or a CNAME's name is opaque; only where a CNAME's name runs
//      past its RDATA are both continuations tolerated);
//   3. chain_depth(): how many compression pointers does following any name in the datagram take (the harness
//      isolates datagrams with long or cyclic chains in a child process).
#ifndef VERIF_C15_REF_HPP
#define VERIF_C15_REF_HPP

#include <cstdint>
#include <cstring>
#include <string>
#include <vector>
#include <set>
#include <tuple>

namespace c15ref {

struct Name {
    bool ok = false;
    std::string text;        //! labels joined by '.', raw bytes
    size_t end = 0;          //! offset just after the name in the stream it was started in
    int jumps = 0;           //! compression pointers followed
    bool ext_label = false;  //! a length octet with top bits 01 / 10 (reserved)
    bool fwd_ptr = false;    //! a pointer that does not point strictly backwards
    bool odd_char = false;   //! a label byte outside [A-Za-z0-9_-]
    bool long_label = false; //! a label longer than 63
    size_t wire_len = 0;     //! sum of (1 + label length) + 1
    const char *why = "";    //! first malformation
};

inline Name decode_name(const uint8_t *p, size_t n, size_t off) {
    Name r;
    size_t cur = off;
    bool jumped = false;
    bool first = true;
    for (;;) {
        if (cur >= n) { r.why = "name-past-end"; return r; }
        uint8_t len = p[cur];
        if (len == 0) {
            if (!jumped) r.end = cur + 1;
            r.wire_len += 1;
            break;
        }
        if ((len & 0xc0) == 0xc0) {
            if (cur + 1 >= n) { r.why = "pointer-cut"; return r; }
            size_t tgt = (size_t(len & 0x3f) << 8) | p[cur + 1];
            if (!jumped) r.end = cur + 2;
            jumped = true;
            if (tgt >= n) { r.why = "pointer-out-of-range"; return r; }
            if (tgt >= cur) r.fwd_ptr = true;
            if (++r.jumps > int(n) + 1) { r.why = "pointer-loop"; return r; }
            cur = tgt;
            continue;
        }
        if (len & 0xc0) r.ext_label = true;
        if (len > 63) r.long_label = true;
        if (cur + 1 + len > n) { r.why = "label-past-end"; return r; }
        if (!first) r.text += '.';
        first = false;
        for (size_t i = 0; i < len; ++i) {
            uint8_t c = p[cur + 1 + i];
            bool plain = (c >= 'a' && c <= 'z') || (c >= 'A' && c <= 'Z') || (c >= '0' && c <= '9') || c == '-' || c == '_';
            if (!plain) r.odd_char = true;
            r.text += char(c);
        }
        r.wire_len += 1 + len;
        cur += 1 + len;
    }
    r.ok = true;
    return r;
}

//! the presentation form both sides are compared in: trailing dots dropped ("abc." and "abc" are one name)
inline std::string norm_name(std::string s) {
    while (!s.empty() && s.back() == '.') s.pop_back();
    return s;
}

//! what a C string copy of each label would give (used only to classify a mismatch, never to excuse one)
inline std::string nul_cut_labels(const uint8_t *p, size_t n, size_t off) {
    // re-walk the name label by label, cutting each label at its first NUL
    std::string out;
    size_t cur = off;
    bool first = true;
    int jumps = 0;
    for (;;) {
        if (cur >= n) return out;
        uint8_t len = p[cur];
        if (len == 0) break;
        if ((len & 0xc0) == 0xc0) {
            if (cur + 1 >= n) return out;
            size_t tgt = (size_t(len & 0x3f) << 8) | p[cur + 1];
            if (tgt >= n || ++jumps > int(n) + 1) return out;
            cur = tgt;
            continue;
        }
        if (cur + 1 + len > n) return out;
        if (!first) out += '.';
        first = false;
        for (size_t i = 0; i < len; ++i) {
            if (p[cur + 1 + i] == 0) break;
            out += char(p[cur + 1 + i]);
        }
        cur += 1 + len;
    }
    return out;
}

struct RecA { uint32_t ttl; uint8_t ip[4]; };
struct RecC { uint32_t ttl; std::string name; size_t rdata_off; };

inline uint16_t rd16(const uint8_t *p) { return uint16_t(p[0] << 8 | p[1]); }
inline uint32_t rd32(const uint8_t *p) { return uint32_t(p[0]) << 24 | uint32_t(p[1]) << 16 | uint32_t(p[2]) << 8 | p[3]; }

struct Info {
    size_t size = 0;
    bool has_id = false, has_flags = false, has_header = false;
    uint16_t id = 0, flags = 0, qd = 0, an = 0, ns = 0, ar = 0;
    bool strict = false;           //! narrow well-formed reply (see strict rules below)
    bool framed = false;           //! all four sections parse under RDLENGTH framing and end exactly at the end of the datagram
                                   //! (strict, or kept out of strict only by a soft reason such as slack behind a CNAME's name):
                                   //! a, c are then THE reading of the answer section
    unsigned n_slack_cname = 0;    //! answer-section CNAMEs whose RDLENGTH exceeds their name
    std::string why;               //! "ok" or the first thing that keeps it from being strict
    std::vector<RecA> a;           //! answer-section A records (valid when strict)
    std::vector<RecC> c;           //! answer-section CNAME records (valid when strict)
    unsigned n_other = 0;          //! answer records of other types (valid when strict)
    int max_jumps = 0;
    bool uses_compression = false;
};

// STRICT = what every real server reply satisfies and any sane client must accept:
//   12-byte header, QR=1, opcode 0, TC=0, Z=0, exactly one question; all four sections parse with the counts given
//   and the message ends exactly where the last record ends; every name: labels <= 63, total <= 255, label bytes in
//   [A-Za-z0-9_-], compression pointers strictly backwards, at most 8 of them per name; RDLENGTH of every A record
//   is 4, a CNAME's name fills its RDATA exactly, every other RDATA lies inside the datagram; answer-section A and
//   CNAME records are class IN.
inline Info classify(const uint8_t *p, size_t n) {
    Info r;
    r.size = n;
    if (n >= 2) { r.has_id = true; r.id = rd16(p); }
    if (n >= 4) { r.has_flags = true; r.flags = rd16(p + 2); }
    if (n < 12) { r.why = n < 4 ? "short-no-flags" : "short-header"; return r; }
    r.has_header = true;
    r.qd = rd16(p + 4); r.an = rd16(p + 6); r.ns = rd16(p + 8); r.ar = rd16(p + 10);
    bool soft = false;     // parses, but outside the narrow class
    std::string softwhy;
    auto softfail = [&](const char *w) { if (!soft) { soft = true; softwhy = w; } };
    if ((r.flags & 0x8000) == 0) softfail("not-a-reply");
    if (r.flags & 0x7800) softfail("opcode-nonzero");
    if (r.flags & 0x0200) softfail("tc-set");
    if (r.flags & 0x0070) softfail("z-bits");
    if (r.qd != 1) softfail("qdcount-not-one");
    size_t off = 12;
    auto name_checks = [&](const Name &nm) {
        if (nm.jumps > r.max_jumps) r.max_jumps = nm.jumps;
        if (nm.jumps) r.uses_compression = true;
        if (nm.ext_label) softfail("reserved-label-type");
        else if (nm.long_label) softfail("label-over-63");
        if (nm.fwd_ptr) softfail("forward-pointer");
        if (nm.odd_char) softfail("odd-label-byte");
        if (nm.wire_len > 255) softfail("name-over-255");
        if (nm.jumps > 8) softfail("deep-pointer-chain");
    };
    for (unsigned i = 0; i < r.qd; ++i) {
        Name nm = decode_name(p, n, off);
        if (!nm.ok) { r.why = std::string("question-") + nm.why; return r; }
        name_checks(nm);
        off = nm.end;
        if (off + 4 > n) { r.why = "question-cut"; return r; }
        off += 4;
    }
    for (unsigned sec = 0; sec < 3; ++sec) {
        unsigned cnt = sec == 0 ? r.an : sec == 1 ? r.ns : r.ar;
        const char *sn = sec == 0 ? "answer" : sec == 1 ? "authority" : "additional";
        for (unsigned i = 0; i < cnt; ++i) {
            Name nm = decode_name(p, n, off);
            if (!nm.ok) { r.why = std::string(sn) + "-owner-" + nm.why; return r; }
            name_checks(nm);
            off = nm.end;
            if (off + 10 > n) { r.why = std::string(sn) + "-record-header-cut"; return r; }
            uint16_t type = rd16(p + off);
            uint16_t cls = rd16(p + off + 2);
            uint32_t ttl = rd32(p + off + 4);
            uint16_t rdlen = rd16(p + off + 8);
            off += 10;
            if (off + rdlen > n) { r.why = std::string(sn) + "-rdata-cut"; return r; }
            if (sec == 0 && (type == 1 || type == 5) && cls != 1) softfail("class-not-in");
            if (type == 1) {
                if (rdlen != 4) { r.why = std::string(sn) + "-a-rdlength-not-4"; return r; }
                if (sec == 0) { RecA a; a.ttl = ttl; memcpy(a.ip, p + off, 4); r.a.push_back(a); }
            } else if (type == 5) {
                Name cn = decode_name(p, n, off);
                if (!cn.ok) { r.why = std::string(sn) + "-cname-" + cn.why; return r; }
                name_checks(cn);
                // RDLENGTH frames the record: a name that runs past it is malformed; a name that ends before it leaves opaque
                // slack bytes that belong to this record and to nothing else (the next record starts at RDATA + RDLENGTH)
                if (cn.end > off + rdlen) { r.why = std::string(sn) + "-cname-overruns-rdata"; return r; }
                if (cn.end < off + rdlen) { softfail("cname-rdlength-longer-than-name"); if (sec == 0) ++r.n_slack_cname; }
                if (sec == 0) { RecC c; c.ttl = ttl; c.name = cn.text; c.rdata_off = off; r.c.push_back(c); }
            } else {
                if (sec == 0) ++r.n_other;
            }
            off += rdlen;
        }
    }
    if (off != n) { r.why = "trailing-bytes"; return r; }
    r.framed = true;
    if (soft) { r.why = softwhy; return r; }
    r.strict = true;
    r.why = "ok";
    return r;
}

//! reported lists as the client handed them to the callback
struct RepA { uint32_t ttl; uint8_t ip[4]; };
struct RepC { uint32_t ttl; std::string name; };

struct Matcher {
    const uint8_t *p; size_t n;
    const std::vector<RepA> &ra; const std::vector<RepC> &rc;
    std::set<std::tuple<size_t, unsigned, size_t, size_t>> seen;
    size_t nodes = 0;
    bool capped = false;
    bool nul_cut_would_match = false;   //! diagnostic: a CNAME would match if labels were cut at NUL

    Matcher(const uint8_t *p_, size_t n_, const std::vector<RepA> &a, const std::vector<RepC> &c) : p(p_), n(n_), ra(a), rc(c) {}

    bool done(size_t ja, size_t jc) const { return ja == ra.size() && jc == rc.size(); }

    //! can ra[ja..], rc[jc..] be matched in order against the answer records from record index i at offset off
    bool walk(size_t off, unsigned i, unsigned an, size_t ja, size_t jc) {
        for (;;) {
            if (done(ja, jc)) return true;
            if (i >= an) return false;
            if (++nodes > 200000) { capped = true; return true; }
            Name nm = decode_name(p, n, off);
            if (!nm.ok) return false;
            off = nm.end;
            if (off + 10 > n) return false;
            uint16_t type = rd16(p + off);
            uint32_t ttl = rd32(p + off + 4);
            uint16_t rdlen = rd16(p + off + 8);
            off += 10;
            ++i;
            if (type == 1) {
                // an address is encoded only if the record's own RDATA holds at least 4 bytes inside the datagram
                // and the next record starts where RDLENGTH says: bytes behind the address are opaque, never a record
                if (rdlen < 4 || off + rdlen > n) return false;
                if (ja < ra.size() && ra[ja].ttl == ttl && memcmp(ra[ja].ip, p + off, 4) == 0) ++ja;
                off += rdlen;
                continue;
            }
            if (type == 5) {
                if (off + rdlen > n) return false;
                Name cn = decode_name(p, n, off);
                if (!cn.ok) return false;
                if (jc < rc.size() && rc[jc].ttl == ttl) {
                    if (norm_name(rc[jc].name) == norm_name(cn.text)) ++jc;
                    else if (norm_name(rc[jc].name) == norm_name(nul_cut_labels(p, n, off))) nul_cut_would_match = true;
                }
                size_t nx1 = cn.end, nx2 = off + rdlen;
                // name ends inside its RDATA (exactly, or leaving slack): RDLENGTH frames the record, the slack is opaque
                if (nx1 <= nx2) { off = nx2; continue; }
                // name runs past its RDATA (malformed): either continuation is tolerated
                if (!seen.insert(std::make_tuple(nx2, i, ja, jc)).second) { off = nx1; continue; }
                if (walk(nx2, i, an, ja, jc)) return true;
                off = nx1;
                continue;
            }
            if (off + rdlen > n) return false;
            off += rdlen;
        }
    }

    bool run() {
        if (done(0, 0)) return true;
        if (n < 12) return false;
        unsigned qd = rd16(p + 4), an = rd16(p + 6);
        size_t off = 12;
        for (unsigned i = 0; i < qd; ++i) {
            Name nm = decode_name(p, n, off);
            if (!nm.ok) return false;
            off = nm.end;
            if (off + 4 > n) return false;
            off += 4;
        }
        return walk(off, 0, an, 0, 0);
    }
};

//! number of compression pointers followed when a name is read from any offset, under the most permissive reading
//! (an out-of-range pointer is treated as "keep reading behind it"); cycle => 1<<30
inline int chain_depth(const uint8_t *p, size_t n) {
    const int INF = 1 << 30;
    std::vector<int> memo(n + 1, -1);
    std::vector<uint8_t> state(n + 1, 0);
    int best = 0;
    for (size_t s = 0; s < n; ++s) {
        if (memo[s] >= 0) continue;
        // iterative walk, recording the path
        std::vector<size_t> path;
        std::vector<int> add;
        size_t cur = s;
        int tail = 0;
        for (;;) {
            if (cur >= n) { tail = 0; break; }
            if (memo[cur] >= 0) { tail = memo[cur]; break; }
            if (state[cur] == 1) { tail = INF; break; }
            state[cur] = 1;
            uint8_t len = p[cur];
            path.push_back(cur);
            if (len == 0) { add.push_back(0); tail = 0; cur = n; continue; }
            if ((len & 0xc0) == 0xc0) {
                size_t tgt = (size_t(len & 0x3f) << 8) | (cur + 1 < n ? p[cur + 1] : 0);
                add.push_back(1);
                cur = tgt < n ? tgt : cur + 2;
                continue;
            }
            add.push_back(0);
            cur = (cur + 1 + len > n) ? cur + 1 : cur + 1 + len;
        }
        for (size_t k = path.size(); k-- > 0;) {
            tail = tail >= INF ? INF : tail + add[k];
            memo[path[k]] = tail;
            state[path[k]] = 2;
        }
        if (memo[s] > best) best = memo[s];
    }
    return best;
}

}  // namespace c15ref

#endif
