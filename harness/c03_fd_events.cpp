// C03: descriptor events fire only when enabled and ready; mutation inside callbacks is safe; the epoll and
// select back-ends deliver the same callbacks for scenarios that do not depend on the service order.
//
// The real Loop/FdEvent code (both back-ends) is driven pass by pass (runLoop(kOnce)) over real pipes and
// AF_UNIX socket pairs. Before every pass the harness shapes the readiness of every descriptor (drain, one
// byte, fill until EAGAIN, close a peer) and takes its own poll() snapshot. Every callback is checked
// against an independent model (alive / enabled / one-shot / subscription / snapshot readiness) and then
// performs a scripted set of mutations on itself and on other events (same descriptor, other descriptor that
// is ready and not yet served, ...). ASan + the object-pool poisoning hook turn touches of destroyed events
// and of released per-descriptor records into crash data.
//
// modes:
//   safety    one back-end per case (case 2k = epoll, 2k+1 = select, same scenario); order-dependent scripts
//             allowed; checked for safety only. Scenario class (k % 4) restricts which destructive actions are
//             generated so that one defect does not mask the others:
//             0 = enable/disable only, 1 = destroy/create on the same descriptor only,
//             2 = destroy/create/close on other descriptors only, 3 = everything.
//   equiv     scenario that is order-independent by construction (callbacks act on themselves or on events they
//             own whose descriptor is not ready in that pass; no except mask) run on epoll and on select in the
//             same process; the per-pass multisets of (event, reported mask & subscription) must be equal.
//   directed  hand-written minimal histories (x both back-ends), see directed_case(); cases 28.. are differential
//             (both back-ends in one case): descriptor closed while its event is enabled, event disabled, the
//             descriptor NUMBER re-opened as a new pipe, the same / a sibling / a new event enabled on it again.
// In the safety and equiv legs one scenario in five is "wide": 8-40 channels, most descriptors idle and without
// any event, the number of registered descriptors (= records in the loop's descriptor map) started just below
// 13 / 29, and callbacks that mostly create+enable events on descriptors the loop has no record for yet, so that
// the map grows (and re-hashes) while a pass is being served. An event called a second time in one pass whose
// descriptor is no longer ready (it was drained by the first call) is a violation; duplicated or late callbacks
// in one back-end only are caught by the equiv leg.
#include "common/vh.hpp"

#include <tbox/event/loop.h>
#include <tbox/event/fd_event.h>
#include <tbox/event/timer_event.h>

#include <poll.h>
#include <signal.h>
#include <sys/socket.h>
#include <sys/types.h>
#include <fcntl.h>
#include <unistd.h>
#include <errno.h>

#include <algorithm>
#include <atomic>
#include <chrono>
#include <exception>
#include <functional>
#include <map>
#include <memory>
#include <stdexcept>
#include <string>
#include <typeinfo>
#include <vector>
#include <cxxabi.h>

using tbox::event::Loop;
using tbox::event::FdEvent;
using tbox::event::Event;

namespace {

// ---- a signal that interrupts the back-end's wait: no-op handler without SA_RESTART, sent to the loop thread by a
// helper thread until the pass has returned (or a callback has run, which also means the wait is over)
volatile sig_atomic_t g_sig_seen = 0;
void on_sigusr2(int) { g_sig_seen = g_sig_seen + 1; }

struct Kicker {
    pthread_t target, th;
    pthread_mutex_t mu;
    pthread_cond_t cv;
    bool active, started;
    std::atomic<bool> stop;
    Kicker() : active(false), started(false), stop(true) {
        target = pthread_self();
        pthread_mutex_init(&mu, nullptr);
        pthread_cond_init(&cv, nullptr);
    }
    static void *run(void *p) {
        Kicker *k = static_cast<Kicker *>(p);
        sigset_t ss; sigemptyset(&ss); sigaddset(&ss, SIGUSR2);
        pthread_sigmask(SIG_BLOCK, &ss, nullptr);
        pthread_mutex_lock(&k->mu);
        for (;;) {
            while (!k->active) pthread_cond_wait(&k->cv, &k->mu);
            pthread_mutex_unlock(&k->mu);
            while (!k->stop.load()) {
                usleep(60);
                if (k->stop.load()) break;
                pthread_kill(k->target, SIGUSR2);
            }
            pthread_mutex_lock(&k->mu);
            k->active = false;
            pthread_cond_broadcast(&k->cv);
        }
        return nullptr;
    }
    //! one helper thread per process, parked on the condition variable between interrupted passes
    void start() {
        if (!started) {
            pthread_attr_t at; pthread_attr_init(&at); pthread_attr_setdetachstate(&at, PTHREAD_CREATE_DETACHED);
            started = pthread_create(&th, &at, run, this) == 0;
            pthread_attr_destroy(&at);
            if (!started) return;
        }
        pthread_mutex_lock(&mu);
        stop.store(false);
        active = true;
        pthread_cond_broadcast(&cv);
        pthread_mutex_unlock(&mu);
    }
    //! returns when the helper is parked again: no signal is sent after this
    void finish() {
        stop.store(true);
        if (!started) return;
        pthread_mutex_lock(&mu);
        while (active) pthread_cond_wait(&cv, &mu);
        pthread_mutex_unlock(&mu);
    }
};
Kicker g_kick;
Kicker *g_kicker = nullptr;

const short kR = FdEvent::kReadEvent, kW = FdEvent::kWriteEvent, kX = FdEvent::kExceptEvent;

std::string mask_str(int m) {
    std::string s;
    if (m & kR) s += 'R';
    if (m & kW) s += 'W';
    if (m & kX) s += 'X';
    if (s.empty()) s = "-";
    return s;
}

struct Desc {
    int fd = -1;
    bool open = false;
    bool watchable = true;   //!< events may be created on it
    int chan = 0, side = 0;
    bool sock = false;
    int snap = 0;            //!< lenient readiness mask (kR|kW|kX) from the harness's own poll() before the pass
    int snap_raw = 0;        //!< raw poll revents
    int snap_strict = 0;     //!< conditions every back-end must report for this state (POLLIN|POLLHUP -> read, POLLOUT -> write)
    bool served = false;     //!< some event on it had a callback in this pass
    int nev = 0;             //!< alive events on it (== reference count of the shared record)
    int nev_snap = 0;        //!< nev when the pass started (order-independent criterion for the equiv leg)
    bool cloexec = true;          //!< FD_CLOEXEC set on it (a per-descriptor random choice)
    bool reuse_pending = false;   //!< closed while an event on it was enabled (then disabled); the number will be re-opened
    bool record_survives = false; //!< ... and the loop's record of that number has been alive ever since
    bool reincarnated = false;    //!< the number was re-opened as a new channel end while the old record was alive
};

struct Chan { bool sock = false; int d[2] = {-1, -1}; };   //!< pipe: d[0] read end, d[1] write end
struct Dir { int from, to; bool dead; };                               //!< bytes written on `from` are read on `to`

struct Ev {
    uint64_t id = 0;
    FdEvent *p = nullptr;
    int desc = 0;
    int mask = 0;
    bool oneshot = false;
    bool enabled = false;
    bool enabled_snap = false;   //!< enabled when the pass started
    bool pending_delete = false;
    bool in_cb = false;
    int ncb = 0;
    int nreinit = 0;         //!< successful re-initialisations
    bool moved_since_cb = false; //!< re-initialised onto another descriptor since its latest callback
    int epoch = 0;           //!< bumped by every enable / disable / re-initialise
    int epoch_snap = 0;      //!< epoch when the pass started
    int last_cb_pass = -1;   //!< pass of the latest callback
    int nchildren = 0;
    uint64_t owner = 0;      //!< equiv mode: the only event whose callbacks may act on this one
};

struct Options {
    bool equiv = false;
    int cls = 3;             //!< safety scenario class, see top of file
    bool wide = false;       //!< many descriptors, registrations inside callbacks
    bool eintr = false;      //!< one pass blocks in the back-end's wait with no enabled event due and is interrupted by a signal
    bool ebadf = false;      //!< descriptors are closed with events left ENABLED on them (select's wait fails with EBADF)
};

typedef std::vector<std::pair<uint64_t, int> > PassLog;

struct World {
    std::string be;          //!< "epoll" / "select"
    Loop *loop = nullptr;
    uint64_t seed = 0;
    vh::Rng rx;              //!< per-descriptor flags
    vh::Rng rs;              //!< structural decisions (setup, between passes); never used inside callbacks
    Options opt;
    std::vector<Desc> descs;
    std::vector<Chan> chans;
    std::vector<Dir> dirs;
    std::map<uint64_t, Ev *> evs;
    uint64_t next_struct_id = 1;
    int pass = -1;
    bool in_pass = false;
    bool abandon = false;
    bool record_freed_this_pass = false;
    int nrecords = 0;        //!< descriptors with at least one event (records in the loop's map, without its own wake-up fd)
    int max_records = 0;     //!< largest number of records the loop's map ever held (with the wake-up fd during a pass)
    int served_fds = 0;      //!< descriptors served so far in this pass
    int next_park = 300;     //!< lowest number the far end of a re-opened channel may get
    std::vector<PassLog> cb_log;
    vh::Sig sig;
    bool saw_multi_ready = false, saw_cross_mutation = false;
    uint64_t callbacks = 0;
    std::function<void(World &, Ev &, int)> script;   //!< directed mode: replaces the random actions
    bool quiet = false;      //!< second run of an equiv pair: do not log the script again

    World(const std::string &backend, uint64_t s, const Options &o) : be(backend), seed(s), rx(vh::mix(s, 0x77)), rs(vh::mix(s, 0x51)), opt(o) {}

    // ---------------------------------------------------------------- logging
    void log(const std::string &s) {
        if (quiet) return;
        std::string &d = vh::st().case_desc;
        if (d.size() < 5600) { d += s; d += "; "; }
    }
    std::string k(const char *what) const { return be + "/" + what; }
    std::string evname(const Ev &e) const {
        return vh::fmt("e%llx(d%d,%s%s)", (unsigned long long)(e.id & 0xffffff), e.desc, mask_str(e.mask).c_str(), e.oneshot ? ",1shot" : "");
    }

    // ---------------------------------------------------------------- descriptors
    static void set_nonblock(int fd, bool cloexec = true) {
        int fl = fcntl(fd, F_GETFL);
        fcntl(fd, F_SETFL, fl | O_NONBLOCK);
        fcntl(fd, F_SETFD, cloexec ? FD_CLOEXEC : 0);
    }

    int add_desc(int fd, int chan, int side, bool sock) {
        Desc d; d.fd = fd; d.open = true; d.chan = chan; d.side = side; d.sock = sock;
        d.cloexec = rx.chance(1, 2);
        set_nonblock(fd, d.cloexec);
        vh::counter(d.cloexec ? "desc_with_cloexec" : "desc_without_cloexec");
        descs.push_back(d);
        return (int)descs.size() - 1;
    }
    //! returns channel index; descriptor indices are chans[c].d[0..1]
    int add_pipe() {
        int f[2];
        if (pipe(f) != 0) { fprintf(stderr, "VH-FATAL: pipe-failed errno=%d\n", errno); abort(); }
        fcntl(f[1], F_SETPIPE_SZ, 8192);     // two slots: empty / one byte (readable+writable) / full
        Chan c; c.sock = false;
        int ci = (int)chans.size();
        c.d[0] = add_desc(f[0], ci, 0, false);
        c.d[1] = add_desc(f[1], ci, 1, false);
        chans.push_back(c);
        Dir dr = {c.d[1], c.d[0]}; dirs.push_back(dr);
        return ci;
    }
    int add_sock() {
        int f[2];
        if (socketpair(AF_UNIX, SOCK_STREAM, 0, f) != 0) { fprintf(stderr, "VH-FATAL: socketpair-failed errno=%d\n", errno); abort(); }
        int sz = 2048;
        setsockopt(f[0], SOL_SOCKET, SO_SNDBUF, &sz, sizeof sz);
        setsockopt(f[1], SOL_SOCKET, SO_SNDBUF, &sz, sizeof sz);
        Chan c; c.sock = true;
        int ci = (int)chans.size();
        c.d[0] = add_desc(f[0], ci, 0, true);
        c.d[1] = add_desc(f[1], ci, 1, true);
        chans.push_back(c);
        Dir a = {c.d[0], c.d[1]}, b = {c.d[1], c.d[0]};
        dirs.push_back(a); dirs.push_back(b);
        return ci;
    }
    int peer_of(int di) const { const Chan &c = chans[descs[di].chan]; return c.d[1 - descs[di].side]; }

    static long drain_fd(int fd) {
        static char buf[65536];
        long total = 0;
        for (;;) { ssize_t n = read(fd, buf, sizeof buf); if (n <= 0) break; total += n; }
        return total;
    }
    static void fill_fd(int fd) {
        static char z[4096];
        for (int i = 0; i < 4096; ++i) { if (write(fd, z, sizeof z) < 0) break; }
        for (int i = 0; i < 65536; ++i) { if (write(fd, z, 1) < 0) break; }
    }
    void write_byte(int di) { if (descs[di].open) { char c = 'x'; if (write(descs[di].fd, &c, 1) < 0) {} } }

    //! level: 1 empty, 2 one byte, 3 full
    void set_level(const Dir &dr, int level) {
        if (dr.dead) return;
        Desc &from = descs[dr.from], &to = descs[dr.to];
        if (level == 1) { if (to.open) drain_fd(to.fd); }
        else if (level == 2) { if (to.open) drain_fd(to.fd); if (from.open) write_byte(dr.from); }
        else if (level == 3) { if (from.open) fill_fd(from.fd); }
    }

    void close_desc(int di) {
        Desc &d = descs[di];
        if (!d.open) return;
        ::close(d.fd);
        d.open = false;
        vh::counter("desc_closed");
    }

    void snapshot() {
        int ready_fds = 0, ready_with_enabled = 0;
        std::vector<struct pollfd> pf;
        std::vector<int> pidx(descs.size(), -1);
        for (size_t i = 0; i < descs.size(); ++i) {
            Desc &d = descs[i];
            d.snap = 0; d.snap_raw = 0; d.snap_strict = 0; d.served = false; d.nev_snap = d.nev;
            if (!d.open) continue;
            struct pollfd p; p.fd = d.fd; p.events = POLLIN | POLLOUT | POLLPRI | POLLRDHUP; p.revents = 0;
            pidx[i] = (int)pf.size();
            pf.push_back(p);
        }
        served_fds = 0;
        int prc = pf.empty() ? 0 : poll(pf.data(), pf.size(), 0);
        for (size_t i = 0; i < descs.size(); ++i) {
            Desc &d = descs[i];
            if (pidx[i] < 0 || prc < 0) continue;
            struct pollfd p = pf[pidx[i]];
            d.snap_raw = p.revents;
            // lenient: everything any back-end could legitimately report for this state
            if (p.revents & (POLLIN | POLLHUP | POLLERR | POLLRDHUP)) d.snap |= kR;
            if (p.revents & (POLLOUT | POLLERR | POLLHUP)) d.snap |= kW;
            if (p.revents & (POLLPRI | POLLERR | POLLHUP)) d.snap |= kX;
            if (p.revents & (POLLIN | POLLHUP)) d.snap_strict |= kR;
            if (p.revents & POLLOUT) d.snap_strict |= kW;
            if (d.snap) ++ready_fds;
            if (p.revents & POLLHUP) vh::counter("snap_fd_hup");
            if (p.revents & POLLERR) vh::counter("snap_fd_err");
            if ((p.revents & POLLIN) && !(p.revents & POLLOUT)) vh::counter("snap_fd_readable_not_writable");
            if (!(p.revents & (POLLIN | POLLHUP)) && (p.revents & POLLOUT)) vh::counter("snap_fd_writable_not_readable");
            if ((p.revents & POLLIN) && (p.revents & POLLOUT)) vh::counter("snap_fd_readable_and_writable");
            if (p.revents == 0) vh::counter("snap_fd_not_ready");
        }
        // descriptors on which some enabled event should fire
        std::vector<int> hot(descs.size(), 0);
        for (auto &kv : evs) {
            Ev &e = *kv.second;
            e.enabled_snap = e.enabled;
            e.epoch_snap = e.epoch;
            if (e.enabled && (descs[e.desc].snap & e.mask)) {
                hot[e.desc]++;
                if (descs[e.desc].reincarnated && descs[e.desc].record_survives) vh::counter("event_due_on_reused_fd_number_with_surviving_record");
            }
        }
        int shared_hot = 0;
        for (size_t i = 0; i < hot.size(); ++i) { if (hot[i]) ++ready_with_enabled; if (hot[i] >= 2) ++shared_hot; }
        if (ready_with_enabled >= 2) { vh::counter("pass_two_or_more_fds_due"); saw_multi_ready = true; }
        if (shared_hot) vh::counter("pass_shared_fd_due");
        vh::counter_max("max_fds_due_in_one_pass", ready_with_enabled);
        (void)ready_fds;
    }

    // ---------------------------------------------------------------- events
    Ev *find(uint64_t id) { auto it = evs.find(id); return it == evs.end() ? nullptr : it->second; }

    Ev *create(uint64_t id, int di, int mask, bool oneshot, bool en, uint64_t owner) {
        Desc &d = descs[di];
        if (evs.count(id)) { id = vh::mix(id, 0xabcdef); if (evs.count(id)) return nullptr; }
        Ev *e = new Ev;
        e->id = id; e->desc = di; e->mask = mask; e->oneshot = oneshot; e->owner = owner;
        e->p = loop->newFdEvent("c03");
        if (d.nev == 0) {
            vh::counter("record_allocated");
            if (in_pass && record_freed_this_pass) vh::counter("create_takes_record_released_in_same_pass");
            ++nrecords;
            int in_map = nrecords + (in_pass ? 1 : 0);     // the loop's wake-up descriptor has a record during a pass
            vh::counter_max("max_registered_descriptors", in_map);
            if (in_pass) {
                vh::counter("new_descriptor_registered_in_callback");
                if (in_map >= 14) vh::counter("new_descriptor_registered_in_callback_with_ge_13_records");
                if (in_map > max_records && (in_map == 14 || in_map == 30 || in_map == 60)) {
                    // first time the map holds that many: libstdc++ re-hashes here
                    vh::counter(vh::fmt("registration_in_callback_grows_map_to_%d_records", in_map));
                    int unserved = 0;
                    for (auto &x : descs) if (x.snap && x.nev_snap && !x.served) ++unserved;
                    if (served_fds >= 1 && unserved >= 1) vh::counter("map_growth_in_callback_between_served_and_unserved_fds");
                    log(vh::fmt(" (map grows to %d records)", in_map));
                }
            }
            if (in_map > max_records) max_records = in_map;
        } else vh::counter("create_shares_existing_record");
        bool ok = e->p->initialize(d.fd, (short)mask, oneshot ? Event::Mode::kOneshot : Event::Mode::kPersist);
        VH_CHECK(ok, k("api/initialize-returned-false"), "initialize(fd=%d,%s) on a fresh event returned false", d.fd, mask_str(mask).c_str());
        World *self = this;
        e->p->setCallback([self, id](short ev) { self->on_cb(id, ev); });
        evs[id] = e;
        ++d.nev;
        log(vh::fmt("%snew %s%s", in_pass ? " " : "", evname(*e).c_str(), en ? "+en" : ""));
        sig.add(0x100 + di * 8 + mask); sig.add(oneshot);
        vh::counter(in_pass ? "create_in_callback" : "create_outside_callback");
        if (en && d.reincarnated && d.record_survives && d.nev >= 2) vh::counter("new_event_enabled_on_reused_fd_number_with_surviving_record");
        if (en) do_enable(*e);
        return e;
    }

    void do_enable(Ev &e) {
        if (!e.enabled && descs[e.desc].reincarnated && descs[e.desc].record_survives)
            vh::counter("fd_closed_while_enabled_then_number_reused_and_reenabled");
        ++e.epoch;
        bool ok = e.p->enable();
        VH_CHECK(ok, k("api/enable-returned-false"), "enable() of %s returned false", evname(e).c_str());
        e.enabled = true;
        VH_CHECK(e.p->isEnabled(), k("api/not-enabled-after-enable"), "isEnabled()==false right after enable() of %s", evname(e).c_str());
    }
    void do_disable(Ev &e) {
        ++e.epoch;
        bool ok = e.p->disable();
        VH_CHECK(ok, k("api/disable-returned-false"), "disable() of %s returned false", evname(e).c_str());
        e.enabled = false;
        VH_CHECK(!e.p->isEnabled(), k("api/enabled-after-disable"), "isEnabled()==true right after disable() of %s", evname(e).c_str());
    }
    //! initialize() on an event that was initialised before. Unchanged code: refused (false, nothing changes) while the
    //! event is enabled; otherwise the event moves to the new descriptor's record (reference of the old one given back),
    //! takes the new mask, and becomes one-shot if asked (a one-shot event is only ever re-initialised as one-shot).
    bool reinit(Ev &e, int di, int mask, bool oneshot_req) {
        Desc &nd = descs[di];
        bool want_oneshot = e.oneshot || oneshot_req;
        bool ok = e.p->initialize(nd.fd, (short)mask, want_oneshot ? Event::Mode::kOneshot : Event::Mode::kPersist);
        if (e.enabled) {
            VH_CHECK(!ok, k("api/initialize-of-enabled-event-returned-true"), "initialize() of enabled %s returned true", evname(e).c_str());
            VH_CHECK(e.p->isEnabled(), k("api/initialize-of-enabled-event-disabled-it"), "refused initialize() left %s disabled", evname(e).c_str());
            log(vh::fmt("%sreinit %s refused(enabled)", in_pass ? " " : "", evname(e).c_str())); sig.add(0xb0);
            vh::counter("reinit_of_enabled_event");
            return false;
        }
        VH_CHECK(ok, k("api/reinitialize-returned-false"), "initialize(fd=%d,%s) of disabled %s returned false", nd.fd, mask_str(mask).c_str(), evname(e).c_str());
        std::string before = evname(e);
        int holders = 0, enabled_holders = 0;
        for (auto &kv : evs) if (kv.second != &e && kv.second->desc == di) { ++holders; if (kv.second->enabled) ++enabled_holders; }
        if (di == e.desc) vh::counter("reinit_same_descriptor");
        else {
            Desc &od = descs[e.desc];
            --od.nev;
            if (od.nev == 0) { --nrecords; od.record_survives = false; vh::counter("record_released"); vh::counter("reinit_releases_old_record");
                               if (in_pass) { record_freed_this_pass = true; vh::counter("record_released_in_callback"); } }
            if (nd.nev == 0) { ++nrecords; vh::counter("record_allocated"); vh::counter("reinit_onto_unwatched_descriptor");
                               int in_map = nrecords + (in_pass ? 1 : 0); if (in_map > max_records) max_records = in_map; }
            else {
                vh::counter("reinit_onto_descriptor_with_record");
                if (enabled_holders) vh::counter("reinit_onto_descriptor_shared_with_enabled_events");
                if (holders == 1 && enabled_holders == 1) vh::counter("reinit_onto_descriptor_with_one_enabled_holder");
            }
            ++nd.nev;
        }
        if (di != e.desc) e.moved_since_cb = true;    // served on the old descriptor, may be served on the new one in the same pass
        e.desc = di; e.mask = mask; e.oneshot = want_oneshot;
        ++e.epoch; ++e.nreinit;
        log(vh::fmt("%sreinit %s -> %s", in_pass ? " " : "", before.c_str(), evname(e).c_str()));
        sig.add(0xb1 + di * 8 + mask);
        vh::counter(in_pass ? "reinit_in_callback" : "reinit_between_passes");
        return true;
    }
    //! descriptor for a re-initialisation of t. kind 0 same descriptor, 1 one without a record, 2 one other events hold.
    //! idle_only (equiv, inside callbacks): only descriptors that were not ready when the pass started, classified by the
    //! pass-start record state, so that the choice does not depend on the service order
    int pick_reinit_desc(const Ev &t, vh::Rng &r, bool idle_only) {
        unsigned roll = (unsigned)r.below(10);
        int kind = roll < 2 ? 0 : roll < 5 ? 1 : 2;
        if (kind == 0) return descs[t.desc].open ? t.desc : -1;
        std::vector<int> v;
        for (size_t i = 0; i < descs.size(); ++i) {
            const Desc &d = descs[i];
            if (!d.open || !d.watchable || (int)i == t.desc) continue;
            if (idle_only && d.snap_raw != 0) continue;
            bool has = false;
            if (idle_only) has = d.nev_snap > 0;
            else for (auto &kv : evs) if (kv.second->desc == (int)i && kv.second->enabled) has = true;
            if ((kind == 2) == has && (kind == 2 || (idle_only ? d.nev_snap == 0 : d.nev == 0))) v.push_back((int)i);
        }
        if (v.empty()) return -1;
        return r.pick(v);
    }
    //! the reconnect pattern on t: (disable,) initialize() onto another descriptor, (enable)
    void act_reinit(Ev &t, vh::Rng &r, bool idle_only) {
        if (t.in_cb || (t.enabled && !descs[t.desc].open)) return;
        int di = pick_reinit_desc(t, r, idle_only);
        if (di < 0) return;
        if (t.enabled && r.chance(2, 3)) do_disable(t);
        bool ok = reinit(t, di, pick_mask(di, r, !opt.equiv), r.chance(1, 4));
        if (ok && r.chance(2, 3)) { do_enable(t); vh::counter("reinit_then_enabled"); }
    }

    bool can_destroy(const Ev &e) const { return !e.in_cb && !e.pending_delete; }

    void destroy(Ev &e) {
        Desc &d = descs[e.desc];
        --d.nev;
        if (d.nev == 0) {
            --nrecords;
            d.record_survives = false;
            vh::counter("record_released");
            if (in_pass) {
                record_freed_this_pass = true;
                vh::counter("record_released_in_callback");
                if (d.snap && !d.served) vh::counter("record_released_while_fd_ready_and_unserved");
            }
        }
        if (in_pass && e.enabled && (d.snap & e.mask) && !d.served) vh::counter("destroy_enabled_event_of_ready_unserved_fd");
        FdEvent *p = e.p;
        evs.erase(e.id);
        delete &e;
        delete p;
    }
    void deferred_delete(Ev &e) {
        e.pending_delete = true;
        uint64_t id = e.id;
        World *self = this;
        loop->runNext([self, id] {
            Ev *x = self->find(id);
            if (!x) return;
            x->pending_delete = false;
            vh::counter("deferred_delete_executed");
            self->destroy(*x);
        }, "c03-delete-later");
    }
    int destroy_all_on(int di, const Ev *except) {
        std::vector<Ev *> v;
        for (auto &kv : evs) if (kv.second->desc == di && kv.second != except) v.push_back(kv.second);
        for (Ev *x : v) if (!can_destroy(*x)) return -1;
        for (Ev *x : v) destroy(*x);
        return (int)v.size();
    }

    int disable_all_on(int di) {
        int n = 0;
        for (auto &kv : evs) if (kv.second->desc == di) { if (kv.second->enabled) do_disable(*kv.second); ++n; }
        return n;
    }

    //! close() the running event's descriptor (and the other end of its channel) while the event is still enabled, THEN
    //! disable every event of that number. The kernel has dropped the epoll registration by itself; the records and
    //! the event objects stay. The number is re-opened between passes (reopen_number()).
    bool close_own_while_enabled(Ev &self) {
        Desc &sd = descs[self.desc];
        if (!sd.open || !self.enabled || sd.reuse_pending) return false;
        int pi = peer_of(self.desc);
        Desc &pd = descs[pi];
        if (opt.equiv) {
            // order-independent by construction: nobody else is (or can become) active on this descriptor in this pass,
            // and the other end never carries events
            if (pd.open && pd.watchable) return false;
            for (auto &kv : evs) if (kv.second != &self && kv.second->desc == self.desc && kv.second->enabled_snap) return false;
        } else {
            if (opt.cls != 3) return false;
            if (pd.open && pd.nev != 0) return false;
        }
        log(" close-own-while-enabled,dis-all"); sig.add(9);
        bool sibling_enabled = false;
        for (auto &kv : evs) if (kv.second != &self && kv.second->desc == self.desc && kv.second->enabled) sibling_enabled = true;
        close_desc(self.desc);
        if (pd.open) close_desc(pi);
        disable_all_on(self.desc);
        sd.reuse_pending = true;
        sd.record_survives = true;
        sd.reincarnated = false;
        vh::counter("act_close_own_fd_while_enabled_then_disable");
        if (sibling_enabled) vh::counter("act_close_own_fd_while_sibling_enabled_too");
        return true;
    }

    //! a new pipe / socket pair whose watched end gets descriptor number descs[di].fd again
    bool reopen_number(int di, bool other_watchable) {
        Desc &d = descs[di];
        int r = d.fd;
        if (d.open || next_park > 900 || fcntl(r, F_GETFD) != -1) { d.reuse_pending = false; vh::counter("reopen_skipped_number_in_use"); return false; }
        int f[2];
        if ((d.sock ? socketpair(AF_UNIX, SOCK_STREAM, 0, f) : pipe(f)) != 0) { fprintf(stderr, "VH-FATAL: reopen-failed errno=%d\n", errno); abort(); }
        // park both ends on high numbers first so that neither sits on a number that is waiting to be re-used
        // never hand out a parked number twice in one case: an event may have been left enabled on a closed one
        int park = std::max(next_park, r + 1);
        int hi0 = fcntl(f[0], F_DUPFD_CLOEXEC, park), hi1 = fcntl(f[1], F_DUPFD_CLOEXEC, park);
        ::close(f[0]); ::close(f[1]);
        next_park = std::max(hi0, hi1) + 1;
        if (hi0 < 0 || hi1 < 0) { fprintf(stderr, "VH-FATAL: dupfd-failed errno=%d\n", errno); abort(); }
        int mine = (d.sock || d.side == 0) ? hi0 : hi1, other = (mine == hi0) ? hi1 : hi0;
        if (dup2(mine, r) != r) { fprintf(stderr, "VH-FATAL: dup2-failed errno=%d\n", errno); abort(); }
        ::close(mine);
        if (d.sock) { int sz = 2048; setsockopt(r, SOL_SOCKET, SO_SNDBUF, &sz, sizeof sz); setsockopt(other, SOL_SOCKET, SO_SNDBUF, &sz, sizeof sz); }
        else fcntl(d.side == 0 ? other : r, F_SETPIPE_SZ, 8192);
        set_nonblock(r, d.cloexec);
        for (auto &dr : dirs) if (dr.from == di || dr.to == di) dr.dead = true;
        Chan c; c.sock = d.sock;
        int ci = (int)chans.size();
        int side = d.sock ? 0 : d.side;
        bool sock = d.sock;
        int oi = add_desc(other, ci, 1 - side, sock);       // may reallocate descs: d is stale from here on
        Desc &dd = descs[di];
        descs[oi].watchable = other_watchable;
        c.d[side] = di; c.d[1 - side] = oi;
        chans.push_back(c);
        dd.open = true; dd.chan = ci; dd.side = side; dd.reuse_pending = false; dd.reincarnated = true;
        if (sock) { Dir a = {di, oi, false}, b = {oi, di, false}; dirs.push_back(a); dirs.push_back(b); }
        else if (side == 0) { Dir a = {oi, di, false}; dirs.push_back(a); }
        else { Dir a = {di, oi, false}; dirs.push_back(a); }
        log(vh::fmt("reopen d%d(fd %d, record %s)", di, r, dd.record_survives ? "alive" : "gone"));
        sig.add(0x90 + (dd.record_survives ? 1 : 0));
        vh::counter("fd_number_reopened_after_close_while_enabled");
        if (dd.record_survives) vh::counter("fd_number_reopened_with_surviving_record");
        return true;
    }

    //! between passes: give closed-while-enabled numbers back to the kernel's lowest-free-number rule, enable what was left on them
    void reuse_numbers() {
        for (size_t i = 0; i < descs.size(); ++i) {
            if (!descs[i].reuse_pending || descs[i].open) continue;
            if (!rs.chance(2, 3)) continue;                 // otherwise the loop's wake-up descriptor of the next pass may take the number
            if (!reopen_number((int)i, !opt.equiv || rs.chance(1, 2))) continue;
            int di = (int)i;
            std::vector<Ev *> left;
            for (auto &kv : evs) if (kv.second->desc == di) left.push_back(kv.second);
            for (Ev *e : left) if (rs.chance(3, 4)) { log("en " + evname(*e)); sig.add(0x74); do_enable(*e); }
            if (!left.empty() && rs.chance(1, 3)) {
                uint64_t owner = rs.chance(1, 2) ? left[0]->id : 0;
                create(next_struct_id++, di, pick_mask(di, rs, false), rs.chance(1, 4), true, owner);
            }
            // make it ready for the usual subscription of that end
            for (auto &dr : dirs) if (!dr.dead && dr.to == di && rs.chance(3, 4)) set_level(dr, 2);
        }
    }

    // ---------------------------------------------------------------- the monitor
    void on_cb(uint64_t id, int events) {
        ++callbacks;
        if (g_kicker) g_kicker->stop.store(true);
        vh::counter("cb_total");
        vh::counter("cb_" + be);
        Ev *ep = find(id);
        if (!ep) {
            vh::viol(k("callback/on-destroyed-event"), vh::fmt("pass %d: callback(%s) for event id %llx that was destroyed", pass, mask_str(events).c_str(), (unsigned long long)id));
            return;
        }
        Ev &e = *ep;
        Desc &d = descs[e.desc];
        log(vh::fmt("cb %s got %s", evname(e).c_str(), mask_str(events).c_str()));
        if (!in_pass)
            vh::viol(k("callback/outside-runLoop"), vh::fmt("callback of %s outside a loop pass", evname(e).c_str()));
        if (e.in_cb)
            vh::viol(k("callback/re-entered"), vh::fmt("callback of %s re-entered", evname(e).c_str()));
        bool impl_en = e.p->isEnabled();
        if (!e.enabled) {
            vh::viol(k("callback/on-disabled-event"),
                     vh::fmt("pass %d: callback(%s) on %s which was disabled before (isEnabled()=%d, descriptor snapshot %s)",
                             pass, mask_str(events).c_str(), evname(e).c_str(), (int)impl_en, mask_str(d.snap).c_str()));
        } else if (e.oneshot) {
            VH_CHECK(!impl_en, k("oneshot/still-enabled-inside-callback"), "pass %d: one-shot %s reports isEnabled()==true inside its callback", pass, evname(e).c_str());
            vh::counter("cb_oneshot");
        } else {
            VH_CHECK(impl_en || !d.open, k("persistent/disabled-inside-callback"), "pass %d: persistent %s reports isEnabled()==false inside its callback", pass, evname(e).c_str());
        }
        if (e.oneshot) e.enabled = false;
        if (!(events & e.mask)) {
            vh::viol(k("callback/mask-not-subscribed"), vh::fmt("pass %d: %s called with %s", pass, evname(e).c_str(), mask_str(events).c_str()));
        }
        if (!(d.snap & e.mask)) {
            vh::viol(k("callback/descriptor-not-ready"),
                     vh::fmt("pass %d: %s called with %s but its descriptor d%d (fd %d, %s) was ready for %s only (poll revents 0x%x) when the pass started",
                             pass, evname(e).c_str(), mask_str(events).c_str(), e.desc, d.fd, d.open ? "open" : "closed",
                             mask_str(d.snap).c_str(), d.snap_raw));
        } else if ((events & e.mask) & ~d.snap) {
            vh::viol(k("callback/reported-condition-not-ready"),
                     vh::fmt("pass %d: %s called with %s but its descriptor d%d was ready for %s only (poll revents 0x%x)",
                             pass, evname(e).c_str(), mask_str(events).c_str(), e.desc, mask_str(d.snap).c_str(), d.snap_raw));
        }
        if (e.last_cb_pass == pass && !e.moved_since_cb) {
            // The back-end waits once per pass and that readiness was already delivered to this event: a second call
            // needs the descriptor to be ready still.
            vh::counter("cb_second_call_in_same_pass");
            int now = 0;
            if (d.open) {
                struct pollfd p; p.fd = d.fd; p.events = POLLIN | POLLOUT | POLLPRI | POLLRDHUP; p.revents = 0;
                if (poll(&p, 1, 0) >= 0) {
                    if (p.revents & (POLLIN | POLLHUP | POLLERR | POLLRDHUP)) now |= kR;
                    if (p.revents & (POLLOUT | POLLERR | POLLHUP)) now |= kW;
                    if (p.revents & (POLLPRI | POLLERR | POLLHUP)) now |= kX;
                }
            }
            if (!(now & e.mask))
                vh::viol(k("callback/again-in-same-pass-descriptor-no-longer-ready"),
                         vh::fmt("pass %d: %s called a second time in this pass with %s; its descriptor d%d is now ready for %s only (it was %s when the pass started)",
                                 pass, evname(e).c_str(), mask_str(events).c_str(), e.desc, mask_str(now).c_str(), mask_str(d.snap).c_str()));
        }
        e.last_cb_pass = pass;
        e.moved_since_cb = false;
        int hot = 0;
        for (auto &kv : evs) if (kv.second->desc == e.desc && kv.second->enabled) ++hot;
        if (hot + (e.oneshot ? 1 : 0) >= 2) vh::counter("cb_on_shared_fd");
        if (d.snap_raw & POLLHUP) vh::counter("cb_on_hup_fd");
        if (d.reincarnated && d.record_survives) vh::counter("cb_on_reused_fd_number_with_surviving_record");
        if (e.nreinit) vh::counter("cb_on_reinitialised_event");
        if (events & kX) vh::counter("cb_reports_except");
        if ((size_t)pass < cb_log.size()) cb_log[pass].push_back(std::make_pair(id, events & e.mask & (kR | kW)));
        if (!d.served) ++served_fds;
        d.served = true;
        ++e.ncb;
        e.in_cb = true;
        vh::Rng r(vh::mix(vh::mix(seed, id), (uint64_t)e.ncb));
        if (script) script(*this, e, events);
        else if (opt.equiv) equiv_actions(e, r);
        else random_actions(e, r);
        if (!script && opt.ebadf && r.chance(1, 6)) sloppy_close_own(e);
        else if (!script && r.chance(1, 8)) close_own_while_enabled(e);
        e.in_cb = false;
    }

    // ---------------------------------------------------------------- callback scripts (safety mode)
    enum TClass { T_SAME_FD, T_READY_UNSERVED, T_READY_SERVED, T_NOT_READY, T_ANY };

    std::vector<Ev *> targets(Ev &self, int cls) {
        std::vector<Ev *> v;
        for (auto &kv : evs) {
            Ev *t = kv.second;
            if (t == &self) continue;
            const Desc &d = descs[t->desc];
            bool same = t->desc == self.desc;
            bool due = (d.snap & t->mask) != 0;
            bool ok = false;
            switch (cls) {
                case T_SAME_FD: ok = same; break;
                case T_READY_UNSERVED: ok = !same && due && !d.served; break;
                case T_READY_SERVED: ok = !same && due && d.served; break;
                case T_NOT_READY: ok = !same && !due; break;
                default: ok = true;
            }
            if (ok) v.push_back(t);
        }
        return v;
    }

    Ev *pick_target(Ev &self, vh::Rng &r, int *cls_out) {
        static const int order[] = {T_SAME_FD, T_SAME_FD, T_SAME_FD, T_SAME_FD, T_READY_UNSERVED, T_READY_UNSERVED, T_READY_UNSERVED, T_READY_UNSERVED,
                                    T_READY_SERVED, T_NOT_READY, T_ANY, T_ANY};
        int cls = r.pick(order);
        std::vector<Ev *> v = targets(self, cls);
        if (v.empty()) { cls = T_ANY; v = targets(self, cls); }
        if (v.empty()) return nullptr;
        Ev *t = r.pick(v);
        // report the effective class of the chosen target
        const Desc &d = descs[t->desc];
        bool due = (d.snap & t->mask) != 0;
        if (t->desc == self.desc) cls = T_SAME_FD;
        else if (due && !d.served) cls = T_READY_UNSERVED;
        else if (due) cls = T_READY_SERVED;
        else cls = T_NOT_READY;
        *cls_out = cls;
        return t;
    }
    static const char *cls_name(int c) {
        switch (c) { case T_SAME_FD: return "same_fd"; case T_READY_UNSERVED: return "other_ready_unserved_fd";
                     case T_READY_SERVED: return "other_ready_served_fd"; default: return "not_ready_fd"; }
    }
    bool destroy_allowed(const Ev &self, const Ev &t) const {
        if (opt.cls == 0) return false;
        if (opt.cls == 1) return t.desc == self.desc;
        if (opt.cls == 2) return t.desc != self.desc;
        return true;
    }
    int pick_mask(int di, vh::Rng &r, bool allow_x) {
        const Desc &d = descs[di];
        int m;
        unsigned x = (unsigned)r.below(20);
        if (d.sock) m = x < 7 ? kR : x < 13 ? kW : (kR | kW);
        else if (d.side == 0) m = x < 15 ? kR : x < 18 ? (kR | kW) : kW;
        else m = x < 15 ? kW : x < 18 ? (kR | kW) : kR;
        if (allow_x && r.chance(1, 12)) m |= kX;
        return m;
    }
    //! descriptor for a new event, -1 if none. want: 0 same as self, 1 ready, 2 not ready, 3 without a record (not ready preferred), 4 any
    int pick_desc(const Ev *self, vh::Rng &r, int want) {
        std::vector<int> v;
        for (size_t i = 0; i < descs.size(); ++i) {
            const Desc &d = descs[i];
            if (!d.open || !d.watchable) continue;
            bool ok = false;
            switch (want) {
                case 0: ok = self && (int)i == self->desc; break;
                case 1: ok = d.snap != 0; break;
                case 2: ok = d.snap_raw == 0; break;
                case 3: ok = d.nev == 0 && d.snap_raw == 0; break;
                case 5: ok = d.nev == 0; break;
                case 6: ok = d.nev_snap == 0 && d.snap_raw == 0; break;
                default: ok = true;
            }
            if (ok) v.push_back((int)i);
        }
        if (v.empty() && want == 3) { for (size_t i = 0; i < descs.size(); ++i) if (descs[i].open && descs[i].watchable && descs[i].nev == 0) v.push_back((int)i); }
        if (v.empty()) return -1;
        return r.pick(v);
    }
    uint64_t child_id(Ev &self) { return vh::mix(self.id, 0x1000 + (uint64_t)self.nchildren++); }

    void act_create(Ev &self, vh::Rng &r, int want) {
        // equiv mode: the bound must not depend on what other callbacks of the same pass did
        if (opt.equiv ? self.nchildren >= (opt.wide ? 4 : 2) : evs.size() >= (opt.wide ? 90u : 28u)) return;
        int di = pick_desc(&self, r, want);
        if (di < 0) return;
        if (!opt.equiv) {
            if (opt.cls == 0) return;
            if (opt.cls == 1 && di != self.desc) return;
        }
        int m = pick_mask(di, r, !opt.equiv);
        // a mask that can fire on this descriptor makes the new event observable
        bool en = r.chance(4, 5);
        Ev *n = create(child_id(self), di, m, r.chance(1, 4), en, self.id);
        if (n) {
            vh::counter(di == self.desc ? "act_create_on_same_fd" : "act_create_on_other_fd");
            if (en && (descs[di].snap & m) && !descs[di].served && di != self.desc) vh::counter("act_create_enabled_on_ready_unserved_fd");
            saw_cross_mutation = true;
        }
    }

    void random_actions(Ev &self, vh::Rng &r) {
        static const int ncount[] = {0, 0, 0, 1, 1, 1, 1, 2, 2, 2, 3, 3};
        int n = r.pick(ncount);
        for (int i = 0; i < n; ++i) one_action(self, r);
    }

    void one_action(Ev &self, vh::Rng &r) {
        if (opt.wide) {
            // register descriptors the loop has no record for yet; consume so that a repeated call finds nothing to read
            unsigned w = (unsigned)r.below(10);
            if (w < 4) { act_create(self, r, r.chance(3, 4) ? 5 : 3); return; }
            if (w < 6) {
                Desc &od = descs[self.desc];
                if ((self.mask & kR) && od.open) { log(" consume"); sig.add(2); drain_fd(od.fd); vh::counter("act_consume"); }
                return;
            }
        }
        unsigned roll = (unsigned)r.below(100);
        Desc &sd = descs[self.desc];
        if (roll < 9) {                                   // disable self
            log(" dis-self"); sig.add(1);
            if (self.enabled) vh::counter("act_disable_self_while_enabled");
            do_disable(self);
        } else if (roll < 14) {                           // consume
            if ((self.mask & kR) && sd.open) { log(" consume"); sig.add(2); drain_fd(sd.fd); vh::counter("act_consume"); }
        } else if (roll < 17) {                           // produce on own descriptor
            if (sd.open) { log(" write1"); sig.add(3); write_byte(self.desc); vh::counter("act_write_byte"); }
        } else if (roll < 22) {                           // re-arm self
            if (!self.enabled && sd.open) {
                log(" en-self"); sig.add(4);
                do_enable(self);
                vh::counter(self.oneshot ? "act_oneshot_rearm_in_own_callback" : "act_reenable_self");
            }
        } else if (roll < 27) {                           // documented idiom: delete self later
            if (!self.pending_delete) { log(" del-self-later"); sig.add(5); deferred_delete(self); vh::counter("act_deferred_self_delete"); }
        } else if (roll < 41) {                           // disable another event
            int c; Ev *t = pick_target(self, r, &c);
            if (t) {
                log(vh::fmt(" dis %s[%s]", evname(*t).c_str(), cls_name(c))); sig.add(0x20 + c);
                if (t->enabled) { vh::counter(std::string("act_disable_enabled_on_") + cls_name(c)); saw_cross_mutation = true; }
                do_disable(*t);
            }
        } else if (roll < 49) {                           // enable another event
            int c; Ev *t = pick_target(self, r, &c);
            if (t && descs[t->desc].open) {
                log(vh::fmt(" en %s[%s]", evname(*t).c_str(), cls_name(c))); sig.add(0x30 + c);
                if (!t->enabled) { vh::counter(std::string("act_enable_on_") + cls_name(c)); saw_cross_mutation = true; }
                do_enable(*t);
            }
        } else if (roll < 53) {                           // disable then enable another event
            int c; Ev *t = pick_target(self, r, &c);
            if (t && descs[t->desc].open) {
                log(vh::fmt(" toggle %s[%s]", evname(*t).c_str(), cls_name(c))); sig.add(0x40 + c);
                do_disable(*t); do_enable(*t);
                vh::counter(std::string("act_toggle_on_") + cls_name(c));
                saw_cross_mutation = true;
            }
        } else if (roll < 65) {                           // destroy another event
            int c; Ev *t = pick_target(self, r, &c);
            if (t && can_destroy(*t) && destroy_allowed(self, *t)) {
                log(vh::fmt(" del %s[%s]%s", evname(*t).c_str(), cls_name(c), t->enabled ? "(enabled)" : "")); sig.add(0x50 + c);
                vh::counter(std::string(t->enabled ? "act_destroy_enabled_on_" : "act_destroy_disabled_on_") + cls_name(c));
                destroy(*t);
                saw_cross_mutation = true;
            }
        } else if (roll < 75) {                           // destroy every event of another descriptor (releases its record)
            int c; Ev *t = pick_target(self, r, &c);
            if (t && t->desc != self.desc && destroy_allowed(self, *t)) {
                int di = t->desc;
                int n = destroy_all_on(di, nullptr);
                if (n > 0) {
                    log(vh::fmt(" del-all d%d[%s] n=%d", di, cls_name(c), n)); sig.add(0x60 + c);
                    vh::counter(std::string("act_destroy_all_on_") + cls_name(c));
                    saw_cross_mutation = true;
                    unsigned f = (unsigned)r.below(4);
                    if (f < 2) act_create(self, r, 3);            // likely re-uses the record that was just released
                    else if (f == 2 && descs[di].nev == 0) {      // and close it
                        log(vh::fmt(" close d%d", di)); sig.add(0x68);
                        close_desc(di);
                        vh::counter("act_close_other_fd_after_destroying_its_events");
                    }
                }
            }
        } else if (roll < 85) {                           // create
            static const int wants[] = {0, 0, 1, 1, 2, 3, 3, 4};
            act_create(self, r, r.pick(wants));
        } else if (roll < 89) {                           // on-EOF idiom: drop everything on own descriptor, close it, delete self later
            if (opt.cls == 3 && sd.open && !self.pending_delete) {
                // siblings are destroyed, or only disabled (they stay behind on the closed descriptor and are never enabled again)
                int n = r.chance(1, 2) ? destroy_all_on(self.desc, &self) : disable_all_on(self.desc);
                if (n >= 0) {
                    log(" close-own"); sig.add(7);
                    do_disable(self);
                    close_desc(self.desc);
                    deferred_delete(self);
                    vh::counter("act_close_own_fd");
                }
            }
        } else if (roll < 93) {                           // close the other end of own channel (peer must carry no events)
            int pi = peer_of(self.desc);
            if (opt.cls >= 2 && descs[pi].open) {
                bool keep = r.chance(1, 3);
                int n = keep ? disable_all_on(pi) : destroy_all_on(pi, nullptr);
                if (n >= 0 && (keep || descs[pi].nev == 0)) {
                    if (keep && n > 0) vh::counter("act_close_fd_with_disabled_events_left");
                    log(vh::fmt(" close-peer d%d", pi)); sig.add(8);
                    close_desc(pi);
                    vh::counter("act_close_peer");
                    if (n > 0) saw_cross_mutation = true;
                }
            }
        } else {                                          // re-target another event (reconnect pattern)
            int c; Ev *t = pick_target(self, r, &c);
            if (t && opt.cls != 0) { saw_cross_mutation = true; act_reinit(*t, r, false); }
        }
    }

    // ---------------------------------------------------------------- callback scripts (equiv mode)
    std::vector<Ev *> owned_idle_targets(Ev &self) {
        std::vector<Ev *> v;
        for (auto &kv : evs) {
            Ev *t = kv.second;
            if (t == &self || t->owner != self.id) continue;
            const Desc &d = descs[t->desc];
            if (!d.open || d.snap_raw != 0 || t->desc == self.desc) continue;   // descriptor not ready for anything in this pass
            v.push_back(t);
        }
        return v;
    }
    void equiv_actions(Ev &self, vh::Rng &r) {
        static const int ncount[] = {0, 0, 1, 1, 1, 2, 2, 3};
        int n = r.pick(ncount);
        Desc &sd = descs[self.desc];
        for (int i = 0; i < n; ++i) {
            if (opt.wide) {
                unsigned w = (unsigned)r.below(10);
                if (w < 4) { act_create(self, r, 6); continue; }
                if (w < 6) { if ((self.mask & kR) && sd.open) { log(" consume"); sig.add(2); drain_fd(sd.fd); vh::counter("act_consume"); } continue; }
            }
            unsigned roll = (unsigned)r.below(100);
            if (roll < 12) { log(" dis-self"); sig.add(1); if (self.enabled) vh::counter("act_disable_self_while_enabled"); do_disable(self); }
            else if (roll < 22) { if ((self.mask & kR) && sd.open) { log(" consume"); sig.add(2); drain_fd(sd.fd); vh::counter("act_consume"); } }
            else if (roll < 30) {
                if (!self.enabled && sd.open) { log(" en-self"); sig.add(4); do_enable(self);
                    vh::counter(self.oneshot ? "act_oneshot_rearm_in_own_callback" : "act_reenable_self"); }
            } else if (roll < 36) {
                if (!self.pending_delete) { log(" del-self-later"); sig.add(5); deferred_delete(self); vh::counter("act_deferred_self_delete"); }
            } else if (roll < 75) {
                std::vector<Ev *> v = owned_idle_targets(self);
                if (!v.empty()) {
                    Ev *t = r.pick(v);
                    unsigned a = (unsigned)r.below(10);
                    saw_cross_mutation = true;
                    if (a < 3) { log(" en " + evname(*t)); sig.add(0x33); if (!t->enabled) vh::counter("act_enable_on_not_ready_fd"); do_enable(*t); }
                    else if (a < 5) act_reinit(*t, r, true);
                    else if (a < 7) { log(" dis " + evname(*t)); sig.add(0x23); if (t->enabled) vh::counter("act_disable_enabled_on_not_ready_fd"); do_disable(*t); }
                    else if (can_destroy(*t)) { log(" del " + evname(*t)); sig.add(0x53); vh::counter("act_destroy_on_not_ready_fd"); destroy(*t); }
                }
            } else if (roll < 90) {
                act_create(self, r, 2);
            } else {
                // close the never-watched other end of own channel (HUP/EOF on own descriptor from the next pass on);
                // not the read end of a pipe: a full pipe without reader reports only an error condition
                int pi = peer_of(self.desc);
                const Desc &pd = descs[pi];
                if (pd.open && !pd.watchable && (pd.sock || pd.side == 1)) { log(vh::fmt(" close-peer d%d", pi)); sig.add(8); close_desc(pi); vh::counter("act_close_peer"); }
            }
        }
    }

    // ---------------------------------------------------------------- scenario
    //! many descriptors, most of them idle and without a record; the number of records starts just below a growth
    //! threshold of the loop's descriptor map (14th / 30th record, the loop's own wake-up descriptor included)
    void setup_wide() {
        int target = rs.chance(1, 2) ? (int)rs.range(8, 12) : (int)rs.range(23, 28);
        if (rs.chance(1, 6)) target = (int)rs.range(4, 34);
        int nch = target <= 12 ? (int)rs.range(8, 16) : (int)rs.range(18, 32);
        for (int i = 0; i < nch; ++i) {
            if (rs.chance(7, 10)) add_pipe(); else add_sock();
        }
        if (opt.equiv) {
            for (size_t c = 0; c < chans.size(); ++c)
                if (rs.chance(1, 5)) descs[chans[c].d[rs.below(2)]].watchable = false;
        }
        std::vector<int> order;
        for (size_t i = 0; i < descs.size(); ++i) if (descs[i].watchable) order.push_back((int)i);
        for (size_t i = order.size(); i > 1; --i) std::swap(order[i - 1], order[rs.below(i)]);
        for (int j = 0; j < target && j < (int)order.size(); ++j) {
            int di = order[j];
            int n = rs.chance(1, 5) ? 2 : 1;
            for (int q = 0; q < n; ++q) {
                uint64_t owner = 0;
                if (!evs.empty() && rs.chance(3, 4)) { auto it = evs.begin(); std::advance(it, rs.below(evs.size())); owner = it->first; }
                create(next_struct_id++, di, pick_mask(di, rs, !opt.equiv), rs.chance(1, 5), rs.chance(5, 6), owner);
            }
        }
        vh::counter("wide_scenarios");
    }

    void setup_random() {
        if (opt.wide) { setup_wide(); return; }
        int nch = (int)rs.range(2, 5);
        for (int i = 0; i < nch; ++i) {
            if (rs.chance(3, 5)) add_pipe(); else add_sock();
        }
        if (opt.equiv) {
            for (size_t c = 0; c < chans.size(); ++c)
                if (rs.chance(2, 5)) descs[chans[c].d[rs.below(2)]].watchable = false;
        }
        int with_events = 0;
        for (int round = 0; round < 3 && with_events < 2; ++round) {
            for (size_t i = 0; i < descs.size(); ++i) {
                Desc &d = descs[i];
                if (!d.watchable || d.nev) continue;
                if (!rs.chance(3, 5)) continue;
                int n = (int)rs.range(1, 3);
                for (int j = 0; j < n; ++j) {
                    int m = pick_mask((int)i, rs, !opt.equiv);
                    uint64_t owner = 0;
                    if (!evs.empty() && rs.chance(3, 4)) { auto it = evs.begin(); std::advance(it, rs.below(evs.size())); owner = it->first; }
                    create(next_struct_id++, (int)i, m, rs.chance(1, 4), rs.chance(5, 6), owner);
                }
                ++with_events;
            }
        }
    }

    void between_passes() {
        reuse_numbers();
        if (!evs.empty() && rs.chance(1, 2)) {
            auto it = evs.begin(); std::advance(it, rs.below(evs.size()));
            act_reinit(*it->second, rs, false);
        }
        int n = (int)rs.below(4);
        for (int i = 0; i < n; ++i) {
            unsigned roll = (unsigned)rs.below(10);
            if (roll < 3 && evs.size() < 24) {
                std::vector<int> v;
                for (size_t j = 0; j < descs.size(); ++j) if (descs[j].open && descs[j].watchable) v.push_back((int)j);
                if (v.empty()) continue;
                int di = rs.pick(v);
                uint64_t owner = 0;
                if (!evs.empty() && rs.chance(3, 4)) { auto it = evs.begin(); std::advance(it, rs.below(evs.size())); owner = it->first; }
                create(next_struct_id++, di, pick_mask(di, rs, !opt.equiv), rs.chance(1, 4), rs.chance(4, 5), owner);
            } else if (!evs.empty()) {
                auto it = evs.begin(); std::advance(it, rs.below(evs.size()));
                Ev &t = *it->second;
                if (roll < 6) { if (descs[t.desc].open) { log("en " + evname(t)); sig.add(0x71); do_enable(t); } }
                else if (roll < 8) { log("dis " + evname(t)); sig.add(0x72); do_disable(t); }
                else if (can_destroy(t)) { log("del " + evname(t)); sig.add(0x73); destroy(t); vh::counter("destroy_outside_callback"); }
            }
        }
    }

    void shape_readiness() {
        for (size_t i = 0; i < dirs.size(); ++i) {
            if (opt.wide && !rs.chance(1, 4)) continue;      // most descriptors stay idle
            unsigned roll = (unsigned)rs.below(20);
            int level = roll < 6 ? 0 : roll < 10 ? 1 : roll < 17 ? 2 : 3;
            if (level) { set_level(dirs[i], level); sig.add(0x80 + level); }
        }
    }

    //! one loop pass; false if the case must be abandoned
    bool run_pass(bool interrupted = false) {
        ++pass;
        cb_log.resize(pass + 1);
        snapshot();
        if (!quiet) {
            std::string s = vh::fmt("| pass %d ready[", pass);
            for (size_t i = 0; i < descs.size(); ++i) s += vh::fmt("%sd%zu:%s", i ? " " : "", i, descs[i].open ? mask_str(descs[i].snap).c_str() : "closed");
            log(s + "]");
        }
        // the number the loop's internal wake-up descriptor will get (the harness opens nothing during a pass)
        int probe = dup(0);
        if (probe >= 0) ::close(probe);
        record_freed_this_pass = false;
        if (nrecords + 1 > max_records) max_records = nrecords + 1;    // the wake-up descriptor is registered at the start of the pass
        // pass-start statistics for the two ways a wait can fail
        int zombies = 0, idle_enabled = 0;
        for (auto &kv : evs) {
            Ev &e = *kv.second;
            if (!e.enabled) continue;
            if (!descs[e.desc].open) ++zombies;
            else if (!(descs[e.desc].snap & e.mask)) ++idle_enabled;
        }
        if (zombies) {
            vh::counter(be + "_pass_with_enabled_event_on_closed_fd");
            if (idle_enabled) vh::counter("wait_failed_ebadf_with_nonready_enabled_events");   // select: EBADF; epoll: registration already gone
        }
        // select: the wait of this pass fails with EBADF (and nothing is dispatched) iff the loop still believes that an event
        // on a closed descriptor is enabled
        bool select_wait_fails = false;
        if (be == "select")
            for (auto &kv : evs) if (!descs[kv.second->desc].open && kv.second->p->isEnabled()) select_wait_fails = true;
        if (zombies || select_wait_fails) {
            int healthy = 0, healthy_nocloexec = 0;
            for (auto &kv : evs) {
                Ev &e = *kv.second;
                if (e.enabled && descs[e.desc].open) { ++healthy; if (!descs[e.desc].cloexec) ++healthy_nocloexec; }
            }
            if (select_wait_fails) {
                vh::counter("select_ebadf_pass");
                if (healthy) vh::counter("select_ebadf_pass_with_healthy_events");
                if (healthy_nocloexec) vh::counter("ebadf_pass_with_healthy_event_on_non_cloexec_descriptor");
            }
        }
        tbox::event::TimerEvent *guard = nullptr;
        bool guard_fired = false;
        int sig_before = g_sig_seen;
        if (interrupted) {
            // no deferred task: the wait blocks (bounded by a 5 s guard timer) until the signal arrives
            guard = loop->newTimerEvent("c03-guard");
            guard->initialize(std::chrono::milliseconds(5000), Event::Mode::kOneshot);
            guard->setCallback([&guard_fired] { guard_fired = true; });
            guard->enable();
            g_kicker = &g_kick;
            g_kick.start();
        } else {
            loop->runNext([] {}, "c03-nowait");
        }
        in_pass = true;
        bool ok = true;
        try {
            loop->runLoop(Loop::Mode::kOnce);
        } catch (const std::exception &ex) {
            int st = 0;
            char *dn = abi::__cxa_demangle(typeid(ex).name(), nullptr, nullptr, &st);
            std::string tn = (st == 0 && dn) ? dn : typeid(ex).name();
            free(dn);
            vh::viol(k("runLoop/exception/") + tn, vh::fmt("pass %d: runLoop(kOnce) threw %s: %s", pass, tn.c_str(), ex.what()));
            ok = false;
        } catch (...) {
            vh::viol(k("runLoop/exception/unknown"), vh::fmt("pass %d: runLoop(kOnce) threw a non-std exception", pass));
            ok = false;
        }
        in_pass = false;
        if (g_kicker) g_kicker->finish();
        g_kicker = nullptr;
        if (guard) { guard->disable(); delete guard; }
        if (interrupted && ok) {
            vh::counter("interrupted_passes");
            if (guard_fired) vh::counter("interrupted_pass_guard_timer_expired");
            else if (g_sig_seen != sig_before) {
                // returned although nothing was ready, no task was queued and the timer did not fire: the wait was interrupted
                vh::counter(be + "_wait_failed_eintr");
                if (idle_enabled) vh::counter(be + "_wait_failed_eintr_with_nonready_enabled_events");
                vh::counter_max("max_enabled_nonready_events_at_interrupted_wait", idle_enabled);
            }
        }
        if (!ok) {
            // runThisAfterLoop() was skipped: the internal wake-up event and its descriptor are left behind
            bool mine = false;
            for (auto &d : descs) if (d.open && d.fd == probe) mine = true;
            if (probe >= 0 && !mine) ::close(probe);
            abandon = true;
            return false;
        }
        vh::counter("passes");
        if (!cb_log[pass].empty()) vh::counter("passes_with_callbacks");
        for (auto &kv : evs) {
            Ev &e = *kv.second;
            VH_CHECK(!e.pending_delete, k("harness/deferred-delete-not-run"), "pass %d: deferred delete of %s did not run in the pass", pass, evname(e).c_str());
            bool en = e.p->isEnabled();
            if (e.enabled && !descs[e.desc].open) {
                // left enabled on a closed descriptor: select disables such events by itself when its wait fails, epoll does not
                if (!en) vh::counter(be + "_auto_disabled_event_left_enabled_on_closed_fd");
                continue;
            }
            VH_CHECK(en == e.enabled, k("state/isEnabled-differs-from-model"), "after pass %d: %s isEnabled()=%d, model %d (descriptor d%d %s close-on-exec%s)",
                     pass, evname(e).c_str(), (int)en, (int)e.enabled, e.desc, descs[e.desc].cloexec ? "with" : "WITHOUT",
                     select_wait_fails ? "; the wait of this pass failed with EBADF" : "");
            // ebadf scenarios are not compared across back-ends, so the model demands service itself: an event that was enabled
            // when the pass started, whose open descriptor was ready for a subscribed condition every back-end reports, and
            // that nobody enabled / disabled / re-initialised / destroyed during the pass, must have been called in it -
            // unless the wait of this pass failed (select, EBADF: nothing is dispatched, service resumes with the next pass)
            if (opt.ebadf && !interrupted && e.enabled_snap && e.epoch == e.epoch_snap && descs[e.desc].open &&
                (descs[e.desc].snap_strict & e.mask)) {
                if (select_wait_fails) vh::counter("ebadf_pass_due_event_deferred_to_next_pass");
                else {
                    vh::counter("liveness_checked_due_events");
                    if (e.nreinit) vh::counter("liveness_checked_reinitialised_event");
                    VH_CHECK(e.last_cb_pass == pass, k("liveness/enabled-ready-event-not-served"),
                             "pass %d: %s was enabled, untouched and its descriptor d%d was ready for %s when the pass started, but it was not called (isEnabled()=%d)",
                             pass, evname(e).c_str(), e.desc, mask_str(descs[e.desc].snap_strict).c_str(), (int)en);
                }
            }
        }
        return true;
    }

    //! before an interrupted pass: no enabled event may be due, otherwise the wait would not block
    void make_all_idle() {
        for (auto &d : descs) if (d.open) drain_fd(d.fd);
        snapshot();
        std::vector<Ev *> due;
        for (auto &kv : evs) { Ev &e = *kv.second; if (e.enabled && descs[e.desc].open && (descs[e.desc].snap & e.mask)) due.push_back(&e); }
        for (Ev *e : due) do_disable(*e);
        log(vh::fmt("idle: drained all, disabled %zu due events", due.size())); sig.add(0xa0);
    }

    //! close the running event's descriptor and leave every event of that number ENABLED (no disable at all)
    bool sloppy_close_own(Ev &self) {
        Desc &sd = descs[self.desc];
        if (!opt.ebadf || opt.equiv || !sd.open || sd.reuse_pending) return false;
        int left = 0;
        for (auto &kv : evs) if (kv.second->desc == self.desc && kv.second->enabled) ++left;
        if (!left) return false;
        int pi = peer_of(self.desc);
        log(vh::fmt(" close-own-leaving-%d-enabled", left)); sig.add(0xa1);
        close_desc(self.desc);
        if (descs[pi].open && descs[pi].nev == 0) close_desc(pi);
        vh::counter("act_close_own_fd_leaving_events_enabled");
        if (left >= 2) vh::counter("act_close_own_fd_leaving_two_or_more_events_enabled");
        return true;
    }
    void sloppy_close_between_passes() {
        std::vector<int> v;
        for (auto &kv : evs) { Ev &e = *kv.second; if (e.enabled && descs[e.desc].open && !descs[e.desc].reuse_pending) v.push_back(e.desc); }
        if (v.empty()) return;
        int di = rs.pick(v);
        log(vh::fmt("close d%d leaving its events enabled", di)); sig.add(0xa2);
        close_desc(di);
        vh::counter("close_between_passes_leaving_events_enabled");
    }

    void teardown() {
        std::vector<Ev *> v;
        for (auto &kv : evs) v.push_back(kv.second);
        for (Ev *e : v) { FdEvent *p = e->p; evs.erase(e->id); delete e; delete p; }
        delete loop;
        loop = nullptr;
        for (auto &d : descs) if (d.open) { ::close(d.fd); d.open = false; }
    }

    void start() {
        loop = Loop::New(be);
        if (!loop) { fprintf(stderr, "VH-FATAL: no-such-engine-%s\n", be.c_str()); abort(); }
    }

    void run_random() {
        start();
        log(std::string("[") + be + (opt.equiv ? " equiv" : vh::fmt(" class%d", opt.cls)) + (opt.wide ? " wide" : "") + (opt.eintr ? " eintr" : "") + (opt.ebadf ? " ebadf" : "") + "]");
        // ebadf scenarios: keep one descriptor number below all channels free for the whole case, so that the loop's own
        // wake-up descriptor (lowest free number, re-created every pass) never lands on a number that was closed with
        // events still enabled on it
        int hole = opt.ebadf ? open("/dev/null", O_RDONLY | O_CLOEXEC) : -1;
        setup_random();
        if (hole >= 0) ::close(hole);
        int npass = (int)rs.range(3, 7);
        int ipass = opt.eintr ? (int)rs.range(1, npass - 1) : -1;
        for (int p = 0; p < npass; ++p) {
            if (p) between_passes();
            if (opt.ebadf && p && rs.chance(1, 4)) sloppy_close_between_passes();
            shape_readiness();
            if (p == ipass) {
                make_all_idle();
                if (!run_pass(true)) break;
                continue;
            }
            if (!run_pass()) break;
        }
        teardown();
    }
};

// -------------------------------------------------------------------------------------------- modes

std::string json_case(const std::string &mode, const std::string &desc) {
    return "{\"mode\":" + vh::jstr(mode) + ",\"script\":" + vh::jstr(desc.substr(0, 1800)) + "}";
}

void safety_case(uint64_t idx, vh::Rng &) {
    uint64_t scen = idx / 2;
    const char *be = (idx & 1) ? "select" : "epoll";
    Options o; o.equiv = false; o.cls = (int)(scen % 4);
    if (scen % 5 == 0) { o.wide = true; o.cls = 2 + (int)((scen / 5) & 1); }
    else if (scen % 5 == 1) o.eintr = true;
    else if (scen % 5 == 2) { o.ebadf = true; o.cls = 3; }
    World w(be, vh::mix(vh::st().args.seed, scen), o);
    w.run_random();
    vh::counter(std::string("cases_") + be);
    vh::counter(vh::fmt("cases_class%d", o.cls));
    bool nt = w.saw_multi_ready && w.saw_cross_mutation && w.callbacks > 0;
    w.sig.add(idx & 1);
    vh::note_case(w.sig.h, nt);
    if (nt && vh::want_sample(2)) vh::sample(json_case("safety", vh::st().case_desc), 2);
}

void compare_backends(World &a, World &b);

void equiv_case(uint64_t idx, vh::Rng &) {
    Options o; o.equiv = true; o.cls = 3;
    o.wide = idx % 5 == 0;
    o.eintr = idx % 5 == 1;
    uint64_t s = vh::mix(vh::st().args.seed ^ 0xe9, idx);
    World a("epoll", s, o);
    a.run_random();
    World b("select", s, o);
    b.quiet = true;
    b.run_random();
    vh::counter("equiv_scenarios");
    bool nt = a.saw_multi_ready && a.saw_cross_mutation && a.callbacks > 0;
    vh::note_case(a.sig.h, nt);
    if (a.abandon || b.abandon) return;
    compare_backends(a, b);
    vh::counter("equiv_scenarios_compared");
    if (nt && vh::want_sample(2)) vh::sample(json_case("equiv", vh::st().case_desc), 2);
}

void compare_backends(World &a, World &b) {
    size_t np = std::min(a.cb_log.size(), b.cb_log.size());
    if (a.cb_log.size() != b.cb_log.size()) {
        vh::viol("equiv/pass-count-differs", vh::fmt("epoll ran %zu passes, select %zu", a.cb_log.size(), b.cb_log.size()));
    }
    for (size_t p = 0; p < np; ++p) {
        PassLog x = a.cb_log[p], y = b.cb_log[p];
        std::sort(x.begin(), x.end());
        std::sort(y.begin(), y.end());
        vh::counter("equiv_passes_compared");
        if (x == y) { vh::counter("equiv_callbacks_matched", x.size()); if (x.size() >= 2) vh::counter("equiv_passes_with_two_or_more_callbacks"); continue; }
        std::string d = vh::fmt("pass %zu: epoll delivered %zu callbacks, select %zu; epoll-only:", p, x.size(), y.size());
        PassLog only_x, only_y;
        std::set_difference(x.begin(), x.end(), y.begin(), y.end(), std::back_inserter(only_x));
        std::set_difference(y.begin(), y.end(), x.begin(), x.end(), std::back_inserter(only_y));
        for (auto &e : only_x) d += vh::fmt(" e%llx/%s", (unsigned long long)(e.first & 0xffffff), mask_str(e.second).c_str());
        d += "; select-only:";
        for (auto &e : only_y) d += vh::fmt(" e%llx/%s", (unsigned long long)(e.first & 0xffffff), mask_str(e.second).c_str());
        vh::viol("equiv/callbacks-differ", d);
        break;   // later passes start from different states
    }
}

// ---- differential directed histories: descriptor closed while its event is enabled, event disabled afterwards, the
// descriptor number re-opened as a new pipe, then (variant 0) the same event, (1) a disabled sibling that kept the
// record alive, (2) a new event on the same number is enabled and the pipe made readable. Single ready descriptor:
// nothing depends on a service order.
void run_reuse_history(World &w, int variant) {
    w.start();
    w.log(vh::fmt("[%s reuse-number %d]", w.be.c_str(), variant));
    int c = w.add_pipe();
    int rd = w.chans[c].d[0];
    w.descs[w.chans[c].d[1]].watchable = false;
    w.create(1, rd, kR, false, true, 0);
    if (variant == 1) w.create(2, rd, kR, false, false, 0);
    w.set_level(w.dirs[0], 2);
    w.script = [](World &W, Ev &self, int) {
        W.drain_fd(W.descs[self.desc].fd);
        if (W.pass == 0 && self.id == 1) { if (W.close_own_while_enabled(self)) vh::counter("directed_close_while_enabled"); }
    };
    if (!w.run_pass()) { w.teardown(); return; }                     // pass 0: A called, closes, disables
    if (w.descs[rd].reuse_pending && w.reopen_number(rd, false)) {
        Ev *a = w.find(1), *b = w.find(2);
        if (variant == 0 && a) { w.log("en " + w.evname(*a)); w.do_enable(*a); }
        if (variant == 1 && b) { w.log("en " + w.evname(*b)); w.do_enable(*b); }
        if (variant == 2) w.create(3, rd, kR, false, true, 0);
        for (auto &dr : w.dirs) if (!dr.dead && dr.to == rd) w.set_level(dr, 2);
    }
    if (!w.run_pass()) { w.teardown(); return; }                     // pass 1: the re-enabled event must be called on both back-ends
    for (auto &dr : w.dirs) if (!dr.dead && dr.to == rd) w.set_level(dr, 2);
    w.run_pass();
    w.teardown();
}

// ---- directed histories in which the back-end's wait fails. kind 0: nothing is ready, three enabled events, the wait is
// interrupted by a signal (EINTR) -> no callback. kind 1: EA's callback closes the read end of pipe B while EB is still
// enabled on it (select's next wait fails with EBADF; epoll's registration is simply gone) -> EB and EC (pipe C is empty
// all along) must never be called; EA only while pipe A holds a byte.
void wait_failure_directed_case(int kind, const char *be) {
    Options o; o.equiv = false; o.cls = 3; o.ebadf = kind == 1; o.eintr = kind == 0;
    World w(be, 3000 + kind, o);
    w.start();
    w.log(vh::fmt("[%s wait-failure %s]", be, kind ? "ebadf" : "eintr"));
    int hole = kind == 1 ? open("/dev/null", O_RDONLY | O_CLOEXEC) : -1;
    int a = w.add_pipe(), b = w.add_pipe(), c = w.add_pipe();
    if (hole >= 0) ::close(hole);
    int ra = w.chans[a].d[0], rb = w.chans[b].d[0], rc = w.chans[c].d[0];
    if (kind == 1) {    // the healthy events sit on plain pipe() descriptors (no close-on-exec), the closed one had it
        int none[] = {ra, rc}; for (int di : none) { fcntl(w.descs[di].fd, F_SETFD, 0); w.descs[di].cloexec = false; }
        fcntl(w.descs[rb].fd, F_SETFD, FD_CLOEXEC); w.descs[rb].cloexec = true;
    }
    w.create(1, ra, kR, false, true, 0);
    w.create(2, rb, kR, false, true, 0);
    w.create(3, rc, kR, kind == 0, true, 0);
    if (kind == 0) {
        int d = w.add_pipe();                                        // a write event on a full pipe: enabled, not writable
        w.fill_fd(w.descs[w.chans[d].d[1]].fd);
        w.create(4, w.chans[d].d[1], kW, false, true, 0);
        w.script = [](World &, Ev &, int) { vh::counter("directed_wait_failure_callback"); };
        w.run_pass();                                                // nothing ready, zero-timeout wait
        if (!w.abandon) w.run_pass(true);                            // blocks, interrupted by SIGUSR2
        if (!w.abandon) { w.set_level(w.dirs[0], 2); w.run_pass(); } // EA readable: exactly the ready one is served
        vh::counter("directed_eintr_cases");
    } else {
        w.set_level(w.dirs[0], 2);
        w.script = [rb](World &W, Ev &self, int) {
            W.drain_fd(W.descs[self.desc].fd);
            if (self.id == 1 && W.descs[rb].open) { W.log(vh::fmt(" close d%d leaving e2 enabled", rb)); W.close_desc(rb); vh::counter("directed_close_leaving_enabled"); }
        };
        w.run_pass();                                                // EA called, closes B's read end
        if (!w.abandon) w.run_pass();                                // select: EBADF, events of B disabled by the loop; epoll: silence
        if (!w.abandon) { w.set_level(w.dirs[2], 2); w.run_pass(); } // C readable now: EC may be called, EB never
        if (!w.abandon && w.cb_log.size() > 2 && !w.cb_log[2].empty()) vh::counter("ebadf_other_ready_event_called_afterwards");
        vh::counter("directed_ebadf_cases");
    }
    w.teardown();
    vh::counter("directed_cases");
    w.sig.add(0x7100 + kind * 2 + (be[0] == 's'));
    vh::note_case(w.sig.h, true);
}

// ---- differential directed histories for initialize() on an event that was initialised before (reconnect pattern):
// E2 enabled on pipe P2; E1 first initialised on pipe P1, then re-targeted onto P2's read end. variant 0: E1 stays disabled;
// 1: E1 is enabled as well; 2: E1 was enabled on P1, is disabled, re-targeted and enabled, and E3 on P3 destroys E1 from
// inside its callback one pass later. E2 must be served whenever P2 is readable, on both back-ends.
void run_reinit_history(World &w, int variant) {
    w.start();
    w.log(vh::fmt("[%s reinit %d]", w.be.c_str(), variant));
    int p1 = w.add_pipe(), p2 = w.add_pipe(), p3 = w.add_pipe();
    int r1 = w.chans[p1].d[0], r2 = w.chans[p2].d[0], r3 = w.chans[p3].d[0];
    for (int c : {p1, p2, p3}) w.descs[w.chans[c].d[1]].watchable = false;
    w.create(2, r2, kR, false, true, 0);
    w.create(1, r1, kR, false, variant == 2, 0);
    w.create(3, r3, kR, false, true, 0);
    w.script = [variant](World &W, Ev &self, int) {
        W.drain_fd(W.descs[self.desc].fd);
        if (variant == 2 && self.id == 3 && W.pass == 2) { Ev *e1 = W.find(1); if (e1 && W.can_destroy(*e1)) { W.log(" del " + W.evname(*e1)); W.destroy(*e1); } }
    };
    if (!w.run_pass()) { w.teardown(); return; }                     // pass 0: nothing readable
    Ev *e1 = w.find(1);
    if (e1) {
        if (e1->enabled) w.do_disable(*e1);
        w.reinit(*e1, r2, kR, false);
        if (variant >= 1) w.do_enable(*e1);
    }
    for (int pass = 1; pass <= 3; ++pass) {
        w.set_level(w.dirs[1], 2);                                   // P2 readable
        if (pass == 2) w.set_level(w.dirs[2], 2);                    // P3 readable too
        if (!w.run_pass()) { w.teardown(); return; }
    }
    Ev *e2 = w.find(2);
    if (e2) { w.do_disable(*e2); w.do_enable(*e2); }                 // must still work on its record
    w.set_level(w.dirs[1], 2);
    w.run_pass();
    w.teardown();
}

void reinit_directed_case(int variant) {
    Options o; o.equiv = true; o.cls = 3;
    World a("epoll", 4000 + variant, o);
    run_reinit_history(a, variant);
    World b("select", 4000 + variant, o);
    b.quiet = true;
    run_reinit_history(b, variant);
    if (!a.abandon && !b.abandon) compare_backends(a, b);
    vh::counter("directed_cases");
    vh::counter("directed_reinit_pairs");
    a.sig.add(0x7200 + variant);
    vh::note_case(a.sig.h, true);
}

void reuse_directed_case(int variant) {
    Options o; o.equiv = true; o.cls = 3;
    World a("epoll", 2000 + variant, o);
    run_reuse_history(a, variant);
    World b("select", 2000 + variant, o);
    b.quiet = true;
    run_reuse_history(b, variant);
    bool ab = a.abandon || b.abandon;
    if (!ab) compare_backends(a, b);
    vh::counter("directed_cases");
    vh::counter("directed_reuse_number_pairs");
    a.sig.add(0x7000 + variant);
    vh::note_case(a.sig.h, true);
}

// ---- directed histories. Every callback script is symmetric (acts on "the other" event), so it does not matter
// which descriptor the back-end serves first.
const int kDirected = 14;

void directed_case(uint64_t idx, vh::Rng &) {
    if (idx >= 2 * (uint64_t)kDirected + 7) { reinit_directed_case((int)((idx - 2 * kDirected - 7) % 3)); return; }
    if (idx >= 2 * (uint64_t)kDirected + 3) {
        uint64_t j = (idx - 2 * kDirected - 3) % 4;
        wait_failure_directed_case((int)(j / 2), (j & 1) ? "select" : "epoll");
        return;
    }
    if (idx >= 2 * (uint64_t)kDirected) { reuse_directed_case((int)((idx - 2 * kDirected) % 3)); return; }
    int scen = (int)((idx / 2) % kDirected);
    const char *be = (idx & 1) ? "select" : "epoll";
    Options o; o.equiv = false; o.cls = 3;
    World w(be, 1000 + scen, o);
    w.start();
    w.log(vh::fmt("[%s directed %d]", be, scen));
    auto others_on = [](World &W, Ev &self, bool same_fd) {
        std::vector<Ev *> v;
        for (auto &kv : W.evs) if (kv.second != &self && ((kv.second->desc == self.desc) == same_fd)) v.push_back(kv.second);
        return v;
    };
    int npass = 3;
    switch (scen) {
    case 0: {   // two events on one readable pipe end; the first one called disables the other
        int c = w.add_pipe(); int rd = w.chans[c].d[0];
        w.create(1, rd, kR, false, true, 0); w.create(2, rd, kR, false, true, 0);
        w.set_level(w.dirs[0], 2);
        w.script = [others_on](World &W, Ev &self, int) { for (Ev *t : others_on(W, self, true)) { W.log(" dis " + W.evname(*t)); W.do_disable(*t); } vh::counter("directed_sibling_disable"); };
        break; }
    case 1: {   // ... destroys the other
        int c = w.add_pipe(); int rd = w.chans[c].d[0];
        w.create(1, rd, kR, false, true, 0); w.create(2, rd, kR, false, true, 0);
        w.set_level(w.dirs[0], 2);
        w.script = [others_on](World &W, Ev &self, int) { for (Ev *t : others_on(W, self, true)) { W.log(" del " + W.evname(*t)); W.destroy(*t); } vh::counter("directed_sibling_destroy"); };
        break; }
    case 2: {   // two readable pipes, one event each; the first one called destroys the only event of the other descriptor
        int a = w.add_pipe(), b = w.add_pipe();
        w.create(1, w.chans[a].d[0], kR, false, true, 0); w.create(2, w.chans[b].d[0], kR, false, true, 0);
        w.set_level(w.dirs[0], 2); w.set_level(w.dirs[1], 2);
        w.script = [others_on](World &W, Ev &self, int) { for (Ev *t : others_on(W, self, false)) { W.log(" del " + W.evname(*t)); W.destroy(*t); } vh::counter("directed_cross_destroy"); };
        break; }
    case 3: {   // ... and creates a new enabled event on a third descriptor that is not ready (takes the released record)
        int a = w.add_pipe(), b = w.add_pipe(), c = w.add_pipe();
        w.create(1, w.chans[a].d[0], kR, false, true, 0); w.create(2, w.chans[b].d[0], kR, false, true, 0);
        w.set_level(w.dirs[0], 2); w.set_level(w.dirs[1], 2);
        int idle = w.chans[c].d[0];
        w.script = [others_on, idle](World &W, Ev &self, int) {
            if (self.desc == idle) return;
            std::vector<Ev *> v = others_on(W, self, false);
            for (Ev *t : v) { W.log(" del " + W.evname(*t)); W.destroy(*t); }
            if (!v.empty()) W.create(W.child_id(self), idle, kR, false, true, 0);
            vh::counter("directed_cross_destroy_then_create");
        };
        break; }
    case 4: {   // one-shot: called once, disabled inside, stays silent until re-armed between passes
        int c = w.add_pipe();
        w.create(1, w.chans[c].d[0], kR, true, true, 0);
        w.set_level(w.dirs[0], 2);
        w.script = [](World &, Ev &, int) { vh::counter("directed_oneshot"); };
        break; }
    case 5: {   // one-shot re-armed inside its own callback, shared descriptor with a persistent sibling
        int c = w.add_pipe(); int rd = w.chans[c].d[0];
        w.create(1, rd, kR, true, true, 0); w.create(2, rd, kR, false, true, 0);
        w.set_level(w.dirs[0], 2);
        w.script = [](World &W, Ev &self, int) { if (self.oneshot) { W.log(" en-self"); W.do_enable(self); vh::counter("directed_oneshot_rearm"); } };
        break; }
    case 6: {   // deferred self delete with a sibling left behind
        int c = w.add_pipe(); int rd = w.chans[c].d[0];
        w.create(1, rd, kR, false, true, 0); w.create(2, rd, kR, false, true, 0);
        w.set_level(w.dirs[0], 2);
        w.script = [](World &W, Ev &self, int) { if (self.id == 1 && !self.pending_delete) { W.log(" del-self-later"); W.deferred_delete(self); vh::counter("directed_deferred_delete"); } };
        break; }
    case 7: {   // two ready descriptors; the first one called disables the event of the other
        int a = w.add_pipe(), b = w.add_sock();
        w.create(1, w.chans[a].d[1], kW, false, true, 0); w.create(2, w.chans[b].d[0], kW, false, true, 0);
        w.script = [others_on](World &W, Ev &self, int) { for (Ev *t : others_on(W, self, false)) { W.log(" dis " + W.evname(*t)); W.do_disable(*t); } vh::counter("directed_cross_disable"); };
        break; }
    case 8: {   // destroys the events of the other ready descriptor and closes it
        int a = w.add_pipe(), b = w.add_pipe();
        w.create(1, w.chans[a].d[0], kR, false, true, 0); w.create(2, w.chans[b].d[0], kR, false, true, 0); w.create(3, w.chans[b].d[0], kR, true, true, 0);
        w.set_level(w.dirs[0], 2); w.set_level(w.dirs[1], 2);
        w.script = [others_on](World &W, Ev &self, int) {
            std::vector<Ev *> v = others_on(W, self, false);
            if (v.empty()) return;
            int di = v[0]->desc;
            if (W.destroy_all_on(di, nullptr) > 0) { W.log(vh::fmt(" del-all+close d%d", di)); W.close_desc(di); vh::counter("directed_cross_destroy_close"); }
        };
        break; }
    case 9: {   // sibling disabled and re-enabled by the first one: may or may not be called, must be safe
        int c = w.add_sock(); int d0 = w.chans[c].d[0];
        w.create(1, d0, kW, false, true, 0); w.create(2, d0, kR | kW, false, true, 0);
        w.script = [others_on](World &W, Ev &self, int) { for (Ev *t : others_on(W, self, true)) { W.log(" toggle " + W.evname(*t)); W.do_disable(*t); W.do_enable(*t); } vh::counter("directed_sibling_toggle"); };
        break; }
    case 10: {  // new events created on the same and on another ready descriptor inside a callback
        int a = w.add_pipe(), b = w.add_pipe();
        w.create(1, w.chans[a].d[1], kW, false, true, 0); w.create(2, w.chans[b].d[1], kW, false, true, 0);
        w.script = [](World &W, Ev &self, int) {
            if (W.evs.size() < 8) { W.create(W.child_id(self), self.desc, kW, true, true, 0); W.create(W.child_id(self), W.chans[1 - W.descs[self.desc].chan].d[1], kW, true, true, 0); }
            vh::counter("directed_create_in_callback");
        };
        break; }
    case 11: {  // three siblings; the first one destroys the two others; the two others are one-shot
        int c = w.add_pipe(); int rd = w.chans[c].d[0];
        w.create(1, rd, kR, false, true, 0); w.create(2, rd, kR, true, true, 0); w.create(3, rd, kR, true, true, 0);
        w.set_level(w.dirs[0], 2);
        w.script = [others_on](World &W, Ev &self, int) { for (Ev *t : others_on(W, self, true)) { W.log(" del " + W.evname(*t)); W.destroy(*t); } vh::counter("directed_destroy_two_siblings"); };
        break; }
    case 12: {  // on-EOF idiom: peer closed, event disables itself, closes its descriptor, deletes itself later; another descriptor is ready too
        int a = w.add_sock(), b = w.add_pipe();
        w.create(1, w.chans[a].d[0], kR, false, true, 0); w.create(2, w.chans[b].d[1], kW, false, true, 0);
        w.close_desc(w.chans[a].d[1]);
        w.script = [](World &W, Ev &self, int) {
            if (self.id == 1 && !self.pending_delete) { W.log(" close-own"); W.do_disable(self); W.close_desc(self.desc); W.deferred_delete(self); vh::counter("directed_close_own"); }
        };
        break; }
    default: {  // two descriptors with two events each; first callback destroys both events of the other descriptor and creates two on an idle one
        int a = w.add_pipe(), b = w.add_pipe(), c = w.add_sock();
        w.create(1, w.chans[a].d[0], kR, false, true, 0); w.create(2, w.chans[a].d[0], kR, false, true, 0);
        w.create(3, w.chans[b].d[0], kR, false, true, 0); w.create(4, w.chans[b].d[0], kR, false, true, 0);
        w.set_level(w.dirs[0], 2); w.set_level(w.dirs[1], 2);
        w.fill_fd(w.descs[w.chans[c].d[0]].fd);    // socket end 0: nothing to read, not writable
        int idle = w.chans[c].d[0];
        w.script = [others_on, idle](World &W, Ev &self, int) {
            if (self.desc == idle) return;
            std::vector<Ev *> v = others_on(W, self, false);
            int n = 0;
            for (Ev *t : v) if (t->desc != idle) { W.log(" del " + W.evname(*t)); W.destroy(*t); ++n; }
            if (n) { W.create(W.child_id(self), idle, kR | kW, false, true, 0); W.create(W.child_id(self), idle, kW, true, true, 0); }
            vh::counter("directed_cross_destroy_two_then_create_two");
        };
        break; }
    }
    for (int p = 0; p < npass; ++p) {
        if (scen == 4 && p == 2) { Ev *e = w.find(1); if (e) { w.log("en " + w.evname(*e)); w.do_enable(*e); } }
        if (!w.run_pass()) break;
    }
    if (scen == 4 && !w.abandon) {
        size_t c0 = w.cb_log.size() > 0 ? w.cb_log[0].size() : 0, c1 = w.cb_log.size() > 1 ? w.cb_log[1].size() : 0, c2 = w.cb_log.size() > 2 ? w.cb_log[2].size() : 0;
        VH_CHECK(c1 == 0, w.k("oneshot/fired-again-without-rearm"), "one-shot event delivered %zu,%zu,%zu callbacks in passes 0,1,2 (re-armed before pass 2 only)", c0, c1, c2);
    }
    w.teardown();
    vh::counter("directed_cases");
    w.sig.add(idx);
    vh::note_case(w.sig.h, true);
}

}  // namespace

int main(int argc, char **argv) {
    signal(SIGPIPE, SIG_IGN);
    struct sigaction sa;
    memset(&sa, 0, sizeof sa);
    sa.sa_handler = on_sigusr2;     // no SA_RESTART
    sigemptyset(&sa.sa_mask);
    sigaction(SIGUSR2, &sa, nullptr);
    vh::parse_args(argc, argv);
    const std::string mode = vh::st().args.mode;
    return vh::run(argc, argv, [&](uint64_t idx, vh::Rng &r) {
        if (mode == "equiv") equiv_case(idx, r);
        else if (mode == "directed") directed_case(idx, r);
        else safety_case(idx, r);
    });
}
