// C10: util::AsyncPipe — lossless, ordered, contiguous appends; non-overlapping sink callbacks;
// cleanup flushes everything and returns. History is recorded at the API boundary (producers'
// append sizes, bytes seen by the sink callback) and checked after the scenario quiesced.
#include "common/vh.hpp"
#include "common/conc.hpp"
#include <tbox/util/async_pipe.h>
#include <thread>
#include <vector>
#include <string>
#include <atomic>
#include <memory>

using tbox::util::AsyncPipe;

VC_DEFINE_POINT()

namespace {

struct Step {            // one producer step
    int kind;            // 0 = append(n), 1 = locked group of k lockless appends, 2 = pause
    std::vector<size_t> sizes;
    int pause_us;
};

struct Producer {
    int id;
    std::vector<Step> steps;
    std::vector<size_t> unit_sizes;   // contiguity units in order (append size, or sum of a locked group)
    uint64_t total = 0;
    uint64_t slow_appends = 0;
};

struct SinkState {
    std::string out;
    std::vector<size_t> cb_sizes;
    std::atomic<int> inflight{0};
    std::atomic<int> overlap{0};
    std::atomic<bool> closed{false};
    std::atomic<int> late_cb{0};
    int sleep_every = 0;      // sink sleeps on every n-th callback
    int sleep_us = 0;
    uint64_t ncb = 0;
};

void run_round(vh::Rng &r, AsyncPipe &pipe, vh::Sig &sig, std::string &desc, bool destroy_instead, std::unique_ptr<AsyncPipe> *owner,
               bool &nontrivial) {
    static const size_t bsizes[] = {1, 2, 3, 16, 64, 1024};
    static const size_t ivals[] = {1, 2, 5, 50};
    AsyncPipe::Config cfg;
    cfg.buff_size = r.pick(bsizes);
    cfg.buff_min_num = 1 + r.below(3);
    cfg.buff_max_num = cfg.buff_min_num + r.below(4);
    cfg.interval = r.pick(ivals);
    bool inline_main = r.chance(1, 5);
    int nprod = inline_main ? 1 : 1 + (int)r.below(8);
    auto sink = std::make_shared<SinkState>();
    if (r.chance(1, 2)) { sink->sleep_every = 1 + (int)r.below(6); sink->sleep_us = 50 + (int)r.below(1500); }
    bool cb_before_init = r.chance(1, 2);

    std::vector<Producer> prods(nprod);
    uint64_t budget = 200 + r.below(cfg.buff_size >= 64 ? 6000 : 1500);   // total bytes this round
    for (int p = 0; p < nprod; ++p) {
        Producer &P = prods[p];
        P.id = p;
        uint64_t mine = budget / nprod + 1;
        int nsteps = 1 + (int)r.below(25);
        for (int s = 0; s < nsteps && P.total < mine; ++s) {
            Step st; st.pause_us = 0;
            auto pick_size = [&]() -> size_t {
                switch (r.below(7)) {
                    case 0: return 1;
                    case 1: return cfg.buff_size;
                    case 2: return cfg.buff_size > 1 ? cfg.buff_size - 1 : 1;
                    case 3: return cfg.buff_size + 1;
                    case 4: return cfg.buff_size * (2 + r.below(5)) + r.below(3);
                    case 5: return 1 + r.below(cfg.buff_size);
                    default: return 1 + r.below(40);
                }
            };
            int k = (int)r.below(12);
            // kind 3 "held group": appendLock, a lockless append that leaves the partial buffer non-empty, a pause longer
            // than the flush interval WITH the lock still held (the background thread's timed hand-over meets a busy
            // producer), optionally a second lockless append (sometimes larger than all buffers together: back-pressure
            // inside the critical section), appendUnlock
            auto held_group = [&](bool last) {
                st.kind = 3;
                st.sizes.push_back(1 + r.below(cfg.buff_size > 1 ? cfg.buff_size - 1 : 1));
                st.pause_us = (int)(cfg.interval * 1000 * (1 + r.below(cfg.interval >= 50 ? 1 : 3)) + r.below(500));
                vh::counter(last ? "held_groups_last_before_cleanup" : "held_groups");
                if (!last && r.chance(1, 2)) { bool big = r.chance(1, 2); if (big) vh::counter("held_groups_with_backpressure_inside"); st.sizes.push_back(big ? cfg.buff_size * (cfg.buff_max_num + 1) + r.below(50) : pick_size()); }
            };
            if (inline_main) {
                bool last = s >= (int)r.below(3);
                if (last && s > 0 && r.chance(1, 2)) held_group(true);
                else { st.kind = 0; st.sizes.push_back(s == 0 ? cfg.buff_size + 1 + r.below(cfg.buff_size) : pick_size()); }
                if (last) nsteps = s + 1;
            }
            else if (k >= 10) held_group(s + 1 == nsteps && r.chance(1, 2));
            else if (k < 6) { st.kind = 0; st.sizes.push_back(pick_size()); }
            else if (k < 8) { st.kind = 1; int g = 2 + (int)r.below(3); for (int i = 0; i < g; ++i) st.sizes.push_back(pick_size()); }
            else { st.kind = 2; st.pause_us = (int)r.below(cfg.interval * 1500 + 200); }
            size_t sum = 0;
            for (auto z : st.sizes) sum += z;
            if (st.kind != 2) { P.unit_sizes.push_back(sum); P.total += sum; }
            P.steps.push_back(st);
        }
    }
    sig.add(cfg.buff_size); sig.add(cfg.buff_min_num); sig.add(cfg.buff_max_num); sig.add(cfg.interval); sig.add(nprod);
    for (auto &P : prods) for (auto &st : P.steps) { sig.add(st.kind); for (auto z : st.sizes) sig.add(z); }
    desc += vh::fmt("round{buff=%zu min=%zu max=%zu ival=%zu prod=%d sinksleep=%d/%dus cb_first=%d destroy=%d bytes=[",
                    cfg.buff_size, cfg.buff_min_num, cfg.buff_max_num, cfg.interval, nprod, sink->sleep_every, sink->sleep_us,
                    (int)cb_before_init, (int)destroy_instead);
    for (auto &P : prods) desc += vh::fmt("%llu,", (unsigned long long)P.total);
    desc += "]} ";
    vh::st().case_desc = desc;

    auto cb = [sink, cfg](const void *p, size_t n) {
        if (sink->closed.load()) sink->late_cb.fetch_add(1);
        if (sink->inflight.fetch_add(1) != 0) sink->overlap.fetch_add(1);
        ++sink->ncb;
        sink->out.append(static_cast<const char *>(p), n);
        sink->cb_sizes.push_back(n);
        if (sink->sleep_every && (sink->ncb % sink->sleep_every) == 0) vc::sleep_us(sink->sleep_us);
        sink->inflight.fetch_sub(1);
    };

    if (cb_before_init) pipe.setCallback(cb);
    bool ok = pipe.initialize(cfg);
    if (!ok) { vh::viol("api/initialize-failed", "initialize() refused a valid configuration"); return; }
    if (!cb_before_init) pipe.setCallback(cb);

    auto produce = [&pipe, &prods](int p) {
            Producer &P = prods[p];
            uint64_t k = 0;   // running byte index of this producer
            auto make = [&](size_t n) {
                std::unique_ptr<char[]> b(new char[n]);
                for (size_t i = 0; i < n; ++i) b[i] = (char)((P.id << 4) | (int)((k + i) & 15));
                k += n;
                return b;
            };
            for (auto &st : P.steps) {
                if (st.kind == 2) { vc::sleep_us(st.pause_us); continue; }
                if (st.kind == 0) {
                    auto b = make(st.sizes[0]);
                    auto t0 = std::chrono::steady_clock::now();
                    pipe.append(b.get(), st.sizes[0]);
                    if (std::chrono::steady_clock::now() - t0 > std::chrono::microseconds(300)) ++P.slow_appends;
                } else if (st.kind == 3) {
                    pipe.appendLock();
                    { auto b = make(st.sizes[0]); pipe.appendLockless(b.get(), st.sizes[0]); }
                    vc::sleep_us(st.pause_us);
                    if (st.sizes.size() > 1) { auto b = make(st.sizes[1]); pipe.appendLockless(b.get(), st.sizes[1]); }
                    pipe.appendUnlock();
                } else {
                    pipe.appendLock();
                    for (auto z : st.sizes) { auto b = make(z); pipe.appendLockless(b.get(), z); }
                    pipe.appendUnlock();
                }
            }
    };
    std::vector<std::thread> th;
    if (inline_main) {
        // short-lived pipe: the thread that initialised it appends at once and goes straight on to cleanup(), so
        // the background thread may not even have reached its loop when the stop flag is raised
        produce(0);
        vh::counter("inline_short_lived_rounds");
    } else {
        for (int p = 0; p < nprod; ++p) th.emplace_back(produce, p);
        for (auto &t : th) t.join();
    }

    // everything appended; now cleanup (or destroy) must flush and return
    if (destroy_instead) owner->reset();
    else pipe.cleanup();
    sink->closed.store(true);

    // ---------------- offline check of the recorded history -----------------
    uint64_t total = 0;
    for (auto &P : prods) total += P.total;
    const std::string &out = sink->out;
    if (out.size() != total)
        vh::viol(out.size() < total ? "history/bytes-lost-at-cleanup" : "history/bytes-duplicated",
                 vh::fmt("appended %llu bytes, sink received %zu when %s returned", (unsigned long long)total, out.size(),
                         destroy_instead ? "~AsyncPipe" : "cleanup()"));
    std::vector<uint64_t> idx(nprod, 0);        // next expected byte index per producer
    std::vector<size_t> unit(nprod, 0);         // current unit number
    std::vector<uint64_t> unit_left(nprod, 0);  // bytes left in the open unit (0 = none open)
    int open_prod = -1;
    bool order_bad = false, contig_bad = false;
    for (size_t i = 0; i < out.size() && !order_bad && !contig_bad; ++i) {
        unsigned char c = (unsigned char)out[i];
        int p = c >> 4;
        if (p >= nprod) { vh::viol("history/foreign-byte", vh::fmt("byte 0x%02x at stream offset %zu belongs to no producer", c, i)); order_bad = true; break; }
        if ((c & 15) != (idx[p] & 15)) {
            vh::viol("history/producer-order", vh::fmt("stream offset %zu: producer %d byte has sequence nibble %d, expected %d (byte index %llu)",
                                                    i, p, c & 15, (int)(idx[p] & 15), (unsigned long long)idx[p]));
            order_bad = true; break;
        }
        if (open_prod >= 0 && open_prod != p) {
            vh::viol("history/append-not-contiguous", vh::fmt("stream offset %zu: byte of producer %d inside an open append of producer %d (%llu bytes of it still missing)",
                                                           i, p, open_prod, (unsigned long long)unit_left[open_prod]));
            contig_bad = true; break;
        }
        if (unit_left[p] == 0) {
            if (unit[p] >= prods[p].unit_sizes.size()) { vh::viol("history/bytes-duplicated", vh::fmt("producer %d delivered more bytes than it appended", p)); order_bad = true; break; }
            unit_left[p] = prods[p].unit_sizes[unit[p]++];
            open_prod = p;
        }
        ++idx[p];
        if (--unit_left[p] == 0) open_prod = -1;
    }
    if (!order_bad && !contig_bad)
        for (int p = 0; p < nprod; ++p)
            if (idx[p] != prods[p].total)
                vh::viol("history/producer-bytes-lost", vh::fmt("producer %d appended %llu bytes, %llu delivered", p,
                                                             (unsigned long long)prods[p].total, (unsigned long long)idx[p]));
    if (sink->overlap.load()) vh::viol("history/sink-callbacks-overlap", vh::fmt("%d sink callbacks entered while another was running", sink->overlap.load()));
    if (sink->late_cb.load()) vh::viol("history/callback-after-cleanup", vh::fmt("%d callbacks after cleanup returned", sink->late_cb.load()));
    for (auto n : sink->cb_sizes) {
        if (n > cfg.buff_size) vh::viol("history/block-larger-than-buffer", vh::fmt("callback with %zu bytes, buffer size %zu", n, cfg.buff_size));
        if (n == 0) vh::counter("empty_callbacks");
    }
    // counters
    uint64_t partial = 0;
    for (size_t i = 0; i + 1 < sink->cb_sizes.size(); ++i) if (sink->cb_sizes[i] < cfg.buff_size) ++partial;
    vh::counter("sink_callbacks", sink->cb_sizes.size());
    vh::counter("partial_block_flushes", partial);
    uint64_t slow = 0; for (auto &P : prods) slow += P.slow_appends;
    vh::counter("slow_appends_backpressure", slow);
    vh::counter("bytes", total);
    vh::counter("producers", nprod);
    if (nprod >= 2 && partial > 0) nontrivial = true;
}

void one_case(uint64_t idx, vh::Rng &r) {
    static const int dmax[] = {0, 20, 100, 300};
    vc::set_delays(vh::mix(vh::st().args.seed, idx), (int)r.below(9), r.pick(dmax));
    vh::Sig sig;
    std::string desc;
    bool nontrivial = false;
    std::unique_ptr<AsyncPipe> pipe(new AsyncPipe);
    int rounds = 1 + (int)r.below(2);
    for (int k = 0; k < rounds; ++k) {
        bool destroy = (k == rounds - 1) && r.chance(1, 4);
        run_round(r, *pipe, sig, desc, destroy, &pipe, nontrivial);
        if (!pipe) break;
    }
    pipe.reset();
    vh::counter("rounds", rounds);
    vh::counter("verif_point_hits", vc::dcfg().hits.exchange(0));
    vh::counter("verif_point_delays", vc::dcfg().delays.exchange(0));
    vh::note_case(sig.h, nontrivial);
    if (nontrivial && vh::want_sample()) vh::sample("{\"scenario\":" + vh::jstr(desc) + "}");
}

}  // namespace

int main(int argc, char **argv) {
    int rc = vh::run(argc, argv, one_case);
    return rc;
}
