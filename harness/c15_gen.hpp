// C15 generator: builds well-formed DNS replies (with name compression) whose answer records are known by
// construction, and derives hostile datagrams from them (truncation at every offset, inflated counts, compression
// pointers to self / in cycles / in long chains / outside the packet, label lengths past the end, RDLENGTH lies,
// byte flips, random bytes, header variants).
#ifndef VERIF_C15_GEN_HPP
#define VERIF_C15_GEN_HPP

#include "common/vh.hpp"
#include "c15_ref.hpp"

namespace c15gen {

typedef std::vector<uint8_t> Bytes;

struct Suffix { size_t off; std::string text; int depth; size_t wire_len; };

struct Reply {
    Bytes b;
    std::vector<size_t> name_starts, label_offs, ptr_offs, rdlen_offs, rec_starts;
    std::vector<int> rdlen_types;
    std::vector<c15ref::RepA> ea;       //! answer-section A records, by construction
    std::vector<c15ref::RepC> ec;       //! answer-section CNAME records, by construction
    std::vector<Suffix> sfx;
    int max_depth = 0;
    unsigned n_answers = 0;
};

inline void put16(Bytes &b, unsigned v) { b.push_back(uint8_t(v >> 8)); b.push_back(uint8_t(v)); }
inline void put32(Bytes &b, uint32_t v) { put16(b, v >> 16); put16(b, v & 0xffff); }
inline void set16(Bytes &b, size_t off, unsigned v) { if (off + 1 < b.size()) { b[off] = uint8_t(v >> 8); b[off + 1] = uint8_t(v); } }

inline std::string plain_label(vh::Rng &r, size_t len) {
    static const char cs[] = "abcdefghijklmnopqrstuvwxyz0123456789-_ABCXYZ";
    std::string s;
    for (size_t i = 0; i < len; ++i) s += cs[r.below(sizeof cs - 1)];
    return s;
}

inline std::vector<std::string> plain_labels(vh::Rng &r) {
    std::vector<std::string> v;
    unsigned k = r.below(100);
    if (k < 3) {            // long name close to the 255 limit
        size_t n = 3 + r.below(2);
        for (size_t i = 0; i < n; ++i) v.push_back(plain_label(r, 40 + r.below(23)));
    } else if (k < 8) {     // a maximal label
        v.push_back(plain_label(r, 63));
        v.push_back(plain_label(r, 1 + r.below(5)));
    } else {
        size_t n = 1 + r.below(4);
        for (size_t i = 0; i < n; ++i) v.push_back(plain_label(r, 1 + r.below(10)));
    }
    return v;
}

inline std::string join(const std::vector<std::string> &v) {
    std::string s;
    for (size_t i = 0; i < v.size(); ++i) { if (i) s += '.'; s += v[i]; }
    return s;
}

//! domain names the harness looks up
inline std::string rand_domain(vh::Rng &r) { return join(plain_labels(r)); }

inline std::vector<std::string> split_domain(const std::string &d) {
    std::vector<std::string> v;
    std::string cur;
    for (char c : d) { if (c == '.') { v.push_back(cur); cur.clear(); } else cur += c; }
    v.push_back(cur);
    return v;
}

//! writes a name: literal labels, optionally ended by a pointer to an earlier suffix; returns the resulting text
inline std::string put_name(Reply &R, const std::vector<std::string> &labels, const Suffix *tail) {
    Bytes &b = R.b;
    R.name_starts.push_back(b.size());
    size_t wire_tail = tail ? tail->wire_len : 1;
    std::string tail_text = tail ? tail->text : "";
    int depth = tail ? tail->depth + 1 : 0;
    if (depth > R.max_depth) R.max_depth = depth;
    // suffix registry entries for every label start
    std::vector<size_t> offs;
    for (auto &l : labels) {
        offs.push_back(b.size());
        R.label_offs.push_back(b.size());
        b.push_back(uint8_t(l.size()));
        b.insert(b.end(), l.begin(), l.end());
    }
    size_t endoff = b.size();
    if (tail) { R.ptr_offs.push_back(b.size()); put16(b, 0xc000 | tail->off); }
    else b.push_back(0);
    // texts and wire lengths from the back
    std::string text = tail_text;
    size_t wl = wire_tail;
    if (tail && endoff < 0x4000) R.sfx.push_back(Suffix{endoff, tail_text, depth, wire_tail});
    for (size_t i = labels.size(); i-- > 0;) {
        text = text.empty() ? labels[i] : labels[i] + "." + text;
        if (i + 1 == labels.size() && tail_text.empty()) text = labels[i];
        wl += 1 + labels[i].size();
        if (offs[i] < 0x4000) R.sfx.push_back(Suffix{offs[i], text, depth, wl});
    }
    return text;
}

//! a well-formed name: 0-3 fresh labels + maybe a backward pointer (depth and 255-byte limit respected)
inline std::string put_valid_name(Reply &R, vh::Rng &r, int max_depth = 8) {
    const Suffix *tail = nullptr;
    Suffix copy;
    if (!R.sfx.empty() && r.chance(65, 100)) {
        for (int tries = 0; tries < 4; ++tries) {
            const Suffix &s = R.sfx[r.below(R.sfx.size())];
            if (s.depth + 1 <= max_depth && s.wire_len <= 200) { copy = s; tail = &copy; break; }
        }
    }
    std::vector<std::string> labels;
    if (tail) {
        size_t n = r.below(3);
        for (size_t i = 0; i < n; ++i) labels.push_back(plain_label(r, 1 + r.below(8)));
    } else labels = plain_labels(r);
    // keep total wire length <= 255
    size_t wl = tail ? tail->wire_len : 1;
    std::vector<std::string> kept;
    for (auto &l : labels) { if (wl + 1 + l.size() <= 255) { kept.push_back(l); wl += 1 + l.size(); } }
    if (!tail && kept.empty()) kept.push_back("x");
    return put_name(R, kept, tail);
}

struct RecOpen { size_t rdlen_off; size_t rdata_off; };

inline RecOpen begin_rec(Reply &R, vh::Rng &r, int type, uint32_t ttl, bool owner_is_question) {
    R.rec_starts.push_back(R.b.size());
    if (owner_is_question) {   // the usual 0xC00C
        Suffix q{12, "", 0, 1};
        for (auto &s : R.sfx) if (s.off == 12) q = s;
        put_name(R, {}, &q);
    } else put_valid_name(R, r);
    put16(R.b, type);
    put16(R.b, 1);
    put32(R.b, ttl);
    RecOpen o;
    o.rdlen_off = R.b.size();
    R.rdlen_offs.push_back(o.rdlen_off);
    R.rdlen_types.push_back(type);
    put16(R.b, 0);
    o.rdata_off = R.b.size();
    return o;
}
inline void end_rec(Reply &R, const RecOpen &o) { set16(R.b, o.rdlen_off, unsigned(R.b.size() - o.rdata_off)); }

inline uint32_t rand_ttl(vh::Rng &r) {
    switch (r.below(6)) { case 0: return 0; case 1: return 0xffffffffu; case 2: return 0x80000000u; case 3: return 300; default: return uint32_t(r.next()); }
}

inline void put_record(Reply &R, vh::Rng &r, int section) {
    unsigned k = r.below(100);
    uint32_t ttl = rand_ttl(r);
    bool oq = r.chance(1, 2);
    if (k < 45) {
        RecOpen o = begin_rec(R, r, 1, ttl, oq);
        c15ref::RepA a; a.ttl = ttl;
        for (int i = 0; i < 4; ++i) { a.ip[i] = r.chance(1, 8) ? (r.chance(1, 2) ? 0 : 255) : r.byte(); R.b.push_back(a.ip[i]); }
        end_rec(R, o);
        if (section == 0) R.ea.push_back(a);
    } else if (k < 70) {
        RecOpen o = begin_rec(R, r, 5, ttl, oq);
        std::string nm = put_valid_name(R, r);
        end_rec(R, o);
        if (section == 0) { c15ref::RepC c; c.ttl = ttl; c.name = nm; R.ec.push_back(c); }
    } else if (k < 78) {
        RecOpen o = begin_rec(R, r, 28, ttl, oq);
        for (int i = 0; i < 16; ++i) R.b.push_back(r.byte());
        end_rec(R, o);
    } else if (k < 83) {
        RecOpen o = begin_rec(R, r, 2, ttl, oq);
        put_valid_name(R, r);
        end_rec(R, o);
    } else if (k < 87) {
        RecOpen o = begin_rec(R, r, 15, ttl, oq);
        put16(R.b, r.below(100));
        put_valid_name(R, r);
        end_rec(R, o);
    } else if (k < 90) {
        RecOpen o = begin_rec(R, r, 6, ttl, oq);
        put_valid_name(R, r);
        put_valid_name(R, r);
        for (int i = 0; i < 20; ++i) R.b.push_back(r.byte());
        end_rec(R, o);
    } else if (k < 93) {
        RecOpen o = begin_rec(R, r, 16, ttl, oq);
        size_t n = r.below(40);
        R.b.push_back(uint8_t(n));
        for (size_t i = 0; i < n; ++i) R.b.push_back(r.byte());
        end_rec(R, o);
    } else {
        static const int types[] = {0, 3, 4, 7, 12, 13, 33, 41, 99, 255, 256, 0x0105, 0xff01, 65535};
        RecOpen o = begin_rec(R, r, r.pick(types), ttl, oq);
        size_t n = r.chance(1, 3) ? 0 : r.below(41);
        for (size_t i = 0; i < n; ++i) R.b.push_back(r.byte());
        end_rec(R, o);
    }
}

//! a reply every real server could have sent: header, the question echoed, answers, optional authority/additional
inline Reply make_reply(vh::Rng &r, uint16_t id, const std::string &domain, int rcode = 0, int max_answers = 8) {
    Reply R;
    unsigned flags = 0x8000 | (r.chance(1, 2) ? 0x0400 : 0) | (r.chance(3, 4) ? 0x0100 : 0) | (r.chance(3, 4) ? 0x0080 : 0) | (rcode & 15);
    put16(R.b, id);
    put16(R.b, flags);
    put16(R.b, 1); put16(R.b, 0); put16(R.b, 0); put16(R.b, 0);
    put_name(R, split_domain(domain), nullptr);
    put16(R.b, 1); put16(R.b, 1);
    if (rcode != 0) return R;
    unsigned an = r.chance(1, 12) ? 0 : 1 + r.below(max_answers);
    for (unsigned i = 0; i < an; ++i) put_record(R, r, 0);
    R.n_answers = an;
    unsigned ns = r.chance(1, 4) ? 1 + r.below(2) : 0, ar = r.chance(1, 4) ? 1 + r.below(2) : 0;
    for (unsigned i = 0; i < ns; ++i) put_record(R, r, 1);
    for (unsigned i = 0; i < ar; ++i) put_record(R, r, 2);
    set16(R.b, 6, an); set16(R.b, 8, ns); set16(R.b, 10, ar);
    return R;
}

struct Dg { Bytes b; std::string tag; bool keep_id; };

inline void add(std::vector<Dg> &out, const Bytes &b, const std::string &tag, bool keep_id = false) { out.push_back(Dg{b, tag, keep_id}); }

//! a reply whose CNAME names carry bytes real servers never send (NUL, dots, high bytes, long / reserved labels)
inline Reply make_odd_reply(vh::Rng &r, uint16_t id, const std::string &domain) {
    Reply R;
    put16(R.b, id); put16(R.b, 0x8180);
    put16(R.b, 1); put16(R.b, 0); put16(R.b, 0); put16(R.b, 0);
    put_name(R, split_domain(domain), nullptr);
    put16(R.b, 1); put16(R.b, 1);
    unsigned an = 1 + r.below(3);
    for (unsigned i = 0; i < an; ++i) {
        uint32_t ttl = rand_ttl(r);
        RecOpen o = begin_rec(R, r, 5, ttl, true);
        std::vector<std::string> labels;
        size_t n = 1 + r.below(3);
        for (size_t k = 0; k < n; ++k) {
            std::string l = plain_label(r, 1 + r.below(6));
            switch (r.below(5)) {
                case 0: l.insert(r.below(l.size() + 1), 1, '\0'); break;
                case 1: l.insert(r.below(l.size() + 1), 1, '.'); break;
                case 2: l.insert(r.below(l.size() + 1), 1, char(0x80 + r.below(128))); break;
                case 3: l = std::string(1, '\0'); break;
                default: break;
            }
            labels.push_back(l);
        }
        const Suffix *tail = nullptr;
        Suffix q;
        if (r.chance(1, 2)) { q = R.sfx[r.below(R.sfx.size())]; tail = &q; }
        std::string nm = put_name(R, labels, tail);
        end_rec(R, o);
        c15ref::RepC c; c.ttl = ttl; c.name = nm; R.ec.push_back(c);
    }
    set16(R.b, 6, an);
    return R;
}

//! hostile datagrams derived from one base reply
inline void make_variants(const Reply &base, vh::Rng &r, std::vector<Dg> &out, bool every_offset) {
    const Bytes &b = base.b;
    size_t n = b.size();
    // truncation at every offset (or a sample of offsets for long replies)
    if (every_offset || n <= 160) {
        for (size_t k = 0; k < n; ++k) add(out, Bytes(b.begin(), b.begin() + k), "cut");
    } else {
        std::set<size_t> cuts;
        for (size_t k = 0; k < 40; ++k) cuts.insert(k);
        for (size_t s : base.rec_starts) for (int d = -2; d <= 12; ++d) if (long(s) + d > 0 && s + d < n) cuts.insert(s + d);
        for (int i = 0; i < 40; ++i) cuts.insert(r.below(n));
        for (size_t k : cuts) add(out, Bytes(b.begin(), b.begin() + k), "cut");
    }
    // inflated counts
    {
        unsigned an = c15ref::rd16(&b[6]);
        static const unsigned incs[] = {1, 2, 7, 255, 256};
        for (unsigned inc : incs) { Bytes m = b; set16(m, 6, (an + inc) & 0xffff); add(out, m, "an-inflated"); }
        { Bytes m = b; set16(m, 6, 0xffff); add(out, m, "an-ffff"); }
        { Bytes m = b; set16(m, 4, 2 + r.below(4)); add(out, m, "qd-inflated"); }
        { Bytes m = b; set16(m, 4, 0xffff); add(out, m, "qd-ffff"); }
        { Bytes m = b; set16(m, 4, 0); add(out, m, "qd-zero"); }
        { Bytes m = b; set16(m, 8, 0xffff); set16(m, 10, 0xffff); add(out, m, "ns-ar-ffff"); }
        if (an) { Bytes m = b; set16(m, 6, an - 1); add(out, m, "an-deflated"); }
        // the 27-byte shape: header + one A record, no question, count 0xFFFF
        Bytes m;
        put16(m, 0); put16(m, 0x8180); put16(m, 0); put16(m, 0xffff); put16(m, 0); put16(m, 0);
        m.push_back(0); put16(m, 1); put16(m, 1); put32(m, 60); put16(m, 4);
        for (int i = 0; i < 4; ++i) m.push_back(r.byte());
        add(out, m, "one-a-count-ffff");
    }
    // compression pointer mutations
    std::vector<size_t> spots = base.name_starts;
    spots.insert(spots.end(), base.ptr_offs.begin(), base.ptr_offs.end());
    auto spot = [&]() -> size_t { return spots.empty() ? 12 : spots[r.below(spots.size())]; };
    for (int i = 0; i < 3; ++i) { Bytes m = b; size_t s = spot(); set16(m, s, 0xc000 | s); add(out, m, "ptr-self"); }
    for (int i = 0; i < 3; ++i) {
        Bytes m = b; size_t s1 = spot(), s2 = spot();
        if (s1 == s2 || s1 + 1 == s2 || s2 + 1 == s1) continue;
        set16(m, s1, 0xc000 | s2); set16(m, s2, 0xc000 | s1); add(out, m, "ptr-2cycle");
    }
    {   // a cycle of 3-6 pointers appended, entered from a name in the reply
        Bytes m = b; size_t base_off = m.size(); unsigned k = 3 + r.below(4);
        if (base_off + 2 * k < 0x4000) {
            for (unsigned i = 0; i < k; ++i) put16(m, 0xc000 | (base_off + 2 * ((i + 1) % k)));
            set16(m, spot(), 0xc000 | base_off);
            add(out, m, "ptr-cycle");
        }
    }
    static const unsigned chain_lens[] = {9, 17, 40, 130, 400, 1500};
    for (unsigned k : chain_lens) {   // chains: pointer i -> pointer i+1 -> ... -> a real name
        if (!every_offset && k > 40 && !r.chance(1, 3)) continue;
        Bytes m = b; size_t base_off = m.size();
        if (base_off + 2 * k >= 0x3ff0) continue;
        bool backward = r.chance(1, 2);
        for (unsigned i = 0; i < k; ++i) {
            size_t tgt = backward ? (i == 0 ? 12 : base_off + 2 * (i - 1)) : (i + 1 == k ? 12 : base_off + 2 * (i + 1));
            put16(m, 0xc000 | tgt);
        }
        set16(m, spot(), 0xc000 | (backward ? base_off + 2 * (k - 1) : base_off));
        add(out, m, backward ? "ptr-chain-backward" : "ptr-chain-forward");
    }
    for (int i = 0; i < 4; ++i) {
        Bytes m = b; size_t s = spot();
        static const int kinds[] = {0, 1, 2, 3};
        unsigned tgt;
        switch (r.pick(kinds)) { case 0: tgt = unsigned(n); break; case 1: tgt = 0x3fff; break; case 2: tgt = unsigned(n + 1 + r.below(200)) & 0x3fff; break; default: tgt = unsigned(n - 1); }
        set16(m, s, 0xc000 | tgt); add(out, m, tgt >= n ? "ptr-outside" : "ptr-last-byte");
    }
    for (int i = 0; i < 2; ++i) { Bytes m = b; set16(m, spot(), 0xc000 | r.below(12)); add(out, m, "ptr-into-header"); }
    if (n > 14) { Bytes m = b; size_t s = spot(); set16(m, s, 0xc000 | (s + 2 + r.below(n - s)) % n); add(out, m, "ptr-forward"); }
    // label length lies
    for (int i = 0; i < 5 && !base.label_offs.empty(); ++i) {
        Bytes m = b; size_t s = base.label_offs[r.below(base.label_offs.size())];
        static const unsigned lens[] = {0x3f, 0x40, 0x7f, 0x80, 0xbf, 0xc0, 0xff, 1, 0};
        unsigned v = r.chance(1, 3) ? unsigned(std::min<size_t>(n - s, 0xbf)) : r.pick(lens);
        m[s] = uint8_t(v); add(out, m, "label-length");
    }
    // RDLENGTH lies
    for (int i = 0; i < 6 && !base.rdlen_offs.empty(); ++i) {
        size_t k = r.below(base.rdlen_offs.size());
        Bytes m = b; size_t s = base.rdlen_offs[k];
        unsigned cur = c15ref::rd16(&b[s]);
        static const unsigned vals[] = {0, 1, 3, 4, 5, 16, 0xffff, 0x0100};
        unsigned v = r.chance(1, 3) ? (cur + (r.chance(1, 2) ? 1 : 0xffff)) & 0xffff : r.pick(vals);
        set16(m, s, v); add(out, m, base.rdlen_types[k] == 1 ? "rdlength-a" : base.rdlen_types[k] == 5 ? "rdlength-cname" : "rdlength-other");
    }
    // type flips: make a non-A record claim to be A / CNAME
    for (int i = 0; i < 3 && !base.rdlen_offs.empty(); ++i) {
        Bytes m = b; size_t s = base.rdlen_offs[r.below(base.rdlen_offs.size())];
        set16(m, s - 8, r.chance(1, 2) ? 1 : 5); add(out, m, "type-flip");
    }
    // byte flips
    for (int i = 0; i < 10 && n > 4; ++i) {
        Bytes m = b; unsigned k = 1 + r.below(4);
        static const uint8_t vals[] = {0, 1, 0x3f, 0x40, 0x7f, 0x80, 0xc0, 0xc1, 0xff};
        for (unsigned j = 0; j < k; ++j) m[4 + r.below(n - 4)] = r.chance(1, 2) ? r.pick(vals) : r.byte();
        add(out, m, "byte-flips");
    }
    // trailing bytes
    { Bytes m = b; size_t k = 1 + r.below(20); for (size_t i = 0; i < k; ++i) m.push_back(r.byte()); add(out, m, "trailing"); }
    // header variants
    { Bytes m = b; m[2] &= 0x7f; add(out, m, "qr-clear"); }
    { Bytes m = b; m[2] |= uint8_t((1 + r.below(15)) << 3); add(out, m, "opcode"); }
    { Bytes m = b; m[2] |= 0x02; add(out, m, "tc-set"); }
    for (unsigned rc = 1; rc < 16; ++rc) { Bytes m = b; m[3] = uint8_t((m[3] & 0xf0) | rc); add(out, m, "rcode"); }
    for (unsigned rc = 1; rc < 16; rc += 1 + r.below(3)) { Bytes m(b.begin(), b.begin() + 4 + r.below(8)); m[3] = uint8_t((m[3] & 0xf0) | rc); add(out, m, "rcode-short"); }
    { Bytes m = b; unsigned id = c15ref::rd16(&b[0]); set16(m, 0, (id + 1) & 0xffff); add(out, m, "wrong-id", true); }
    { Bytes m = b; unsigned id = c15ref::rd16(&b[0]); set16(m, 0, (id - 1) & 0xffff); add(out, m, "wrong-id", true); }
    { Bytes m = b; set16(m, 0, r.below(65536)); add(out, m, "wrong-id", true); }
    // random bytes
    static const size_t rl[] = {0, 1, 2, 3, 4, 5, 11, 12, 13, 16, 27, 40, 64};
    for (size_t len : rl) {
        Bytes m(len);
        for (auto &c : m) c = r.chance(1, 4) ? (r.chance(1, 2) ? 0xc0 : 0) : r.byte();
        bool as_reply = r.chance(2, 3);
        if (as_reply && len >= 4) { m[2] = 0x81; m[3] = 0x80; if (len >= 12 && r.chance(1, 2)) { set16(m, 4, r.below(3)); set16(m, 6, 1 + r.below(4)); } }
        add(out, m, "random", !as_reply);
    }
}

//! what make_slack_reply put into a reply
struct SlackInfo {
    unsigned slack_cnames = 0, shaped_like_a_record = 0, shaped_like_a_header = 0, after_pointer = 0, records_after_slack = 0,
             control_unknown_shaped = 0, zeros = 0, random = 0;
};

//! bytes that look like a complete A record (owner 0xC00C, type A, class IN, TTL, RDLENGTH 4, address)
inline void put_fake_a_record(Bytes &b, vh::Rng &r) {
    put16(b, 0xc00c); put16(b, 1); put16(b, 1); put32(b, 60 + r.below(1000)); put16(b, 4);
    b.push_back(6); b.push_back(6); b.push_back(6); b.push_back(uint8_t(1 + r.below(250)));
}
//! bytes that look like the start of a record (root owner + 10-byte header) whose RDATA would be whatever follows
inline void put_fake_header(Bytes &b, vh::Rng &r) {
    b.push_back(0);
    static const int types[] = {1, 5, 1, 99, 0};
    put16(b, r.pick(types)); put16(b, 1); put32(b, r.below(100000));
    static const int lens[] = {4, 0, 2, 16, 300};
    put16(b, r.pick(lens));
}

//! a reply in which RDLENGTH of some CNAME records is larger than the encoded name: name, then 1..40 slack bytes inside the RDATA
//! (zeros, random bytes, bytes shaped like a complete A record / like a record header), followed by further real records. A record
//! is framed by its RDLENGTH, so the slack is opaque and the following records are the real ones. Unknown-type records carrying
//! the same shaped bytes serve as control. R.ea / R.ec hold the answer-section records by construction.
inline Reply make_slack_reply(vh::Rng &r, uint16_t id, const std::string &domain, SlackInfo &si) {
    Reply R;
    unsigned flags = 0x8000 | (r.chance(1, 2) ? 0x0400 : 0) | (r.chance(3, 4) ? 0x0100 : 0) | (r.chance(3, 4) ? 0x0080 : 0);
    put16(R.b, id); put16(R.b, flags);
    put16(R.b, 1); put16(R.b, 0); put16(R.b, 0); put16(R.b, 0);
    put_name(R, split_domain(domain), nullptr);
    put16(R.b, 1); put16(R.b, 1);
    unsigned an = 0;
    bool pending_slack = false;      // a slack CNAME has been written and no real record behind it yet
    auto real_a = [&]() {
        uint32_t ttl = rand_ttl(r);
        RecOpen o = begin_rec(R, r, 1, ttl, r.chance(1, 2));
        c15ref::RepA a; a.ttl = ttl;
        for (int i = 0; i < 4; ++i) { a.ip[i] = uint8_t(10 + r.below(200)); R.b.push_back(a.ip[i]); }
        end_rec(R, o); R.ea.push_back(a); ++an;
        if (pending_slack) { ++si.records_after_slack; pending_slack = false; }
    };
    auto slack_bytes = [&](bool count) {
        unsigned kind = r.below(5);
        size_t before = R.b.size();
        switch (kind) {
            case 0: { size_t k = 1 + r.below(40); for (size_t i = 0; i < k; ++i) R.b.push_back(0); if (count) ++si.zeros; break; }
            case 1: { size_t k = 1 + r.below(40); for (size_t i = 0; i < k; ++i) R.b.push_back(r.byte()); if (count) ++si.random; break; }
            case 2: put_fake_a_record(R.b, r); if (count) ++si.shaped_like_a_record; break;
            case 3: { put_fake_a_record(R.b, r); size_t k = r.below(24); for (size_t i = 0; i < k; ++i) R.b.push_back(r.chance(1, 2) ? 0 : r.byte()); if (count) ++si.shaped_like_a_record; break; }
            default: put_fake_header(R.b, r); if (count) ++si.shaped_like_a_header; break;
        }
        (void)before;
    };
    auto slack_cname = [&]() {
        uint32_t ttl = rand_ttl(r);
        RecOpen o = begin_rec(R, r, 5, ttl, r.chance(1, 2));
        std::string nm;
        if (r.chance(1, 3) && !R.sfx.empty()) {        // the whole name is one 2-byte pointer
            Suffix t = R.sfx[r.below(R.sfx.size())];
            for (int tries = 0; tries < 6 && (t.depth + 1 > 8); ++tries) t = R.sfx[r.below(R.sfx.size())];
            if (t.depth + 1 > 8) t = R.sfx[0];
            nm = put_name(R, {}, &t);
        } else nm = put_valid_name(R, r);
        if (!R.ptr_offs.empty() && R.ptr_offs.back() + 2 == R.b.size()) ++si.after_pointer;
        slack_bytes(true);
        end_rec(R, o);
        c15ref::RepC c; c.ttl = ttl; c.name = nm; R.ec.push_back(c); ++an;
        ++si.slack_cnames;
        pending_slack = true;
    };
    unsigned items = 2 + r.below(5);
    for (unsigned i = 0; i < items; ++i) {
        unsigned k = r.below(100);
        if (k < 35 || (i + 1 == items && si.slack_cnames == 0)) slack_cname();
        else if (k < 50) {     // control: the same shaped bytes as RDATA of a type nobody interprets
            static const int types[] = {99, 16, 41, 255, 0x0105};
            RecOpen o = begin_rec(R, r, r.pick(types), rand_ttl(r), r.chance(1, 2));
            slack_bytes(false);
            end_rec(R, o); ++an; ++si.control_unknown_shaped;
        } else if (k < 80) real_a();
        else {
            uint32_t ttl = rand_ttl(r);
            RecOpen o = begin_rec(R, r, 5, ttl, r.chance(1, 2));
            std::string nm = put_valid_name(R, r);
            end_rec(R, o);
            c15ref::RepC c; c.ttl = ttl; c.name = nm; R.ec.push_back(c); ++an;
            if (pending_slack) { ++si.records_after_slack; pending_slack = false; }
        }
    }
    if (pending_slack || r.chance(1, 2)) real_a();     // there is always a real record behind the last slack
    R.n_answers = an;
    set16(R.b, 6, an);
    return R;
}

//! a well-formed reply longer than the client's 4096-byte receive buffer: the question, 0-2 ordinary A records, padding records of
//! unknown type up to a chosen offset next to 4096, then a "boundary" A or CNAME record that straddles / starts at / lies behind
//! offset 4096, then 0-3 more A records and optional padding (total 4097..~9000 bytes). A reader that believes the datagram's
//! real length instead of what its buffer holds walks straight across the end of the buffer.
inline Bytes make_oversized(vh::Rng &r, uint16_t id, const std::string &domain, std::string &layout) {
    Reply R;
    put16(R.b, id); put16(R.b, 0x8180);
    put16(R.b, 1); put16(R.b, 0); put16(R.b, 0); put16(R.b, 0);
    put_name(R, split_domain(domain), nullptr);
    put16(R.b, 1); put16(R.b, 1);
    unsigned an = 0;
    auto a_rec = [&]() { RecOpen o = begin_rec(R, r, 1, rand_ttl(r), true); for (int i = 0; i < 4; ++i) R.b.push_back(uint8_t(1 + r.below(254))); end_rec(R, o); ++an; };
    auto pad_rec = [&](size_t rdlen) {
        static const int types[] = {16, 99, 41, 13, 255};
        RecOpen o = begin_rec(R, r, r.pick(types), rand_ttl(r), true);
        for (size_t i = 0; i < rdlen; ++i) R.b.push_back(r.byte());
        end_rec(R, o); ++an;
    };
    //! pad with records (12 bytes of owner pointer + header each) so that the next record starts exactly at `target`;
    //! needs target - size == 0 or >= 12 on entry
    auto pad_to = [&](size_t target, size_t maxrd) {
        while (R.b.size() < target) {
            size_t rd_exact = target - R.b.size() - 12;
            if (rd_exact <= maxrd) { pad_rec(rd_exact); break; }
            size_t rd = r.below(maxrd + 1);
            if (rd_exact - rd < 12) rd = rd_exact - 12;     // leave room for exactly one empty closing record
            pad_rec(rd);
        }
    };
    unsigned pre = r.below(3);
    for (unsigned i = 0; i < pre; ++i) a_rec();
    unsigned k = r.below(6);
    size_t target;       // start of the boundary record (owner pointer at target, header at +2, RDATA at +12)
    bool cname = false, small = false;
    switch (k) {
        case 0: target = 4096 - 12 - (1 + r.below(3)); layout = "a-rdata-straddles-4096"; break;       // RDATA at 4093..4095
        case 1: target = 4096 - (1 + r.below(11)); layout = "record-header-straddles-4096"; break;
        case 2: target = 4096; layout = "record-starts-at-4096"; break;
        case 3: target = 4097 + r.below(400); layout = "record-behind-4096"; break;
        case 4: target = 4096 - 12 - r.below(6); cname = true; layout = "cname-straddles-4096"; break;
        default: target = 4096 - 12 - (1 + r.below(3)); small = true; layout = "run-of-small-records-then-a-straddling"; break;
    }
    pad_to(target, small ? 120 : 1000);
    if (cname) {
        RecOpen o = begin_rec(R, r, 5, rand_ttl(r), true);
        std::vector<std::string> ls;
        for (int i = 0; i < 3; ++i) ls.push_back(plain_label(r, 3 + r.below(8)));
        put_name(R, ls, nullptr);
        end_rec(R, o); ++an;
    } else a_rec();
    unsigned post = r.below(4);
    for (unsigned i = 0; i < post; ++i) a_rec();
    if (r.chance(1, 2)) { size_t more = r.below(4500); while (more > 1100) { pad_rec(r.below(1000)); more -= 1000; } a_rec(); }
    set16(R.b, 6, an);
    return R.b;
}

//! one malformed variant that cannot drive an unfixed reader into deep recursion (for histories)
inline Bytes safe_malformed(const Reply &base, vh::Rng &r) {
    for (int tries = 0; tries < 8; ++tries) {
        Bytes m = base.b;
        size_t n = m.size();
        switch (r.below(5)) {
            case 0: m.resize(12 + r.below(n - 12)); break;
            case 1: set16(m, 6, (c15ref::rd16(&m[6]) + 1 + r.below(3)) & 0xffff); break;
            case 2: if (n > 13) m[12 + r.below(n - 12)] = r.byte(); break;
            case 3: if (!base.rdlen_offs.empty()) set16(m, base.rdlen_offs[r.below(base.rdlen_offs.size())], r.below(8)); break;
            default: if (!base.label_offs.empty()) m[base.label_offs[r.below(base.label_offs.size())]] = uint8_t(1 + r.below(0xbf)); break;
        }
        m[3] &= 0xf0;
        if (c15ref::chain_depth(m.data(), m.size()) <= 12) return m;
    }
    return Bytes(base.b.begin(), base.b.begin() + 12 + (base.b.size() > 13 ? 1 : 0));
}

}  // namespace c15gen

#endif
