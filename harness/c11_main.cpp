// C11, second harness: the same probe trees driven through the real entry points
//   frontend: tbox::main::Main(argc, argv) with SIGTERM raised as the loop starts
//   backend : tbox::main::Start(argc, argv) followed by tbox::main::Stop()
// Each case runs in a forked child (Main installs signal handlers, terminate handler, threads); the
// probes stream their hook events through a pipe and the parent judges them with c11::Monitor.
#include "common/vh.hpp"
#include "c11_model.hpp"

#include <tbox/base/json.hpp>
#include <tbox/main/main.h>

#include <signal.h>
#include <sys/wait.h>
#include <poll.h>

using tbox::Json;
using tbox::main::Context;
using tbox::main::Module;

namespace {

const c11::Tree *g_tree = nullptr;
int g_fd = -1;
bool g_frontend = false;
bool g_sigterm_sent = false;

void emit(uint8_t tag, uint8_t node, uint8_t ok) {
    uint8_t b[3] = {tag, node, ok};
    ssize_t r = write(g_fd, b, 3);
    (void)r;
}
enum : uint8_t { TAG_DESTROYED = 10, TAG_RESULT = 11, TAG_LOOP_STARTED = 12, TAG_LOOP_EXITED = 13 };

class Probe : public Module {
  public:
    Probe(int id, const std::string &name, Context &ctx) : Module(name, ctx), id_(id) {}
    ~Probe() override { emit(TAG_DESTROYED, (uint8_t)id_, 1); }

  protected:
    static bool planned_failure(uint8_t plan, int k) { return (plan >> (k > 7 ? 7 : k)) & 1; }
    void onFillDefaultConfig(Json &js_this) override { if (g_tree->n[id_].fill_cfg) js_this[vh::fmt("p%d", id_)] = id_; }
    bool onInit(const Json &) override {
        bool ok = !planned_failure(g_tree->n[id_].init_plan, n_init_++);
        emit(c11::K_INIT, (uint8_t)id_, ok);
        return ok;
    }
    bool onStart() override {
        bool ok = !planned_failure(g_tree->n[id_].start_plan, n_start_++);
        emit(c11::K_START, (uint8_t)id_, ok);
        return ok;
    }
    void onStop() override { emit(c11::K_STOP, (uint8_t)id_, 1); }
    void onCleanup() override { emit(c11::K_CLEANUP, (uint8_t)id_, 1); }

  private:
    int id_;
    int n_init_ = 0, n_start_ = 0;
};

}  // namespace

//! called by the library at the entry of runLoop(): the stop signal handler of RunInFrontend is
//! installed by then, so the signal is delivered through the loop like a real `kill -TERM`
extern "C" void tbox_verif_point(const char *name) {
    if (g_tree != nullptr && strcmp(name, "CommonLoop.before_loop") == 0) {
        emit(TAG_LOOP_STARTED, 0, 1);
        if (g_frontend && !g_sigterm_sent) { g_sigterm_sent = true; kill(getpid(), SIGTERM); }
    } else if (g_tree != nullptr && strcmp(name, "CommonLoop.after_loop") == 0) {
        emit(TAG_LOOP_EXITED, 0, 1);
    }
}

namespace tbox {
namespace main {
void RegisterApps(Module &apps, Context &ctx) {
    const c11::Tree &t = *g_tree;
    std::vector<Module *> m(t.n.size(), nullptr);
    m[0] = &apps;
    for (size_t i = 1; i < t.n.size(); ++i) {
        m[i] = new Probe((int)i, t.n[i].name, ctx);
        if (!m[t.n[i].parent]->add(m[i], t.n[i].required)) { fprintf(stderr, "c11_main: add refused\n"); abort(); }
    }
}
std::string GetAppDescribe() { return "C11 probe"; }
std::string GetAppBuildTime() { return "n/a"; }
}
}

namespace {

c11::Tree gen_tree(vh::Rng &r) {
    c11::Tree t;
    t.virtual_root = true;
    int want = 2 + (int)r.below(9);   // apps + 1..9 probes
    std::vector<int> par(1, -1), dep(1, 0);
    std::vector<std::vector<int>> kids(1);
    for (int i = 1; i < want; ++i) {
        std::vector<int> cand;
        for (size_t p = 0; p < par.size(); ++p) if (dep[p] < 3 && kids[p].size() < 3) cand.push_back((int)p);
        int p = cand[r.below(cand.size())];
        par.push_back(p); dep.push_back(dep[p] + 1); kids.emplace_back(); kids[p].push_back(i);
    }
    std::function<void(int, int)> dfs = [&](int old, int np) {
        int id = (int)t.n.size();
        t.n.emplace_back();
        t.n[id].parent = np; t.n[id].depth = dep[old];
        if (np >= 0) t.n[np].kids.push_back(id);
        for (int k : kids[old]) dfs(k, id);
    };
    dfs(0, -1);
    const size_t N = t.n.size();
    const int req_pct = (int)r.pick(std::vector<int>{40, 70, 100});
    for (size_t i = 1; i < N; ++i) {
        t.n[i].name = vh::fmt("m%zu", i);
        t.n[i].required = (int)r.below(100) < req_pct;
        t.n[i].fill_cfg = r.chance(1, 2);
    }
    for (size_t i = 0; i < N; ++i)
        if (!t.n[i].kids.empty() && r.chance(1, 3)) t.n[r.pick(t.n[i].kids)].name.clear();
    if (!r.chance(1, 5)) {
        const unsigned k = 1 + (unsigned)r.below(2), den = (unsigned)(2 * N);
        for (size_t i = 1; i < N; ++i) {
            if (r.below(den) < k) t.n[i].init_plan = 0xff;
            if (r.below(den) < k) t.n[i].start_plan = 0xff;
        }
    }
    return t;
}

//! bounded-progress confirmation of a hang: every thread of the child asleep and no CPU time consumed
//! across three samples. Returns a description, empty if the child is still making progress.
std::string confirm_deadlock(pid_t pid) {
    auto snapshot = [&](std::string &txt, unsigned long long &cpu, bool &all_asleep) {
        txt.clear(); cpu = 0; all_asleep = true;
        std::string dir = vh::fmt("/proc/%d/task", (int)pid);
        std::vector<std::string> tids;
        if (FILE *p = popen(("ls " + dir + " 2>/dev/null").c_str(), "r")) {
            char b[64];
            while (fgets(b, sizeof b, p)) { std::string t = b; while (!t.empty() && (t.back() == '\n' || t.back() == ' ')) t.pop_back(); if (!t.empty()) tids.push_back(t); }
            pclose(p);
        }
        if (tids.empty()) { all_asleep = false; return; }
        for (auto &tid : tids) {
            char line[1024] = {0};
            if (FILE *f = fopen((dir + "/" + tid + "/stat").c_str(), "r")) { if (!fgets(line, sizeof line, f)) line[0] = 0; fclose(f); }
            const char *rp = strrchr(line, ')');
            char state = '?'; unsigned long long ut = 0, stt = 0;
            if (rp) sscanf(rp + 2, "%c %*d %*d %*d %*d %*d %*u %*u %*u %*u %*u %llu %llu", &state, &ut, &stt);
            char sc[256] = {0};
            if (FILE *f = fopen((dir + "/" + tid + "/syscall").c_str(), "r")) { if (!fgets(sc, sizeof sc, f)) sc[0] = 0; fclose(f); }
            long nr = atol(sc);
            cpu += ut + stt;
            if (state != 'S') all_asleep = false;
            txt += vh::fmt(" thread %s: state %c in syscall %ld%s;", tid.c_str(), state, nr, nr == 202 ? " (futex)" : "");
        }
    };
    std::string t0, t; unsigned long long c0 = 0, c = 0; bool a0 = false, a = false;
    snapshot(t0, c0, a0);
    if (!a0) return "";
    for (int i = 0; i < 2; ++i) {
        usleep(400000);
        snapshot(t, c, a);
        if (!a || c != c0) return "";
    }
    return t0;
}

void child_main(const c11::Tree &t, bool frontend, int wfd) {
    g_tree = &t; g_fd = wfd; g_frontend = frontend;
    int nul = open("/dev/null", O_WRONLY);
    if (nul >= 0) dup2(nul, 1);   // the log's stdout sink must not end up in the harness's JSON stream
    const char *argv[] = {"c11_main", "-s", "exit_wait_sec=0", "-s", "log.stdout.enable=false", nullptr};
    int argc = 5;
    if (frontend) {
        int rc = tbox::main::Main(argc, const_cast<char **>(argv));
        emit(TAG_RESULT, 0, (uint8_t)rc);
    } else {
        bool ok = tbox::main::Start(argc, const_cast<char **>(argv));
        emit(TAG_RESULT, 1, ok);
        if (ok) tbox::main::Stop();
        emit(TAG_RESULT, 2, 1);
    }
    _exit(0);
}

void one_case(uint64_t, vh::Rng &r) {
    c11::Tree t = gen_tree(r);
    const bool frontend = vh::st().args.mode == "frontend" ? true : vh::st().args.mode == "backend" ? false : r.chance(1, 2);
    std::string script = std::string(frontend ? "Main " : "Start+Stop ") + t.describe();
    vh::st().case_desc = script;

    int pfd[2];
    if (pipe(pfd) != 0) { perror("pipe"); abort(); }
    fflush(stdout);
    pid_t pid = fork();
    if (pid < 0) { perror("fork"); abort(); }
    if (pid == 0) { close(pfd[0]); child_main(t, frontend, pfd[1]); }
    close(pfd[1]);

    std::vector<uint8_t> raw;
    uint8_t buf[4096];
    bool timed_out = false;
    std::string deadlock;
    const int quiet_ms = (int)vh::st().args.num("child-timeout-ms", 15000);
    for (int quiet_rounds = 0;;) {
        struct pollfd p = {pfd[0], POLLIN, 0};
        int pr = poll(&p, 1, quiet_ms);
        if (pr == 0) {
            // no hook event for a long time: a verdict only if the child is provably not progressing
            deadlock = confirm_deadlock(pid);
            if (!deadlock.empty() || ++quiet_rounds >= 8) { timed_out = true; kill(pid, SIGKILL); break; }
            continue;
        }
        ssize_t n = read(pfd[0], buf, sizeof buf);
        if (n <= 0) break;
        raw.insert(raw.end(), buf, buf + n);
    }
    close(pfd[0]);
    int status = 0;
    waitpid(pid, &status, 0);

    std::vector<c11::Ev> evs;
    std::vector<int> destroyed(t.n.size(), 0);
    int start_result = -1, main_rc = -1;
    bool finished = false, loop_started = false, loop_exited = false;
    for (size_t i = 0; i + 3 <= raw.size(); i += 3) {
        uint8_t tag = raw[i], node = raw[i + 1], ok = raw[i + 2];
        if (tag <= c11::K_CLEANUP) evs.push_back(c11::Ev{(c11::Kind)tag, node, ok != 0});
        else if (tag == TAG_DESTROYED) ++destroyed[node];
        else if (tag == TAG_LOOP_STARTED) loop_started = true;
        else if (tag == TAG_LOOP_EXITED) loop_exited = true;
        else if (tag == TAG_RESULT) {
            if (node == 0) { main_rc = ok; finished = true; }
            else if (node == 1) start_result = ok;
            else finished = true;
        }
    }
    script += " => " + c11::ev_str(evs, 80);
    vh::st().case_desc = script;

    c11::Monitor mon(t);
    if (timed_out) {
        const bool stopped = !evs.empty() && evs.back().k == c11::K_STOP;
        const char *where = !loop_started ? "before the loop ran" : !loop_exited ? "while the loop was running" :
                            stopped ? "after the loop exited, before the apps were cleaned up" : "after the loop exited";
        if (!deadlock.empty())
            vh::viol(std::string("main/deadlock/") + (!loop_started ? "before-loop" : !loop_exited ? "in-loop" : stopped ? "between-loop-exit-and-cleanup" : "after-loop-exit"),
                     vh::fmt("%s never returned: it stopped making progress %s; all threads asleep with no CPU time across three samples:%s",
                             frontend ? "Main()" : "Start()/Stop()", where, deadlock.c_str()));
        else
            vh::viol("main/no-progress-unconfirmed", vh::fmt("no hook event from the child running %s for %d x %d ms (%s) but its threads were not all asleep",
                                                             frontend ? "Main()" : "Start()/Stop()", 8, quiet_ms, where));
        vh::counter("main_child_hangs");
        return;
    }
    if (!WIFEXITED(status) || WEXITSTATUS(status) != 0 || !finished) {
        vh::viol("main/child-died", vh::fmt("child running %s ended with wait status 0x%x (finished=%d)", frontend ? "Main()" : "Start()/Stop()", status, finished));
        return;
    }
    int outcome = mon.on_run(evs);
    if (!mon.dead) {
        if (frontend && main_rc != 0) mon.fail("main/return-code", vh::fmt("Main() returned %d", main_rc));
        if (!frontend && start_result != (outcome == 2 ? 1 : 0))
            mon.fail("main/start-return", vh::fmt("Start() returned %d but initialize/start of the apps %s", start_result, outcome == 2 ? "succeeded" : "failed"));
        if (loop_started != (outcome == 2))
            mon.fail("main/loop-run-mismatch", vh::fmt("the loop %s although initialize/start of the apps %s", loop_started ? "ran" : "did not run", outcome == 2 ? "succeeded" : "failed"));
        for (size_t i = 1; i < t.n.size(); ++i)
            if (destroyed[i] != 1) mon.fail("destroy/probe-not-destroyed-exactly-once", vh::fmt("module %zu destroyed %d times by the end of the run", i, destroyed[i]));
        mon.on_end();
    }

    vh::counter(frontend ? "runs_frontend_main" : "runs_backend_start_stop");
    vh::counter(outcome == 2 ? "main_outcome_ran_and_stopped" : outcome == 1 ? "main_outcome_start_failed" : outcome == 0 ? "main_outcome_initialize_failed" : "main_outcome_unjudged");
    if (frontend && outcome == 2) vh::counter("main_sigterm_stop_path");
    if (mon.saw_opt_continue[0] || mon.saw_opt_continue[1]) vh::counter("main_optional_failure_tolerated");
    vh::counter("hook_events", evs.size());
    vh::Sig sig; sig.add(script);
    vh::note_case(sig.h, mon.saw_hook_failure && t.n.size() >= 3);
    if (mon.saw_hook_failure && vh::want_sample(2)) vh::sample("{\"run\":" + vh::jstr(script) + "}", 2);
}

}  // namespace

int main(int argc, char **argv) {
    return vh::run(argc, argv, one_case);
}
