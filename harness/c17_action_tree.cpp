// C17 — action trees finish once with the documented result; nothing left running.
//
// One case = one generated action tree (depth <= 4) over the real composites (Sequence, Parallel, IfElse, IfThen, Switch,
// Loop, LoopIf, Repeat, Wrapper, Composite) and leaves (scripted probe leaf built on DummyAction, Function, Succ, Fail,
// Sleep), optional timeouts on nodes, run on a real event::Loop under the virtual monotonic clock. The harness lives inside
// the loop as a "tick" task that re-posts itself once per loop pass; in every tick it completes/blocks due probe leaves,
// applies the scripted control calls (start / pause / resume / stop / reset, several per tick allowed) and checks the
// monitors. Three runs per case:
//   A   tree T1 under an arbitrary control script S1;
//   B   the same T1 after stop()/reset() (in the same tick or spread over ticks), under a pause/resume-only script S2;
//   B'  a freshly built tree T2 under S2.  The normalised traces of B and B' must be identical (reset == fresh).
// Modes: --mode random (seeded trees and scripts), --mode exhaustive --alpha N (every single composite x N leaf behaviours per
// leaf slot x 25 control placements x 2 tick orders; --mode xcount prints the size of that space).
//
// Observation: every node is a thin subclass (Mon<T>) of the real class that logs the protected lifecycle hooks
// (onStart/onFinished/onStop/onPause/onResume/onBlock/onReset/onFinal/onTimeout) and then calls the real one; the root's
// finish/block/final callbacks; state()/result() of every node in every tick.
//
// Oracles (all independent of the implementation's bookkeeping):
//   * per-composite reference automaton written from the pseudo-code in actions/*.h: which child must be started next,
//     or with which result the composite must finish, given the results its children have delivered so far;
//   * a big-step evaluator of the same pseudo-code that predicts the root result and the leaf start order of a whole run;
//   * lifecycle: exactly one of finish/stop per run, final hook once per run, no start/reset of a node whose run is under way,
//     actual state()/result() equal to the state derived from the logged hooks;
//   * cleanup: a node that is idle, finished or stopped has no running or paused descendant;
//   * notifications of the root: one finish callback per finished run with the right result, none after reset, no block
//     callback after stop or reset;
//   * bounded progress: a running composite acts on a delivered child result within 4 ticks; a running root with no running
//     leaf and nothing scheduled finishes within depth*4+10 ticks; an elapsed timeout fires at the next pass, never early.
#include "common/vh.hpp"

#include <tbox/event/loop.h>
#include <tbox/event/verif_hooks.h>
#include <tbox/flow/action.h>
#include <tbox/flow/action_reason.h>
#include <tbox/flow/actions/sequence_action.h>
#include <tbox/flow/actions/parallel_action.h>
#include <tbox/flow/actions/if_else_action.h>
#include <tbox/flow/actions/if_then_action.h>
#include <tbox/flow/actions/switch_action.h>
#include <tbox/flow/actions/loop_action.h>
#include <tbox/flow/actions/loop_if_action.h>
#include <tbox/flow/actions/repeat_action.h>
#include <tbox/flow/actions/wrapper_action.h>
#include <tbox/flow/actions/composite_action.h>
#include <tbox/flow/actions/function_action.h>
#include <tbox/flow/actions/sleep_action.h>
#include <tbox/flow/actions/succ_fail_action.h>
#include <tbox/flow/actions/dummy_action.h>

#include <algorithm>
#include <memory>
#include <string>
#include <vector>

using namespace tbox;
using namespace tbox::flow;

namespace {

//////////////////////////////////////////////////////////////////////////////////////////////////////////////////////
// case description (pure data)
//////////////////////////////////////////////////////////////////////////////////////////////////////////////////////

enum Kind { K_SEQ, K_PAR, K_IFELSE, K_IFTHEN, K_SWITCH, K_LOOP, K_LOOPIF, K_REPEAT, K_WRAPPER, K_COMPOSITE,
            L_PROBE, L_FUNC, L_SUCC, L_FAIL, L_SLEEP, K_N };
const char *kKindName[] = {"Sequence", "Parallel", "IfElse", "IfThen", "Switch", "Loop", "LoopIf", "Repeat", "Wrapper",
                           "Composite", "Probe", "Function", "Succ", "Fail", "Sleep"};
inline bool is_leaf(int k) { return k >= L_PROBE; }

const char *kMsgs[] = {"case:a", "case:b", "case:c", "case:zz", ""};
const int kNMsgs = 5;

enum { O_SUCC = 0, O_FAIL = 1, O_NEVER = 2 };

struct LeafStep {
    int outcome = O_SUCC;   //!< succeed / fail / never
    int delay = 0;          //!< ticks (while running) before the leaf acts; 0 = inside onStart
    int block = 0;          //!< 1: the leaf first blocks (after `delay`), and continues after it was resumed
    int delay2 = 0;         //!< ticks (while running) after the resume before it finishes; 0 = inside onResume
    int msg = 4;            //!< reason message of the finish (selects the case under a Switch)
};

struct Spec {
    int kind = L_SUCC;
    int mode = 0;               //!< composite mode
    int times = 0;              //!< Repeat (0 = forever)
    int parent = -1, role = 0, depth = 0;
    std::vector<int> kids;      //!< Seq/Par: children; IfElse: [if, then|-1, else|-1]; IfThen: [if0, then0, if1, then1 ...];
                                //!< Switch: [switch, case..., (default)]; LoopIf: [if, exec]; others: [child]
    std::vector<int> case_msg;  //!< Switch: message index of kids[1 + i]
    bool has_default = false;   //!< Switch: kids.back() is the default branch
    bool lif_result = true;     //!< LoopIf::setFinishResult
    int timeout = 0;            //!< ms, 0 = none
    std::vector<LeafStep> script;   //!< Probe / Function: per invocation (cyclic)
    bool func_reason = false;   //!< Function leaf built with the Reason& signature
    int sleep_ms = 0;
};

enum { OP_START, OP_PAUSE, OP_RESUME, OP_STOP, OP_RESET, OP_N };
const char *kOpName[] = {"start", "pause", "resume", "stop", "reset"};

struct Op { int tick; int op; };

struct Script {
    std::vector<Op> ops;        //!< sorted by tick (stable)
    int dt[64];                 //!< virtual ms added at the end of tick t (index t % 64)
    unsigned char post_first[64];   //!< tick re-posts itself before (1) or after (0) doing its work
    int len = 0;                //!< phase A: number of ticks; phase B: cut-off tick (-1 = run to the end)
    int resume_delay = 0;       //!< ticks between the root's block callback and the harness's resume (0 = inside the callback)
    bool final_resume = false;  //!< phase B end: resume() right before stop()+delete when the root is paused
    int on_block = 0;           //!< phase A: what the root's block callback does: 0 resume (after resume_delay), 1 stop(), 2 nothing
    int restarts = 0;           //!< phase A: the root's finish callback does reset()+start() this many times
};

struct CaseSpec {
    std::vector<Spec> sp;       //!< node 0 is the root
    Script s1, s2;
    int transition = 0;         //!< 0: stop,reset,start in one tick; 1: reset,start (no stop); 2: stop / reset / start in three ticks
    bool has_timeout = false, has_parallel = false;
    int depth = 0;
    int cap_b = 160;            //!< tick cap of the runs B and B'
};

std::string describe(const std::vector<Spec> &sp, int n) {
    const Spec &s = sp[n];
    std::string o;
    char b[64];
    switch (s.kind) {
        case K_SEQ: case K_PAR: { static const char *m[] = {"All", "AnyFail", "AnySucc"}; o = std::string(s.kind == K_SEQ ? "Seq." : "Par.") + m[s.mode]; break; }
        case K_IFELSE: o = "IfElse"; break;
        case K_IFTHEN: o = "IfThen"; break;
        case K_SWITCH: o = "Switch"; break;
        case K_LOOP: { static const char *m[] = {"Forever", "UntilFail", "UntilSucc"}; o = std::string("Loop.") + m[s.mode]; break; }
        case K_LOOPIF: o = s.lif_result ? "LoopIf" : "LoopIf.f"; break;
        case K_REPEAT: { static const char *m[] = {"NoBreak", "BreakFail", "BreakSucc"}; snprintf(b, sizeof b, "Repeat%d.%s", s.times, m[s.mode]); o = b; break; }
        case K_WRAPPER: { static const char *m[] = {"Normal", "Invert", "AlwaySucc", "AlwayFail"}; o = std::string("Wrap.") + m[s.mode]; break; }
        case K_COMPOSITE: o = "Composite"; break;
        case L_SUCC: o = "Succ"; break;
        case L_FAIL: o = "Fail"; break;
        case L_SLEEP: snprintf(b, sizeof b, "Sleep%d", s.sleep_ms); o = b; break;
        case L_PROBE: case L_FUNC: {
            o = s.kind == L_PROBE ? "P<" : (s.func_reason ? "Fr<" : "F<");
            for (size_t i = 0; i < s.script.size(); ++i) {
                const LeafStep &st = s.script[i];
                if (i) o += ' ';
                if (st.block) { snprintf(b, sizeof b, "%db", st.delay); o += b; }
                o += st.outcome == O_SUCC ? 's' : st.outcome == O_FAIL ? 'f' : 'n';
                if (st.outcome != O_NEVER) { snprintf(b, sizeof b, "%d", st.block ? st.delay2 : st.delay); o += b; }
                if (st.msg != 4) { o += ':'; o += kMsgs[st.msg] + 5; }
            }
            o += '>';
            break;
        }
    }
    snprintf(b, sizeof b, "#%d", n); o += b;
    if (s.timeout) { snprintf(b, sizeof b, "@%dms", s.timeout); o += b; }
    if (!is_leaf(s.kind)) {
        o += '(';
        for (size_t i = 0; i < s.kids.size(); ++i) {
            if (i) o += ", ";
            if (s.kind == K_SWITCH && i >= 1) {
                if (s.has_default && i + 1 == s.kids.size()) o += "default=";
                else { o += kMsgs[s.case_msg[i - 1]]; o += '='; }
            }
            if (s.kids[i] < 0) o += "-"; else o += describe(sp, s.kids[i]);
        }
        o += ')';
    }
    return o;
}

std::string describe(const Script &s, bool phase_a) {
    std::string o;
    char b[64];
    for (const Op &op : s.ops) { snprintf(b, sizeof b, "%s@%d ", kOpName[op.op], op.tick); o += b; }
    if (phase_a) snprintf(b, sizeof b, "len=%d rd=%d on_block=%d restarts_in_finish_cb=%d", s.len, s.resume_delay, s.on_block, s.restarts);
    else snprintf(b, sizeof b, "cut=%d rd=%d fr=%d", s.len, s.resume_delay, (int)s.final_resume);
    o += b;
    o += " dt=";
    for (int i = 0; i < 8; ++i) { snprintf(b, sizeof b, "%d,", s.dt[i]); o += b; }
    o += ".. pf=";
    for (int i = 0; i < 8; ++i) o += s.post_first[i] ? '1' : '0';
    return o;
}

//////////////////////////////////////////////////////////////////////////////////////////////////////////////////////
// big-step evaluator of the documented pseudo-code (independent of the implementation)
//////////////////////////////////////////////////////////////////////////////////////////////////////////////////////

enum { R_FALSE = 0, R_TRUE = 1, R_DIV = 2 };

struct BigStep {
    const std::vector<Spec> *sp = nullptr;
    std::vector<int> inv;                       //!< invocation counter per leaf
    std::vector<std::pair<int, int>> order;     //!< (leaf, invocation)
    std::vector<int> count;                     //!< starts per leaf
    int fuel = 600;
    bool cut = false;           //!< fuel ran out: only a prefix is predicted
    bool fuzzy = false;         //!< a racing Parallel / a timeout / an unknown switch message: nothing is predicted
    int result = R_DIV;

    int leaf(int n, std::string *msg) {
        const Spec &s = (*sp)[n];
        if (fuel <= 0) { cut = true; return R_DIV; }
        --fuel;
        int iv = inv[n]++;
        order.push_back(std::make_pair(n, iv));
        ++count[n];
        switch (s.kind) {
            case L_SUCC: if (msg) *msg = "SuccAction"; return R_TRUE;
            case L_FAIL: if (msg) *msg = "FailAction"; return R_FALSE;
            case L_SLEEP: if (msg) *msg = "SleepAction"; return R_TRUE;
            default: {
                const LeafStep &st = s.script[iv % s.script.size()];
                if (msg) *msg = (s.kind == L_FUNC && !s.func_reason) ? "FunctionAction" : kMsgs[st.msg];
                if (st.outcome == O_NEVER) return R_DIV;
                return st.outcome == O_SUCC ? R_TRUE : R_FALSE;
            }
        }
    }

    int eval(int n, std::string *msg = nullptr) {
        const Spec &s = (*sp)[n];
        if (cut) return R_DIV;
        if (is_leaf(s.kind)) return leaf(n, msg);
        switch (s.kind) {
            case K_SEQ: {
                int last = R_TRUE;      //! falling off the end returns the last child's result (pinned by the baseline tests)
                for (int k : s.kids) {
                    int r = eval(k);
                    if (r == R_DIV) return R_DIV;
                    if ((s.mode == 2 && r == R_TRUE) || (s.mode == 1 && r == R_FALSE)) return r;
                    last = r;
                }
                return last;
            }
            case K_PAR: {
                bool div = false, trig = false;
                for (int k : s.kids) {
                    int r = eval(k);
                    if (r == R_DIV) div = true;
                    else if ((s.mode == 2 && r == R_TRUE) || (s.mode == 1 && r == R_FALSE)) trig = true;
                }
                if (trig && s.kids.size() >= 2) fuzzy = true;   //! the siblings are cut off at a timing-dependent point
                if (trig) return R_TRUE;
                return div ? R_DIV : R_TRUE;
            }
            case K_IFELSE: {
                int c = eval(s.kids[0]);
                if (c == R_DIV) return R_DIV;
                int br = s.kids[c == R_TRUE ? 1 : 2];
                if (br < 0) return R_TRUE;
                return eval(br);
            }
            case K_IFTHEN: {
                for (size_t i = 0; i + 1 < s.kids.size(); i += 2) {
                    int c = eval(s.kids[i]);
                    if (c == R_DIV) return R_DIV;
                    if (c == R_TRUE) return eval(s.kids[i + 1]);
                }
                return R_FALSE;
            }
            case K_SWITCH: {
                std::string m;
                if (!is_leaf((*sp)[s.kids[0]].kind)) { fuzzy = true; return R_DIV; }
                int c = eval(s.kids[0], &m);
                if (c == R_DIV) return R_DIV;
                if (c == R_FALSE) return R_FALSE;
                int br = -1;
                for (size_t i = 0; i < s.case_msg.size(); ++i) if (m == kMsgs[s.case_msg[i]]) br = s.kids[1 + i];
                if (br < 0 && s.has_default) br = s.kids.back();
                if (br < 0) return R_FALSE;
                return eval(br);
            }
            case K_LOOP:
                for (;;) {
                    if (--fuel <= 0) { cut = true; return R_DIV; }
                    int r = eval(s.kids[0]);
                    if (r == R_DIV) return R_DIV;
                    if ((s.mode == 2 && r == R_TRUE) || (s.mode == 1 && r == R_FALSE)) return r;
                }
            case K_LOOPIF:
                for (;;) {
                    if (--fuel <= 0) { cut = true; return R_DIV; }
                    int c = eval(s.kids[0]);
                    if (c == R_DIV) return R_DIV;
                    if (c == R_FALSE) return s.lif_result ? R_TRUE : R_FALSE;
                    if (eval(s.kids[1]) == R_DIV) return R_DIV;
                }
            case K_REPEAT: {
                //! times == 0 means "forever" (pinned by the baseline test RepeatAction.FunctionActionForeverNoBreak)
                for (int i = 0; s.times == 0 || i < s.times; ++i) {
                    if (--fuel <= 0) { cut = true; return R_DIV; }
                    int r = eval(s.kids[0]);
                    if (r == R_DIV) return R_DIV;
                    if ((s.mode == 2 && r == R_TRUE) || (s.mode == 1 && r == R_FALSE)) return r;
                }
                return R_TRUE;
            }
            case K_WRAPPER: {
                int r = eval(s.kids[0]);
                if (r == R_DIV) return R_DIV;
                if (s.mode == 0) return r;
                if (s.mode == 1) return r == R_TRUE ? R_FALSE : R_TRUE;
                return s.mode == 2 ? R_TRUE : R_FALSE;
            }
            case K_COMPOSITE: return eval(s.kids[0]);
        }
        return R_DIV;
    }

    void run(const CaseSpec &cs) {
        sp = &cs.sp;
        inv.assign(cs.sp.size(), 0);
        count.assign(cs.sp.size(), 0);
        if (cs.has_timeout) { fuzzy = true; return; }
        result = eval(0);
    }
};

//////////////////////////////////////////////////////////////////////////////////////////////////////////////////////
// monitored tree
//////////////////////////////////////////////////////////////////////////////////////////////////////////////////////

uint64_t g_now_ms = 1000000;
bool g_case_violated = false;

//! counters by literal name (cached pointer into vh's map: no string building on the hot path)
inline void cnt(const char *name, uint64_t inc = 1) {
    static std::map<const void *, uint64_t *> cache;
    uint64_t *&p = cache[name];
    if (!p) p = &vh::st().counters[name];
    *p += inc;
}
const char *kRunCounter[] = {"run_Sequence", "run_Parallel", "run_IfElse", "run_IfThen", "run_Switch", "run_Loop", "run_LoopIf",
                             "run_Repeat", "run_Wrapper", "run_Composite", "run_Probe", "run_Function", "run_Succ", "run_Fail", "run_Sleep"};
uint64_t clock_fn() { return g_now_ms; }

enum { E_START, E_FIN, E_STOP, E_PAUSE, E_RESUME, E_BLOCK, E_RESET, E_FINAL, E_TMO, E_TMO_END,
       E_ROOT_FIN_CB, E_ROOT_BLOCK_CB, E_ROOT_FINAL_CB, E_OP, E_STATE };
const char *kEvName[] = {"START", "FIN", "STOP", "PAUSE", "RESUME", "BLOCK", "RESET", "FINAL", "TIMEOUT", "timeout-end",
                         "root-finish-cb", "root-block-cb", "root-final-cb", "op", "state"};

enum { M_IDLE, M_RUN, M_PAUSE, M_FIN, M_STOP };
const char *kMsName[] = {"idle", "running", "pause", "finished", "stoped"};

enum { X_NONE, X_START, X_WAIT, X_FINISH };

struct Ev {
    int tick, node, kind, a, b;
    uint64_t h;
    bool operator==(const Ev &o) const { return tick == o.tick && node == o.node && kind == o.kind && a == o.a && b == o.b && h == o.h; }
};

struct Tree;
struct Hook { Tree *t; int idx; };
void tree_event(const Hook &h, int kind, bool succ = false, int code = 0, const std::string &msg = std::string());

template <class B>
class Mon : public B {
  public:
    template <class... A>
    explicit Mon(const Hook &hk, A &&...a) : B(std::forward<A>(a)...), h_(hk) {}

  protected:
    virtual void onStart() override { tree_event(h_, E_START); B::onStart(); }
    virtual void onPause() override { tree_event(h_, E_PAUSE); B::onPause(); }
    virtual void onResume() override { tree_event(h_, E_RESUME); B::onResume(); }
    virtual void onStop() override { tree_event(h_, E_STOP); B::onStop(); }
    virtual void onReset() override { tree_event(h_, E_RESET); B::onReset(); }
    virtual void onBlock(const Action::Reason &why, const Action::Trace &trace) override {
        tree_event(h_, E_BLOCK, false, why.code, why.message);
        B::onBlock(why, trace);
    }
    virtual void onFinished(bool is_succ, const Action::Reason &why, const Action::Trace &trace) override {
        tree_event(h_, E_FIN, is_succ, why.code, why.message);
        B::onFinished(is_succ, why, trace);
    }
    virtual void onFinal() override { tree_event(h_, E_FINAL); B::onFinal(); }
    virtual void onTimeout() override { tree_event(h_, E_TMO); B::onTimeout(); tree_event(h_, E_TMO_END); }

  private:
    Hook h_;
};

struct Node {
    Action *act = nullptr;
    DummyAction *dummy = nullptr;
    // lifecycle derived from the logged hooks
    int ms = M_IDLE;
    bool paused_by_pause = false;   //!< the current pause began with onPause() (timer disabled), not with block()
    bool result = false;
    int finals = 0;                 //!< final hooks in the current run
    bool final_reported = false;
    bool ended_by_timeout = false;
    bool in_timeout = false;
    int stopped_by_running_parent = 0;
    // reference automaton of a composite
    int expect = X_NONE, expect_k = 0;
    bool expect_res = false;
    int pc = 0, idx = 0, iter = 0, sel = -1;
    bool last = true, res = false;
    int oblig_ticks = 0;
    bool oblig_reported = false;
    bool paused_between = false;    //!< paused/blocked between a child's result and acting on it
    std::vector<int> ch_fin;        //!< Parallel: -1 not finished, 0 fail, 1 succ
    int started = 0;
    int last_child_fin_tick = -100;
    bool replay_in_flight = false;  //!< resumed with a child result still to be acted on (the implementation re-posts it)
    bool stale_run = false;         //!< the current run began while such a stale result could still arrive
    int stale_until = -1;           //!< stopped / reset with such a re-posted result in flight: it must not arrive any more
    // timeouts / sleep
    int64_t active_ms = 0;
    int64_t t_arm = 0;              //!< virtual time of the last START / RESUME
    bool cont_running = false;      //!< running without interruption since t_arm
    // leaves
    int inv = 0, cur_inv = 0;
    LeafStep cur;
    bool blocked = false;
    int pend = 0, pend_left = 0;    //!< 1 = finish, 2 = block
};


struct Tree {
    const CaseSpec &cs;
    const std::vector<Spec> &sp;
    event::Loop &loop;
    std::vector<Node> nd;
    Action *root = nullptr;
    bool alive = false;
    const char *phase = "A";
    const BigStep *bs = nullptr;

    int tick = 0;                   //!< phase-relative tick
    bool record = false;
    std::vector<Ev> trace;
    int events_this_tick = 0;
    int idle_ticks = 0;
    bool in_user_reset = false, in_user_stop = false, in_user_start = false;
    bool blocks_seen = false;
    bool stale_near_b = false;      //!< phase B began while a re-posted child result of the previous run could still arrive
    int root_done_ticks = -1;       //!< ticks since the root finished / was stopped (-1: not)

    // root notifications
    bool fin_pending = false, fin_result = false;
    int fin_tick = 0;
    int fin_lost_by = 0;            //!< 1: pending finish callback withdrawn by reset
    int blk_expected = 0, blk_optional = 0, blk_forbid_stop = 0, blk_forbid_reset = 0;   //!< block callbacks of the root in flight
    int block_tick = 0;
    int user_finals = 0, root_final_events = 0;
    int resume_at = -1;             //!< tick of the harness's scheduled resume after a block notification
    int resume_delay = 0;
    int on_block = 0, restarts_left = 0;

    // big-step bookkeeping (one epoch = one run of the root)
    std::vector<std::pair<int, int>> leaf_order;
    std::vector<int> leaf_count;
    bool epoch_open = false, epoch_clean = false;

    // per-case statistics for the non-triviality rule
    int effective_ops = 0;
    bool saw_held_back = false;

    Tree(const CaseSpec &c, event::Loop &l) : cs(c), sp(c.sp), loop(l), nd(c.sp.size()), leaf_count(c.sp.size(), 0) {}

    std::string nname(int n) const { return vh::fmt("%s#%d", kKindName[sp[n].kind], n); }
    std::string where() const { return vh::fmt("[phase %s tick %d now=%llu]", phase, tick, (unsigned long long)g_now_ms); }
    //! only the first violation of a case is reported: what follows is usually its consequence
    void viol(const std::string &key, const std::string &detail) {
        ++violations;
        if (g_case_violated) return;
        g_case_violated = true;
        size_t lb = key.find(" [");
        if (lb == std::string::npos) vh::viol(key, where() + " " + detail + "\n" + tail());
        else vh::viol(key.substr(0, lb), where() + " " + detail + "\n(symptom class " + key.substr(lb + 1) + "; reported under this key because the composite was stopped or "
                      "reset while a held-back child result was being re-posted by resume(), and the run that shows the symptom began right after)\n" + tail());
    }
    int violations = 0;
    //! a composite that acts on a child result re-posted before it was stopped or reset: one key for all its symptoms
    std::string ckey(int n, const std::string &key) const {
        if (!(tick <= nd[n].stale_until || nd[n].stale_run)) return key;
        return "notify/stale-child-result-replayed-after-stop-or-reset [" + key + "]";
    }

    std::string tail(size_t maxn = 40) const {
        std::string o = "last events:";
        size_t from = log.size() > maxn ? log.size() - maxn : 0;
        for (size_t i = from; i < log.size(); ++i) o += "\n  " + log[i];
        return o;
    }
    std::vector<std::string> log;   //!< readable event log of the whole life of the tree (bounded)
    void logf(const std::string &s) { if (log.size() < 4000) log.push_back(vh::fmt("%s%d: ", phase, tick) + s); }

    //////////////////////////////////////////////////////////////////////////////////////////////////////////////
    // building
    //////////////////////////////////////////////////////////////////////////////////////////////////////////////

    Action *build(int n) {
        const Spec &s = sp[n];
        Hook h = {this, n};
        Action *act = nullptr;
        bool ok = true;
        switch (s.kind) {
            case K_SEQ: {
                auto *a = new Mon<SequenceAction>(h, loop, (SequenceAction::Mode)s.mode);
                act = a;
                for (int k : s.kids) ok = (a->addChild(build(k)) >= 0) && ok;
                break;
            }
            case K_PAR: {
                auto *a = new Mon<ParallelAction>(h, loop, (ParallelAction::Mode)s.mode);
                act = a;
                for (int k : s.kids) ok = (a->addChild(build(k)) >= 0) && ok;
                break;
            }
            case K_IFELSE: {
                auto *a = new Mon<IfElseAction>(h, loop);
                act = a;
                ok = a->setChildAs(build(s.kids[0]), "if");
                if (s.kids[1] >= 0) ok = a->setChildAs(build(s.kids[1]), (n & 1) ? "then" : "succ") && ok;
                if (s.kids[2] >= 0) ok = a->setChildAs(build(s.kids[2]), (n & 1) ? "else" : "fail") && ok;
                break;
            }
            case K_IFTHEN: {
                auto *a = new Mon<IfThenAction>(h, loop);
                act = a;
                for (size_t i = 0; i < s.kids.size(); ++i)
                    ok = (a->addChildAs(build(s.kids[i]), (i & 1) ? "then" : "if") >= 0) && ok;
                break;
            }
            case K_SWITCH: {
                auto *a = new Mon<SwitchAction>(h, loop);
                act = a;
                ok = a->setChildAs(build(s.kids[0]), "switch");
                for (size_t i = 0; i < s.case_msg.size(); ++i)
                    ok = a->setChildAs(build(s.kids[1 + i]), kMsgs[s.case_msg[i]]) && ok;
                if (s.has_default) ok = a->setChildAs(build(s.kids.back()), "default") && ok;
                break;
            }
            case K_LOOP: {
                auto *a = new Mon<LoopAction>(h, loop, (LoopAction::Mode)s.mode);
                act = a;
                ok = a->setChild(build(s.kids[0]));
                break;
            }
            case K_LOOPIF: {
                auto *a = new Mon<LoopIfAction>(h, loop);
                act = a;
                ok = a->setChildAs(build(s.kids[0]), "if");
                ok = a->setChildAs(build(s.kids[1]), "exec") && ok;
                if (!s.lif_result) a->setFinishResult(false);
                break;
            }
            case K_REPEAT: {
                auto *a = new Mon<RepeatAction>(h, loop, (size_t)s.times, (RepeatAction::Mode)s.mode);
                act = a;
                ok = a->setChild(build(s.kids[0]));
                break;
            }
            case K_WRAPPER: {
                auto *a = new Mon<WrapperAction>(h, loop, (WrapperAction::Mode)s.mode);
                act = a;
                ok = a->setChild(build(s.kids[0]));
                break;
            }
            case K_COMPOSITE: {
                auto *a = new Mon<CompositeAction>(h, loop, std::string("Composite"));
                act = a;
                ok = a->setChild(build(s.kids[0]));
                break;
            }
            case L_SUCC: act = new Mon<SuccAction>(h, loop); break;
            case L_FAIL: act = new Mon<FailAction>(h, loop); break;
            case L_SLEEP: act = new Mon<SleepAction>(h, loop, std::chrono::milliseconds(s.sleep_ms)); break;
            case L_FUNC: {
                Tree *t = this;
                if (s.func_reason) {
                    FunctionAction::FuncWithReason f = [t, n](Action::Reason &r) { return t->func_leaf(n, &r); };
                    act = new Mon<FunctionAction>(h, loop, std::move(f));
                } else {
                    FunctionAction::Func f = [t, n]() { return t->func_leaf(n, nullptr); };
                    act = new Mon<FunctionAction>(h, loop, std::move(f));
                }
                break;
            }
            case L_PROBE: {
                Tree *t = this;
                auto *a = new Mon<DummyAction>(h, loop);
                a->setStartCallback([t, n] { t->leaf_start(n); });
                a->setResumeCallback([t, n] { t->leaf_resume(n); });
                a->setStopCallback([t, n] { t->leaf_cancel(n); });
                a->setResetCallback([t, n] { t->leaf_cancel(n); });
                nd[n].dummy = a;
                act = a;
                break;
            }
        }
        if (!ok) vh::viol("api/child-refused", "adding the children of " + nname(n) + " failed");
        if (s.timeout) act->setTimeout(std::chrono::milliseconds(s.timeout));
        nd[n].act = act;
        if (s.kind == K_PAR) nd[n].ch_fin.assign(s.kids.size(), -1);
        return act;
    }

    void create() {
        root = build(0);
        alive = true;
        Tree *t = this;
        root->setFinishCallback([t](bool succ, const Action::Reason &, const Action::Trace &) { t->root_finish_cb(succ); });
        root->setBlockCallback([t](const Action::Reason &, const Action::Trace &) { t->root_block_cb(); });
        if (!is_leaf(sp[0].kind))
            static_cast<AssembleAction *>(root)->setFinalCallback([t] { t->root_final_cb(); });
        if (!root->isReady()) vh::viol("api/not-ready", "generated tree reports isReady()==false");
    }

    void destroy() {
        logf("delete tree");
        alive = false;
        Action *r = root;
        root = nullptr;
        delete r;
        for (Node &N : nd) { N.act = nullptr; N.dummy = nullptr; }
    }

    //////////////////////////////////////////////////////////////////////////////////////////////////////////////
    // leaves
    //////////////////////////////////////////////////////////////////////////////////////////////////////////////

    bool func_leaf(int n, Action::Reason *r) {
        const Spec &s = sp[n];
        const LeafStep &st = s.script[nd[n].cur_inv % s.script.size()];
        if (r) r->message = kMsgs[st.msg];
        return st.outcome == O_SUCC;
    }

    void do_finish(int n) {
        Node &N = nd[n];
        N.pend = 0;
        cnt(N.cur.block ? "leaf_finish_after_block_and_resume" : "leaf_finish_without_block");
        N.dummy->emitFinish(N.cur.outcome == O_SUCC, Action::Reason(0, std::string(kMsgs[N.cur.msg])));
    }
    void do_block(int n) {
        Node &N = nd[n];
        N.pend = 0;
        N.blocked = true;
        blocks_seen = true;
        cnt("leaf_block");
        N.dummy->emitBlock(Action::Reason(1077, "probe-block"));
    }
    void leaf_start(int n) {
        Node &N = nd[n];
        const Spec &s = sp[n];
        N.cur = s.script[N.cur_inv % s.script.size()];
        N.blocked = false;
        N.pend = 0;
        if (N.cur.block) {
            if (N.cur.delay == 0) { cnt("leaf_block_inside_onStart"); do_block(n); }
            else { N.pend = 2; N.pend_left = N.cur.delay; }
        } else if (N.cur.outcome == O_NEVER) {
            cnt("leaf_never");
        } else if (N.cur.delay == 0) {
            cnt("leaf_finish_inside_onStart");
            do_finish(n);
        } else {
            N.pend = 1; N.pend_left = N.cur.delay;
        }
    }
    void leaf_resume(int n) {
        Node &N = nd[n];
        if (!N.blocked) return;
        N.blocked = false;
        if (N.cur.outcome == O_NEVER) return;
        if (N.cur.delay2 == 0) { cnt("leaf_finish_inside_onResume"); do_finish(n); }
        else { N.pend = 1; N.pend_left = N.cur.delay2; }
    }
    void leaf_cancel(int n) { nd[n].pend = 0; nd[n].blocked = false; }

    //! complete / block the probe leaves that are due (only while they are running: a paused leaf holds its work back)
    void fire_pendings() {
        for (size_t n = 0; n < nd.size(); ++n) {
            Node &N = nd[n];
            if (!N.pend || !alive) continue;
            if (N.act->state() != Action::State::kRunning) continue;
            if (N.pend_left > 1) { --N.pend_left; continue; }
            if (N.pend == 1) { cnt("leaf_finish_later"); do_finish((int)n); }
            else do_block((int)n);
        }
    }

    //////////////////////////////////////////////////////////////////////////////////////////////////////////////
    // reference automaton of the composites
    //////////////////////////////////////////////////////////////////////////////////////////////////////////////

    static bool trig(int mode, bool succ) { return (mode == 2 && succ) || (mode == 1 && !succ); }

    void model_begin(int n) {
        Node &N = nd[n];
        N.pc = 0; N.idx = 0; N.iter = 0; N.sel = -1; N.last = true; N.res = false;
        N.oblig_ticks = 0; N.oblig_reported = false; N.paused_between = false;
        N.started = 0;
        N.last_child_fin_tick = -100;
        if (sp[n].kind == K_PAR) N.ch_fin.assign(sp[n].kids.size(), -1);
        model_expect(n);
    }

    //! what the composite has to do now (called when it is not waiting for a child)
    void model_expect(int n) {
        Node &N = nd[n];
        const Spec &s = sp[n];
        auto start = [&](int k) { N.expect = X_START; N.expect_k = k; };
        auto finish = [&](bool r) { N.expect = X_FINISH; N.expect_res = r; };
        switch (s.kind) {
            case K_SEQ:
                if (N.pc == 3) finish(N.res);
                else if (N.idx < (int)s.kids.size()) start(N.idx);
                else finish(N.last);
                break;
            case K_PAR:
                if (N.started < (int)s.kids.size()) start(N.started);
                else N.expect = X_WAIT;
                break;
            case K_IFELSE:
                if (N.pc == 3) finish(N.res); else start(N.pc);
                break;
            case K_IFTHEN:
                if (N.pc == 3) finish(N.res);
                else if (2 * N.idx >= (int)s.kids.size()) finish(false);
                else start(2 * N.idx + N.pc);
                break;
            case K_SWITCH:
                if (N.pc == 3) finish(N.res); else start(N.pc == 0 ? 0 : N.sel);
                break;
            case K_LOOP: case K_WRAPPER: case K_COMPOSITE:
                if (N.pc == 3) finish(N.res); else start(0);
                break;
            case K_LOOPIF:
                if (N.pc == 3) finish(s.lif_result); else start(N.pc);
                break;
            case K_REPEAT:
                if (N.pc == 3) finish(N.res);
                else if (s.times == 0 || N.iter < s.times) start(0);   // times == 0: forever (pinned by a baseline test)
                else finish(true);
                break;
        }
    }

    void model_child_fin(int n, int r, bool succ, const std::string &msg) {
        Node &N = nd[n];
        const Spec &s = sp[n];
        auto done = [&](bool v) { N.pc = 3; N.res = v; };
        switch (s.kind) {
            case K_SEQ:
                if (trig(s.mode, succ)) done(succ); else { N.last = succ; ++N.idx; }
                break;
            case K_IFELSE:
                if (N.pc == 0) {
                    int br = succ ? 1 : 2;
                    if (s.kids[br] >= 0) N.pc = br; else done(true);
                } else done(succ);
                break;
            case K_IFTHEN:
                if (N.pc == 0) { if (succ) N.pc = 1; else ++N.idx; }
                else done(succ);
                break;
            case K_SWITCH:
                if (N.pc == 0) {
                    if (!succ) { done(false); break; }
                    N.sel = -1;
                    for (size_t i = 0; i < s.case_msg.size(); ++i) if (msg == kMsgs[s.case_msg[i]]) N.sel = 1 + (int)i;
                    if (N.sel < 0 && s.has_default) N.sel = (int)s.kids.size() - 1;
                    if (N.sel < 0) done(false); else N.pc = 1;
                } else done(succ);
                break;
            case K_LOOP:
                if (trig(s.mode, succ)) done(succ);
                break;
            case K_LOOPIF:
                if (N.pc == 0) { if (succ) N.pc = 1; else N.pc = 3; }
                else N.pc = 0;
                break;
            case K_REPEAT:
                if (trig(s.mode, succ)) done(succ); else ++N.iter;
                break;
            case K_WRAPPER:
                done(s.mode == 0 ? succ : s.mode == 1 ? !succ : s.mode == 2);
                break;
            case K_COMPOSITE:
                done(succ);
                break;
            default: break;
        }
        (void)r;
    }

    bool par_condition(int n) const {
        const Node &N = nd[n];
        const Spec &s = sp[n];
        size_t fin = 0;
        for (int v : N.ch_fin) {
            if (v >= 0) { ++fin; if (trig(s.mode, v == 1)) return true; }
        }
        return fin == s.kids.size();
    }

    std::string expect_str(int n) const {
        const Node &N = nd[n];
        switch (N.expect) {
            case X_START: return vh::fmt("start child %d", N.expect_k);
            case X_WAIT: return vh::fmt("wait for child %d", N.expect_k);
            case X_FINISH: return vh::fmt("finish with %s", N.expect_res ? "success" : "failure");
        }
        return "nothing (not in a run)";
    }

    //////////////////////////////////////////////////////////////////////////////////////////////////////////////
    // event handling
    //////////////////////////////////////////////////////////////////////////////////////////////////////////////

    void on_event(int n, int kind, bool succ, int code, const std::string &msg) {
        Node &N = nd[n];
        const Spec &s = sp[n];
        ++events_this_tick;
        if (record && kind != E_TMO_END) {
            vh::Sig sg; sg.add(msg);
            Ev e = {tick, n, kind, (int)succ, code, kind == E_FIN || kind == E_BLOCK ? sg.h : 0};
            trace.push_back(e);
        }
        if (kind == E_FIN) logf(vh::fmt("FIN %s %s (%d:%s)", nname(n).c_str(), succ ? "succ" : "fail", code, msg.c_str()));
        else if (kind != E_TMO_END) logf(std::string(kEvName[kind]) + " " + nname(n));
        const int p = s.parent;

        switch (kind) {
        case E_START: {
            if (N.ms != M_IDLE)
                viol("lifecycle/start-while-not-idle", nname(n) + " started while its lifecycle state is " + kMsName[N.ms]);
            N.ms = M_RUN; N.finals = 0; N.ended_by_timeout = false; N.paused_by_pause = false;
            N.stale_run = tick <= N.stale_until;
            N.active_ms = 0; N.t_arm = (int64_t)g_now_ms; N.cont_running = true;
            N.stopped_by_running_parent = 0;
            cnt(kRunCounter[s.kind]);
            if (p >= 0) {
                Node &P = nd[p];
                if (P.ms == M_PAUSE)
                    viol("order/child-started-while-parent-paused", nname(n) + " started by " + nname(p) + " which is paused");
                else if (P.ms != M_RUN)
                    viol("order/child-started-by-inactive-parent", nname(n) + " started while " + nname(p) + " is " + kMsName[P.ms]);
                else if (P.expect == X_WAIT) {
                    viol(ckey(p, "order/parent-advanced-while-child-under-way"),
                         vh::fmt("%s (%s) started child %d (%s) although its current child %d has not delivered a result in this run",
                                 nname(p).c_str(), describe(sp, p).c_str(), s.role, nname(n).c_str(), P.expect_k));
                    P.expect = X_NONE;
                    P.oblig_reported = true;
                } else if (P.expect != X_START || P.expect_k != s.role) {
                    viol(ckey(p, std::string("order/") + kKindName[sp[p].kind] + "/unexpected-child-start"),
                         vh::fmt("%s (%s) started child %d (%s); the documented flow says: %s", nname(p).c_str(),
                                 describe(sp, p).c_str(), s.role, nname(n).c_str(), expect_str(p).c_str()));
                    P.expect = X_NONE;      // the automaton lost track: no follow-up reports for this run
                    P.oblig_reported = true;
                } else {
                    if (P.paused_between) { cnt("pause_between_child_finish_and_parent_handling"); saw_held_back = true; }
                    P.paused_between = false;
                    P.oblig_ticks = 0;
                    P.replay_in_flight = false;
                    if (sp[p].kind == K_PAR) { ++P.started; model_expect(p); }
                    else { P.expect = X_WAIT; P.expect_k = s.role; }
                }
            } else {
                if (!in_user_start) viol("lifecycle/root-started-by-itself", "root started outside a start() call");
                // a new run of the root
                epoch_open = true; epoch_clean = true;
                leaf_order.clear();
                std::fill(leaf_count.begin(), leaf_count.end(), 0);
                fin_pending = false; fin_lost_by = 0;
                root_done_ticks = -1;
            }
            if (is_leaf(s.kind)) {
                N.cur_inv = N.inv++;
                if (epoch_open) { leaf_order.push_back(std::make_pair(n, N.cur_inv)); ++leaf_count[n]; }
            }
            if (!is_leaf(s.kind)) model_begin(n);
            break;
        }
        case E_FIN: {
            if (N.ms != M_RUN && N.ms != M_PAUSE)
                viol(ckey(n, "lifecycle/finish-while-not-underway"), nname(n) + " finished while its lifecycle state is " + kMsName[N.ms]);
            const bool tmo = N.in_timeout;
            if (tmo) {
                N.ended_by_timeout = true;
                cnt(is_leaf(s.kind) ? "timeout_finished_leaf" : "timeout_finished_composite");
                if (succ) viol("timeout/finished-with-success", nname(n) + " timed out but finished with success");
            } else if (!is_leaf(s.kind) && N.expect != X_NONE) {
                const std::string kn = kKindName[s.kind];
                if (s.kind == K_PAR) {
                    if (!par_condition(n))
                        viol("result/Parallel/finished-before-condition", nname(n) + " (" + describe(sp, n) + ") finished although neither all children finished nor one gave the deciding result");
                    else if (!succ)
                        viol("result/Parallel/wrong-result", nname(n) + " finished with failure (Parallel always reports success)");
                } else if (N.expect == X_FINISH) {
                    if (N.expect_res != succ)
                        viol(ckey(n, "result/" + kn + "/wrong-result"), vh::fmt("%s (%s) finished with %s; the documented flow gives %s",
                             nname(n).c_str(), describe(sp, n).c_str(), succ ? "success" : "failure", N.expect_res ? "success" : "failure"));
                    if (N.paused_between) { cnt("pause_between_child_finish_and_parent_handling"); saw_held_back = true; }
                } else if (N.expect == X_WAIT) {
                    viol(ckey(n, "order/parent-advanced-while-child-under-way"),
                         vh::fmt("%s (%s) finished with %s although its current child %d has not delivered a result in this run",
                                 nname(n).c_str(), describe(sp, n).c_str(), succ ? "success" : "failure", N.expect_k));
                } else {
                    viol(ckey(n, "result/" + kn + "/finished-instead-of-starting-child"), vh::fmt("%s (%s) finished with %s; the documented flow says: %s",
                         nname(n).c_str(), describe(sp, n).c_str(), succ ? "success" : "failure", expect_str(n).c_str()));
                }
            }
            if (s.kind == L_SLEEP) {
                cnt("sleep_finished");
                if (N.active_ms < s.sleep_ms) cnt("note_sleep_finished_before_its_span_of_unpaused_time");
            }
            N.ms = M_FIN; N.result = succ; N.expect = X_NONE; N.cont_running = false; N.replay_in_flight = false;
            if (p >= 0) {
                Node &P = nd[p];
                if ((P.ms == M_RUN || P.ms == M_PAUSE) && P.expect != X_NONE) {
                    if (sp[p].kind == K_PAR) {
                        if (P.ch_fin[s.role] >= 0) viol("order/Parallel/child-finished-twice", nname(n) + " finished twice in one run of " + nname(p));
                        P.ch_fin[s.role] = succ ? 1 : 0;
                        P.last_child_fin_tick = tick;
                        if (P.ms == M_PAUSE) cnt("parallel_child_finished_while_parallel_paused");
                        P.paused_between = false;
                    } else if (P.expect == X_WAIT && P.expect_k == s.role) {
                        model_child_fin(p, s.role, succ, msg);
                        model_expect(p);
                        P.oblig_ticks = 0;
                        P.paused_between = (P.ms == M_PAUSE);
                        if (P.ms == M_PAUSE) cnt("serial_child_finished_while_parent_paused");
                    } else {
                        viol(std::string("order/") + kKindName[sp[p].kind] + "/finish-from-unexpected-child",
                             vh::fmt("%s finished but %s expects: %s", nname(n).c_str(), nname(p).c_str(), expect_str(p).c_str()));
                    }
                }
            } else {
                fin_pending = true; fin_result = succ; fin_tick = tick; fin_lost_by = 0;
                root_done_ticks = 0;
                blk_optional += blk_expected; blk_expected = 0;
                close_epoch(true, succ);
            }
            break;
        }
        case E_STOP: {
            if (N.ms != M_RUN && N.ms != M_PAUSE)
                viol("lifecycle/stop-hook-while-not-underway", nname(n) + " got onStop while its lifecycle state is " + kMsName[N.ms]);
            if (N.ms == M_PAUSE) cnt("stopped_while_paused");
            if (N.replay_in_flight) { N.replay_in_flight = false; N.stale_until = tick + 2; cnt("stopped_with_replayed_child_result_in_flight"); }
            N.ms = M_STOP; N.expect = X_NONE; N.cont_running = false;
            if (p >= 0) {
                if (nd[p].ms == M_RUN || nd[p].ms == M_PAUSE) N.stopped_by_running_parent = 1;
            } else {
                if (!in_user_stop) viol("lifecycle/root-stopped-by-itself", "root got onStop outside a stop() call");
                if (blk_expected) { blk_forbid_stop += blk_expected; blk_expected = 0; cnt("stop_with_block_notification_queued"); }
                root_done_ticks = 0;
                close_epoch(false, false);
            }
            break;
        }
        case E_PAUSE:
            if (N.ms != M_RUN) viol("lifecycle/pause-hook-while-not-running", nname(n) + " got onPause while " + kMsName[N.ms]);
            N.ms = M_PAUSE; N.paused_by_pause = true; N.cont_running = false;
            if (s.kind == K_PAR && tick - N.last_child_fin_tick <= 1) cnt("parallel_paused_with_child_finish_in_flight");
            if (N.expect == X_START || N.expect == X_FINISH) N.paused_between = true;
            break;
        case E_BLOCK:
            if (N.ms != M_RUN && N.ms != M_PAUSE) viol("lifecycle/block-hook-while-not-underway", nname(n) + " got onBlock while " + kMsName[N.ms]);
            if (N.ms == M_RUN) N.paused_by_pause = false;
            if (s.kind == K_PAR && N.ms == M_RUN && tick - N.last_child_fin_tick <= 1) cnt("parallel_paused_with_child_finish_in_flight");
            N.ms = M_PAUSE;
            blocks_seen = true;
            if (N.expect == X_START || N.expect == X_FINISH) N.paused_between = true;
            if (p < 0) { if (blk_expected++) cnt("two_block_notifications_of_the_root_in_flight"); block_tick = tick; }
            break;
        case E_RESUME:
            if (N.ms != M_PAUSE) viol("lifecycle/resume-hook-while-not-paused", nname(n) + " got onResume while " + kMsName[N.ms]);
            N.ms = M_RUN; N.paused_by_pause = false;
            N.t_arm = (int64_t)g_now_ms; N.cont_running = true;
            N.oblig_ticks = 0;
            if (!is_leaf(s.kind) && s.kind != K_PAR && (N.expect == X_START || N.expect == X_FINISH)) {
                N.replay_in_flight = true;
                cnt("resumed_with_child_result_to_replay");
            }
            break;
        case E_RESET:
            if ((N.ms == M_RUN || N.ms == M_PAUSE) && !in_user_reset)
                viol(ckey(p < 0 ? n : p, "order/parent-advanced-while-child-under-way"), nname(n) + " was reset by its parent while its run was under way (" + kMsName[N.ms] + ")");
            if ((N.ms == M_RUN || N.ms == M_PAUSE) && in_user_reset) cnt("reset_while_underway");
            if (N.replay_in_flight) { N.replay_in_flight = false; N.stale_until = tick + 2; cnt("reset_with_replayed_child_result_in_flight"); }
            N.ms = M_IDLE; N.expect = X_NONE; N.cont_running = false; N.finals = 0;
            if (p < 0) {
                if (fin_pending) { fin_pending = false; fin_lost_by = 1; cnt("reset_with_finish_notification_queued"); }
                if (blk_expected || blk_optional || blk_forbid_stop) {
                    blk_forbid_reset += blk_expected + blk_optional + blk_forbid_stop;
                    blk_expected = blk_optional = blk_forbid_stop = 0;
                    cnt("reset_with_block_notification_queued");
                }
                root_done_ticks = -1;
                close_epoch(false, false);
            }
            break;
        case E_FINAL:
            if (N.ms != M_FIN && N.ms != M_STOP)
                viol("final/hook-while-not-ended", nname(n) + " ran its final hook while " + kMsName[N.ms]);
            if (++N.finals > 1) viol("final/hook-ran-twice", nname(n) + " ran its final hook twice in one run");
            cnt("final_hook");
            if (p < 0) ++root_final_events;
            break;
        case E_TMO: {
            N.in_timeout = true;
            cnt("timeout_fired");
            if (N.ms == M_PAUSE) cnt("timeout_fired_while_blocked");
            if (!s.timeout) viol("timeout/fired-without-timeout", nname(n) + " has no timeout set");
            else if (N.active_ms < s.timeout)
                viol("timeout/fired-early", vh::fmt("%s timed out after %lld ms of its run (timeout %d ms)", nname(n).c_str(), (long long)N.active_ms, s.timeout));
            break;
        }
        case E_TMO_END: N.in_timeout = false; break;
        }
    }

    //////////////////////////////////////////////////////////////////////////////////////////////////////////////
    // root callbacks
    //////////////////////////////////////////////////////////////////////////////////////////////////////////////

    void rec(int kind, int a) {
        ++events_this_tick;
        if (record) { Ev e = {tick, -1, kind, a, 0, 0}; trace.push_back(e); }
        logf(vh::fmt("%s %d", kEvName[kind], a));
    }

    void root_finish_cb(bool succ) {
        rec(E_ROOT_FIN_CB, succ);
        cnt("root_finish_callback");
        if (!fin_pending) {
            if (fin_lost_by == 1) viol("notify/stale-finish-callback-after-reset", "the root's finish callback was delivered for a run that was reset");
            else viol("notify/finish-callback-unexpected", "the root's finish callback was delivered without a (new) finish of the root");
            return;
        }
        fin_pending = false;
        if (succ != fin_result) viol("notify/finish-callback-wrong-result", "callback result differs from the finish");
        if (nd[0].ms != M_FIN) viol("notify/finish-callback-while-not-finished", std::string("root is ") + kMsName[nd[0].ms]);
        if (restarts_left > 0 && alive) {
            --restarts_left;
            cnt("restart_inside_finish_callback");
            do_op(OP_RESET, "finish-cb");
            do_op(OP_START, "finish-cb");
        }
    }

    void root_block_cb() {
        rec(E_ROOT_BLOCK_CB, 0);
        cnt("root_block_callback");
        bool was_expected = false;
        if (blk_expected) { --blk_expected; was_expected = true; }
        else if (blk_optional) --blk_optional;
        else if (blk_forbid_stop) {
            --blk_forbid_stop;
            viol("notify/stale-block-callback-after-stop", "the root's block callback was delivered after the root had been stopped");
        } else if (blk_forbid_reset) {
            --blk_forbid_reset;
            viol("notify/stale-block-callback-after-reset", "the root's block callback was delivered after the root had been reset");
        } else
            viol("notify/block-callback-unexpected", "the root's block callback was delivered without a block of the root");
        if (was_expected && alive && on_block == 1) { cnt("stop_inside_block_callback"); do_op(OP_STOP, "block-cb"); }
        else if (was_expected && alive && on_block == 2) cnt("block_callback_left_unanswered");
        else if (was_expected && alive) {
            if (resume_delay == 0) { cnt("resume_inside_block_callback"); do_op(OP_RESUME, "auto"); }
            else resume_at = tick + resume_delay;
        }
    }

    void root_final_cb() { rec(E_ROOT_FINAL_CB, 0); ++user_finals; }

    //////////////////////////////////////////////////////////////////////////////////////////////////////////////
    // control calls
    //////////////////////////////////////////////////////////////////////////////////////////////////////////////

    void do_op(int op, const char *who = "script") {
        if (!alive) return;
        Node &R = nd[0];
        const int before = R.ms;
        rec(E_OP, op);
        logf(vh::fmt("-> %s() by %s, root is %s", kOpName[op], who, kMsName[before]));
        { static const char *oc[] = {"op_start", "op_pause", "op_resume", "op_stop", "op_reset"}; cnt(oc[op]); }
        bool ret = true, want = true;
        switch (op) {
            case OP_START:
                in_user_start = true; ret = root->start(); in_user_start = false;
                want = before == M_IDLE || before == M_RUN;
                if (before == M_IDLE) ++effective_ops;
                break;
            case OP_PAUSE:
                ret = root->pause();
                want = before == M_RUN || before == M_PAUSE;
                if (before == M_RUN) { ++effective_ops; cnt("pause_effective"); }
                break;
            case OP_RESUME:
                ret = root->resume();
                want = before == M_RUN || before == M_PAUSE;
                if (before == M_PAUSE) { ++effective_ops; cnt("resume_effective"); }
                break;
            case OP_STOP:
                in_user_stop = true; ret = root->stop(); in_user_stop = false;
                if (before == M_RUN || before == M_PAUSE) { ++effective_ops; cnt("stop_effective"); }
                resume_at = -1;
                break;
            case OP_RESET:
                in_user_reset = true; root->reset(); in_user_reset = false;
                if (before != M_IDLE) { ++effective_ops; cnt("reset_effective"); }
                for (Node &N : nd) N.inv = 0;
                resume_at = -1;
                blocks_seen = false;
                break;
        }
        if (ret != want)
            viol(std::string("api/") + kOpName[op] + "-return-value",
                 vh::fmt("%s() returned %d with the root %s", kOpName[op], (int)ret, kMsName[before]));
        check_tree(kOpName[op], op);
    }

    //////////////////////////////////////////////////////////////////////////////////////////////////////////////
    // invariants
    //////////////////////////////////////////////////////////////////////////////////////////////////////////////

    static int ms_of(Action::State st) {
        switch (st) {
            case Action::State::kIdle: return M_IDLE;
            case Action::State::kRunning: return M_RUN;
            case Action::State::kPause: return M_PAUSE;
            case Action::State::kFinished: return M_FIN;
            default: return M_STOP;
        }
    }

    //! checks valid at every quiescent point (tick, and right after a control call returned)
    void check_tree(const char *when, int after_op = -1) {
        if (!alive) return;
        for (size_t i = 0; i < nd.size(); ++i) {
            const int n = (int)i;
            Node &N = nd[n];
            const Action::State st = N.act->state();
            if (ms_of(st) != N.ms)
                viol("state/differs-from-lifecycle-hooks", vh::fmt("after %s: %s reports state %s but its hooks say %s", when,
                     nname(n).c_str(), ToString(st).c_str(), kMsName[N.ms]));
            const Action::Result rs = N.act->result();
            const Action::Result want = N.ms == M_FIN ? (N.result ? Action::Result::kSuccess : Action::Result::kFail) : Action::Result::kUnsure;
            if (rs != want)
                viol("state/result-differs", vh::fmt("after %s: %s (%s) reports result %s", when, nname(n).c_str(), kMsName[N.ms], ToString(rs).c_str()));
            // a node whose run is under way below a parent that is idle, finished or stopped
            if (n > 0 && (st == Action::State::kRunning || st == Action::State::kPause)) {
                const int pn = sp[n].parent;
                const Action::State ps = nd[pn].act->state();
                if (ps == Action::State::kIdle || ps == Action::State::kFinished || ps == Action::State::kStoped) {
                    const char *how = ps == Action::State::kIdle ? "reset" : ps == Action::State::kStoped ? "stop"
                                      : nd[pn].ended_by_timeout ? "timeout" : "finish";
                    viol(ckey(pn, std::string("cleanup/descendant-left-underway-after-") + how),
                         vh::fmt("after %s: %s (%s) is %s but its child %s is still %s", when, nname(pn).c_str(), kKindName[sp[pn].kind],
                                 ToString(ps).c_str(), nname(n).c_str(), ToString(st).c_str()));
                }
            }
        }
        for (size_t i = 1; i < nd.size(); ++i) {
            Node &N = nd[i];
            if (!N.stopped_by_running_parent) continue;
            const int pm = nd[sp[i].parent].ms;
            if (N.ms == M_STOP && (pm == M_RUN || pm == M_PAUSE))
                viol("order/child-stopped-by-parent-that-continues", nname((int)i) + " was stopped by " + nname(sp[i].parent) + " which is still " + kMsName[pm]);
            N.stopped_by_running_parent = 0;
        }
        // reset: everything idle
        if (after_op == OP_RESET) {
            for (size_t i = 0; i < nd.size(); ++i)
                if (nd[i].act->state() != Action::State::kIdle)
                    viol("cleanup/node-not-idle-after-reset", nname((int)i) + " is " + ToString(nd[i].act->state()) + " after reset() of the root");
        }
        // pause cascade (only while no leaf ever blocked in this run: a block notification in flight may legitimately leave
        // a paused composite above a leaf that was resumed in between)
        if (!blocks_seen) {
            const Action::State rs = root->state();
            if (rs == Action::State::kPause || rs == Action::State::kRunning) {
                const Action::State bad = rs == Action::State::kPause ? Action::State::kRunning : Action::State::kPause;
                for (size_t i = 1; i < nd.size(); ++i)
                    if (nd[i].act->state() == bad) {
                        viol(ckey(sp[i].parent, rs == Action::State::kPause ? "pause/descendant-running-under-paused-root" : "pause/descendant-paused-under-running-root"),
                             vh::fmt("after %s: root is %s but %s is %s (no leaf has blocked)", when, ToString(rs).c_str(),
                                     nname((int)i).c_str(), ToString(bad).c_str()));
                        break;
                    }
            }
        }
    }

    bool has_future_activity() const {
        if (fin_pending || blk_expected || resume_at >= 0) return true;
        for (size_t i = 0; i < nd.size(); ++i) {
            const Node &N = nd[i];
            const Action::State st = N.act->state();
            if (st == Action::State::kRunning) {
                if (N.pend) return true;
                if (sp[i].kind == L_SLEEP) return true;
                if (sp[i].timeout) return true;
            } else if (st == Action::State::kPause && sp[i].timeout && !N.paused_by_pause && N.active_ms <= sp[i].timeout + 20) {
                return true;    // blocked with its timeout timer possibly still armed
            }
        }
        return false;
    }

    //! once per tick, before the harness acts
    void begin_tick() {
        if (!alive) return;
        check_tree("a loop pass");
        // obligations of running composites
        for (size_t i = 0; i < nd.size(); ++i) {
            Node &N = nd[i];
            const Spec &s = sp[i];
            if (is_leaf(s.kind) || N.ms != M_RUN || N.expect == X_NONE || N.oblig_reported) { N.oblig_ticks = 0; continue; }
            bool due = N.expect == X_START || N.expect == X_FINISH;
            if (s.kind == K_PAR) due = N.expect == X_START || par_condition((int)i);
            if (!due) { N.oblig_ticks = 0; continue; }
            if (++N.oblig_ticks > 4) {
                N.oblig_reported = true;
                viol(std::string("progress/") + kKindName[s.kind] + "/child-result-not-acted-on",
                     vh::fmt("%s (%s) has been running for %d ticks without doing what the documented flow requires: %s",
                             nname((int)i).c_str(), describe(sp, (int)i).c_str(), N.oblig_ticks,
                             s.kind == K_PAR ? "finish (all children finished / deciding result delivered)" : expect_str((int)i).c_str()));
            }
        }
        // timeouts that must have fired in the pass that just ran
        for (size_t i = 0; i < nd.size(); ++i) {
            Node &N = nd[i];
            if (sp[i].timeout && N.ms == M_RUN && N.cont_running && (int64_t)g_now_ms - N.t_arm >= sp[i].timeout)
                viol("timeout/not-fired", vh::fmt("%s has been running for %lld ms since its start/resume (timeout %d ms)",
                     nname((int)i).c_str(), (long long)((int64_t)g_now_ms - N.t_arm), sp[i].timeout));
        }
        // root notifications
        if (fin_pending && tick - fin_tick > 3) {
            fin_pending = false;
            viol("notify/finish-callback-missing", "the root finished but its finish callback was not delivered within 3 ticks");
        }
        if (blk_expected && tick - block_tick > 3) {
            blk_expected = 0;
            viol("notify/block-callback-missing", "the root blocked but its block callback was not delivered within 3 ticks");
        }
        // final hooks
        for (size_t i = 0; i < nd.size(); ++i) {
            Node &N = nd[i];
            if ((N.ms == M_FIN || N.ms == M_STOP) && N.finals != 1 && !N.final_reported) {
                N.final_reported = true;
                viol("final/hook-missing", nname((int)i) + " ended (" + kMsName[N.ms] + ") without running its final hook");
            }
        }
        if (!is_leaf(sp[0].kind) && user_finals != root_final_events)
            viol("final/user-callback-count", vh::fmt("root final hook ran %d times, setFinalCallback callback %d times", root_final_events, user_finals));
    }

    uint64_t state_hash() const {
        vh::Sig sg;
        for (const Node &N : nd) sg.add((uint64_t)N.act->state() * 4 + (uint64_t)N.act->result());
        return sg.h;
    }

    void record_state() {
        if (!record || !alive) return;
        Ev e = {tick, -2, E_STATE, 0, 0, state_hash()};
        trace.push_back(e);
    }

    //! end of a tick: virtual time moves, idle bookkeeping
    void end_tick(int dt) {
        if (alive) {
            if (events_this_tick == 0 && !has_future_activity()) ++idle_ticks; else idle_ticks = 0;
            if (events_this_tick == 0 && dt == 0) dt = 1;     // never stall the virtual clock
            for (Node &N : nd)
                if (N.ms == M_RUN || (N.ms == M_PAUSE && !N.paused_by_pause)) N.active_ms += dt;
            if (root_done_ticks >= 0) ++root_done_ticks;
        }
        g_now_ms += (uint64_t)dt;
        events_this_tick = 0;
        ++tick;
    }

    //! nothing can happen any more: was the tree entitled to wait?
    void check_stuck() {
        if (!alive || nd[0].ms != M_RUN) return;
        int paused_leaf = -1;
        for (size_t i = 0; i < nd.size(); ++i) {
            if (!is_leaf(sp[i].kind)) continue;
            const Action::State st = nd[i].act->state();
            if (st == Action::State::kRunning) return;      // waiting for a leaf that never completes: legitimate
            if (st == Action::State::kPause) paused_leaf = (int)i;
        }
        if (paused_leaf < 0)
            viol("progress/root-running-but-no-leaf-underway",
                 vh::fmt("the root has been running for %d idle ticks, no leaf is running or paused, nothing is scheduled: it can never finish", idle_ticks));
        else
            viol("progress/root-running-but-leaf-left-paused",
                 vh::fmt("the root has been running for %d idle ticks while %s stays paused and no leaf is running", idle_ticks, nname(paused_leaf).c_str()));
    }

    //! end of one run of the root: compare with the big-step prediction
    void close_epoch(bool finished, bool succ) {
        if (!epoch_open) return;
        epoch_open = false;
        if (!bs || bs->fuzzy || violations || g_case_violated) return;
        const BigStep &b = *bs;
        if (!cs.has_parallel) {
            size_t m = std::min(leaf_order.size(), b.order.size());
            for (size_t i = 0; i < m; ++i) {
                if (leaf_order[i] != b.order[i]) {
                    viol("bigstep/leaf-start-order", vh::fmt("leaf start %zu was %s (invocation %d); the documented flow starts %s (invocation %d)",
                         i, nname(leaf_order[i].first).c_str(), leaf_order[i].second, nname(b.order[i].first).c_str(), b.order[i].second));
                    return;
                }
            }
            if (leaf_order.size() > b.order.size() && !b.cut) {
                viol("bigstep/more-leaf-starts-than-the-flow-allows", vh::fmt("%zu leaf starts observed, the documented flow has %zu; first extra: %s",
                     leaf_order.size(), b.order.size(), nname(leaf_order[b.order.size()].first).c_str()));
                return;
            }
            if (finished && !b.cut && leaf_order.size() < b.order.size()) {
                viol("bigstep/root-finished-before-all-leaf-starts", vh::fmt("%zu leaf starts observed, the documented flow has %zu",
                     leaf_order.size(), b.order.size()));
                return;
            }
            cnt(finished ? "bigstep_order_compared_finished_run" : "bigstep_order_prefix_compared");
        } else if (!b.cut) {
            for (size_t i = 0; i < leaf_count.size(); ++i) {
                if (leaf_count[i] > b.count[i] || (finished && leaf_count[i] != b.count[i])) {
                    viol("bigstep/leaf-start-count", vh::fmt("%s was started %d times; the documented flow starts it %d times%s", nname((int)i).c_str(),
                         leaf_count[i], b.count[i], finished ? "" : " at most"));
                    return;
                }
            }
            cnt(finished ? "bigstep_counts_compared_finished_run" : "bigstep_counts_prefix_compared");
        }
        if (finished && !b.cut) {
            if (b.result == R_DIV)
                viol("bigstep/root-finished-but-the-flow-cannot", vh::fmt("root finished with %s although a leaf on its path never completes", succ ? "success" : "failure"));
            else if ((b.result == R_TRUE) != succ)
                viol("bigstep/wrong-root-result", vh::fmt("root finished with %s; the documented flow gives %s", succ ? "success" : "failure",
                     b.result == R_TRUE ? "success" : "failure"));
            else cnt("bigstep_root_result_compared");
        }
    }
};

void tree_event(const Hook &h, int kind, bool succ, int code, const std::string &msg) { h.t->on_event(h.idx, kind, succ, code, msg); }

//////////////////////////////////////////////////////////////////////////////////////////////////////////////////////
// driver: lives in the loop as a task that re-posts itself once per pass
//////////////////////////////////////////////////////////////////////////////////////////////////////////////////////

enum { PH_A, PH_T1, PH_T2, PH_B, PH_TAIL, PH_DONE };

struct Driver {
    event::Loop &loop;
    Tree &t;
    const CaseSpec &cs;
    int ph;
    size_t op_i = 0;
    int tail_left = 0;
    bool done = false;
    int cap_b = 160;
    int idle_limit;
    bool ended_idle = false, ended_cap = false, root_finished = false, root_result = false;

    Driver(event::Loop &l, Tree &tr, bool with_a) : loop(l), t(tr), cs(tr.cs), ph(with_a ? PH_A : PH_T2) {
        idle_limit = cs.depth * 4 + 10;
        cap_b = cs.cap_b;
        t.phase = with_a ? "A" : "F";
        t.resume_delay = with_a ? cs.s1.resume_delay : cs.s2.resume_delay;
        if (with_a) { t.on_block = cs.s1.on_block; t.restarts_left = cs.s1.restarts; }
    }

    void post() { loop.runNext([this] { tick(); }, "c17.tick"); }

    void apply_ops(const Script &s) {
        if (t.resume_at >= 0 && t.resume_at <= t.tick) { t.resume_at = -1; cnt("resume_some_ticks_after_block_callback"); t.do_op(OP_RESUME, "auto"); }
        int in_tick = 0;
        while (op_i < s.ops.size() && s.ops[op_i].tick <= t.tick) {
            if (s.ops[op_i].tick == t.tick) { t.do_op(s.ops[op_i].op); ++in_tick; }
            ++op_i;
        }
        if (in_tick >= 2) cnt("several_control_calls_in_one_tick");
    }

    void begin_b() {
        for (Node &N : t.nd) if (N.stale_until >= t.tick) { t.stale_near_b = true; N.stale_until = 2; }
        t.phase = ph == PH_A || ph == PH_T1 || (ph == PH_T2 && t.phase[0] != 'F') ? "B" : "F";
        t.tick = 0;
        t.record = true;
        t.trace.clear();
        t.resume_delay = cs.s2.resume_delay;
        t.on_block = 0; t.restarts_left = 0;
        t.resume_at = -1;
        t.idle_ticks = 0;
        op_i = 0;
        ph = PH_B;
        t.do_op(OP_START);
    }

    void finish_b() {
        if (ended_idle) t.check_stuck();
        root_finished = t.nd[0].ms == M_FIN;
        root_result = t.nd[0].result;
        t.close_epoch(false, false);
        if (cs.s2.final_resume && t.nd[0].ms == M_PAUSE) { cnt("resume_then_stop_then_delete_in_one_tick"); t.do_op(OP_RESUME); }
        if (t.nd[0].ms == M_RUN || t.nd[0].ms == M_PAUSE) cnt("stop_then_delete_in_one_tick");
        t.do_op(OP_STOP);
        t.record = false;
        t.destroy();
        ph = PH_TAIL;
        tail_left = 3;
    }

    void tick() {
        if (done) return;
        const bool a_ends_now = ph == PH_A && t.tick >= cs.s1.len;
        const bool b_starts_now = (a_ends_now && cs.transition != 2) || ph == PH_T2;
        bool pf;
        if (ph == PH_TAIL) pf = false;
        else if (b_starts_now) pf = cs.s2.post_first[0];
        else if (ph == PH_B) pf = cs.s2.post_first[t.tick % 64];
        else pf = cs.s1.post_first[t.tick % 64];
        if (pf) post();

        int dt = 1;
        if (ph == PH_TAIL) {
            if (--tail_left <= 0) { done = true; ph = PH_DONE; loop.exitLoop(); return; }
        } else {
            t.begin_tick();
            t.record_state();
            t.fire_pendings();
            if (ph == PH_A && !a_ends_now) {
                apply_ops(cs.s1);
                dt = cs.s1.dt[t.tick % 64];
            } else if (a_ends_now) {
                t.close_epoch(false, false);
                if (cs.transition == 1) {
                    if (t.nd[0].ms == M_RUN || t.nd[0].ms == M_PAUSE) cnt("transition_reset_without_stop");
                    t.do_op(OP_RESET);
                    begin_b();
                    apply_ops(cs.s2);
                    dt = cs.s2.dt[0];
                } else {
                    t.do_op(OP_STOP);
                    if (cs.transition == 0) {
                        cnt("transition_stop_reset_start_in_one_tick");
                        t.do_op(OP_RESET);
                        begin_b();
                        apply_ops(cs.s2);
                        dt = cs.s2.dt[0];
                    } else {
                        cnt("transition_stop_reset_start_over_three_ticks");
                        ph = PH_T1;
                    }
                }
            } else if (ph == PH_T1) {
                t.do_op(OP_RESET);
                ph = PH_T2;
            } else if (ph == PH_T2) {
                begin_b();
                apply_ops(cs.s2);
                dt = cs.s2.dt[0];
            } else if (ph == PH_B) {
                apply_ops(cs.s2);
                dt = cs.s2.dt[t.tick % 64];
            }
            if (ph == PH_B) {
                ended_idle = t.idle_ticks > idle_limit;
                ended_cap = t.tick >= cap_b;
                if (t.root_done_ticks >= 2 || (cs.s2.len >= 0 && t.tick >= cs.s2.len) || ended_idle || ended_cap) {
                    if (ended_cap) cnt("run_ended_by_tick_cap");
                    if (ended_idle) cnt("run_ended_idle_waiting_for_a_never_leaf_or_stuck");
                    if (cs.s2.len >= 0 && t.tick >= cs.s2.len && t.root_done_ticks < 0) cnt("run_cut_off_by_script");
                    finish_b();
                }
            }
        }
        t.end_tick(dt);
        if (!pf) post();
    }
};

//////////////////////////////////////////////////////////////////////////////////////////////////////////////////////
// generator
//////////////////////////////////////////////////////////////////////////////////////////////////////////////////////

struct Gen {
    vh::Rng &r;
    CaseSpec &cs;
    int budget;
    bool allow_timeouts, allow_never;
    int max_depth;

    LeafStep step(bool probe) {
        LeafStep st;
        unsigned o = (unsigned)r.below(100);
        st.outcome = o < 50 ? O_SUCC : (o < 94 || !probe || !allow_never) ? O_FAIL : O_NEVER;
        static const int d[] = {0, 0, 0, 1, 1, 2, 3};
        st.delay = probe ? r.pick(d) : 0;
        if (probe && r.chance(1, 5)) {
            st.block = 1;
            static const int d2[] = {0, 0, 1, 1, 2};
            st.delay2 = r.pick(d2);
        }
        st.msg = r.chance(1, 2) ? 4 : (int)r.below(kNMsgs);
        return st;
    }

    int leaf(int parent, int role, int depth, bool switch_role) {
        int n = (int)cs.sp.size();
        cs.sp.push_back(Spec());
        Spec s;
        s.parent = parent; s.role = role; s.depth = depth;
        unsigned k = (unsigned)r.below(12);
        s.kind = k < 6 ? L_PROBE : k < 8 ? L_FUNC : k < 9 ? L_SUCC : k < 10 ? L_FAIL : L_SLEEP;
        if (switch_role && s.kind >= L_SUCC) s.kind = r.chance(1, 2) ? L_PROBE : L_FUNC;
        if (s.kind == L_PROBE || s.kind == L_FUNC) {
            int ns = 1 + (int)r.below(3);
            for (int i = 0; i < ns; ++i) {
                LeafStep st = step(s.kind == L_PROBE);
                if (switch_role) { st.msg = (int)r.below(kNMsgs); if (st.outcome == O_FAIL && r.chance(2, 3)) st.outcome = O_SUCC; }
                s.script.push_back(st);
            }
            s.func_reason = s.kind == L_FUNC && (switch_role || r.chance(1, 3));
        }
        if (s.kind == L_SLEEP) { static const int ms[] = {0, 1, 2, 3, 5, 10, 25}; s.sleep_ms = r.pick(ms); }
        if (allow_timeouts && (s.kind == L_PROBE || s.kind == L_SLEEP) && r.chance(1, 12)) {
            static const int tm[] = {1, 2, 4, 8, 20}; s.timeout = r.pick(tm); cs.has_timeout = true;
        }
        if (depth > cs.depth) cs.depth = depth;
        cs.sp[n] = s;
        return n;
    }

    int node(int parent, int role, int depth, bool switch_role = false) {
        static const int pc[] = {96, 70, 50, 30, 0};
        --budget;
        if (depth >= max_depth || budget < 3 || (int)r.below(100) >= pc[depth]) return leaf(parent, role, depth, switch_role);
        int n = (int)cs.sp.size();
        cs.sp.push_back(Spec());
        Spec s;
        s.parent = parent; s.role = role; s.depth = depth;
        static const int kw[] = {K_SEQ, K_SEQ, K_SEQ, K_SEQ, K_PAR, K_PAR, K_PAR, K_PAR, K_IFELSE, K_IFELSE, K_IFTHEN, K_IFTHEN,
                                 K_SWITCH, K_SWITCH, K_LOOP, K_LOOP, K_LOOPIF, K_LOOPIF, K_REPEAT, K_REPEAT, K_REPEAT,
                                 K_WRAPPER, K_WRAPPER, K_COMPOSITE};
        s.kind = r.pick(kw);
        auto kid = [&](int rl, bool sw = false) { int k = node(n, rl, depth + 1, sw); return k; };
        switch (s.kind) {
            case K_SEQ: case K_PAR: {
                s.mode = (int)r.below(3);
                int nk = r.chance(1, 30) ? 0 : 1 + (int)r.below(4);
                for (int i = 0; i < nk; ++i) s.kids.push_back(kid(i));
                if (s.kind == K_PAR) cs.has_parallel = true;
                break;
            }
            case K_IFELSE: {
                s.kids.push_back(kid(0));
                unsigned w = (unsigned)r.below(10);     // both branches / only then / only else
                s.kids.push_back(w != 8 ? kid(1) : -1);
                s.kids.push_back(w != 9 ? kid(2) : -1);
                break;
            }
            case K_IFTHEN: {
                int np = 1 + (int)r.below(3);
                for (int i = 0; i < 2 * np; ++i) s.kids.push_back(kid(i));
                break;
            }
            case K_SWITCH: {
                s.kids.push_back(kid(0, true));
                int nc = (int)r.below(4);
                s.has_default = nc == 0 || r.chance(1, 2);
                std::vector<int> pool = {0, 1, 2, 3};
                for (int i = 0; i < nc; ++i) {
                    size_t j = (size_t)r.below(pool.size());
                    s.case_msg.push_back(pool[j]);
                    pool.erase(pool.begin() + (long)j);
                    s.kids.push_back(kid(1 + i));
                }
                if (s.has_default) s.kids.push_back(kid(1 + nc));
                break;
            }
            case K_LOOP:
                s.mode = r.chance(1, 6) ? 0 : 1 + (int)r.below(2);
                s.kids.push_back(kid(0));
                break;
            case K_LOOPIF:
                s.lif_result = !r.chance(1, 3);
                s.kids.push_back(kid(0));
                s.kids.push_back(kid(1));
                break;
            case K_REPEAT:
                s.mode = (int)r.below(3);
                s.times = (int)r.below(4);
                s.kids.push_back(kid(0));
                break;
            case K_WRAPPER:
                s.mode = (int)r.below(4);
                s.kids.push_back(kid(0));
                break;
            case K_COMPOSITE:
                s.kids.push_back(kid(0));
                break;
        }
        if (allow_timeouts && r.chance(1, 10)) {
            static const int tm[] = {1, 2, 4, 8, 20, 50}; s.timeout = r.pick(tm); cs.has_timeout = true;
        }
        if (depth > cs.depth) cs.depth = depth;
        cs.sp[n] = s;
        return n;
    }

    void timing(Script &s) {
        static const int dts[] = {0, 1, 1, 1, 2, 3, 7, 20};
        unsigned pfm = (unsigned)r.below(5);
        for (int i = 0; i < 64; ++i) {
            s.dt[i] = r.pick(dts);
            s.post_first[i] = pfm == 0 ? 0 : pfm == 1 ? 1 : (unsigned char)r.below(2);
        }
        static const int rd[] = {0, 1, 1, 2, 3};
        s.resume_delay = r.pick(rd);
    }

    void pairs(Script &s, int n, int max_tick) {
        static const int gaps[] = {0, 0, 1, 1, 2, 4};
        for (int i = 0; i < n; ++i) {
            int t = (int)r.below((uint64_t)max_tick);
            int g = r.pick(gaps);
            s.ops.push_back(Op{t, OP_PAUSE});
            s.ops.push_back(Op{t + g, OP_RESUME});
        }
    }

    void script_a(Script &s) {
        timing(s);
        s.len = 3 + (int)r.below(28);
        unsigned style = (unsigned)r.below(100);
        if (style < 20) {
            s.ops.push_back(Op{0, OP_START});
        } else if (style < 50) {
            s.ops.push_back(Op{0, OP_START});
            pairs(s, 1 + (int)r.below(3), s.len);
        } else {
            s.ops.push_back(Op{r.chance(9, 10) ? 0 : (int)r.below(3), OP_START});
            int n = 2 + (int)r.below(7);
            static const int w[] = {OP_PAUSE, OP_PAUSE, OP_PAUSE, OP_RESUME, OP_RESUME, OP_RESUME, OP_STOP, OP_STOP, OP_RESET, OP_RESET, OP_START, OP_START};
            for (int i = 0; i < n; ++i) s.ops.push_back(Op{(int)r.below((uint64_t)s.len), r.pick(w)});
            if (r.chance(1, 3)) {       // pause ... resume immediately followed by stop / reset / start in the same tick
                int t = (int)r.below((uint64_t)s.len);
                static const int gaps[] = {1, 1, 2, 3};
                int t2 = t + r.pick(gaps);
                s.ops.push_back(Op{t, OP_PAUSE});
                s.ops.push_back(Op{t2, OP_RESUME});
                unsigned v = (unsigned)r.below(3);
                s.ops.push_back(Op{t2, OP_STOP});
                if (v >= 1) s.ops.push_back(Op{t2, OP_RESET});
                if (v >= 1) s.ops.push_back(Op{t2, OP_START});
            }
            if (r.chance(1, 4)) {       // restart in one tick
                int t = (int)r.below((uint64_t)s.len);
                s.ops.push_back(Op{t, OP_STOP});
                s.ops.push_back(Op{t, OP_RESET});
                s.ops.push_back(Op{t, OP_START});
            }
        }
        std::stable_sort(s.ops.begin(), s.ops.end(), [](const Op &a, const Op &b) { return a.tick < b.tick; });
        unsigned ob = (unsigned)r.below(10);
        s.on_block = ob < 8 ? 0 : ob == 8 ? 1 : 2;
        s.restarts = r.chance(1, 5) ? 1 + (int)r.below(2) : 0;
    }

    void script_b(Script &s) {
        timing(s);
        unsigned style = (unsigned)r.below(100);
        if (style >= 30) pairs(s, 1 + (int)r.below(3), 24);
        s.len = r.chance(1, 4) ? 1 + (int)r.below(20) : -1;
        s.final_resume = r.chance(1, 2);
        std::stable_sort(s.ops.begin(), s.ops.end(), [](const Op &a, const Op &b) { return a.tick < b.tick; });
    }

    void run() {
        budget = 6 + (int)r.below(20);
        max_depth = 4;
        allow_timeouts = r.chance(2, 5);
        allow_never = r.chance(1, 2);
        node(-1, 0, 0);
        script_a(cs.s1);
        script_b(cs.s2);
        unsigned tr = (unsigned)r.below(10);
        cs.transition = tr < 5 ? 0 : tr < 7 ? 1 : 2;
    }
};

//////////////////////////////////////////////////////////////////////////////////////////////////////////////////////
// one case
//////////////////////////////////////////////////////////////////////////////////////////////////////////////////////

event::Loop *g_loop = nullptr;

std::string ev_str(const Tree &t, const Ev &e) {
    if (e.node == -2) return vh::fmt("tick %d: states hash %016llx", e.tick, (unsigned long long)e.h);
    if (e.node == -1) return vh::fmt("tick %d: %s %s", e.tick, kEvName[e.kind], e.kind == E_OP ? kOpName[e.a] : (e.a ? "1" : "0"));
    return vh::fmt("tick %d: %s %s a=%d code=%d", e.tick, kEvName[e.kind], t.nname(e.node).c_str(), e.a, e.b);
}

void run_case(const CaseSpec &cs, bool may_sample) {
    g_case_violated = false;
    BigStep bs;
    bs.run(cs);
    vh::st().case_desc = "tree: " + describe(cs.sp, 0) + "\nS1: " + describe(cs.s1, true) + "\nS2: " + describe(cs.s2, false) +
                         vh::fmt("\ntransition=%d", cs.transition);
    if (!bs.fuzzy) cnt(bs.result == R_DIV ? (bs.cut ? "predicted_unbounded_loop" : "predicted_never_finishes") : "predicted_finishes");
    else cnt("prediction_not_applicable_race_timeout_or_composite_switch");

    // run 1: T1, phase A then stop/reset and phase B
    std::unique_ptr<Tree> t1(new Tree(cs, *g_loop));
    t1->bs = &bs;
    t1->create();
    Driver d1(*g_loop, *t1, true);
    d1.post();
    g_loop->runLoop(event::Loop::Mode::kForever);

    // run 2: fresh tree T2 under S2
    std::unique_ptr<Tree> t2(new Tree(cs, *g_loop));
    t2->bs = &bs;
    t2->create();
    Driver d2(*g_loop, *t2, false);
    d2.post();
    g_loop->runLoop(event::Loop::Mode::kForever);

    if (!g_case_violated) {
        const std::vector<Ev> &a = t1->trace, &b = t2->trace;
        size_t m = std::min(a.size(), b.size()), i = 0;
        while (i < m && a[i] == b[i]) ++i;
        if (i < m || a.size() != b.size()) {
            std::string d = vh::fmt("the run after reset and the run of a freshly built tree differ at trace entry %zu (%zu vs %zu entries)\n", i, a.size(), b.size());
            for (size_t j = i > 6 ? i - 6 : 0; j < i; ++j) d += "   both : " + ev_str(*t1, a[j]) + "\n";
            for (size_t j = i; j < std::min(a.size(), i + 6); ++j) d += "   reset: " + ev_str(*t1, a[j]) + "\n";
            for (size_t j = i; j < std::min(b.size(), i + 6); ++j) d += "   fresh: " + ev_str(*t2, b[j]) + "\n";
            g_case_violated = true;
            vh::viol(t1->stale_near_b ? "notify/stale-child-result-replayed-after-stop-or-reset" : "reset/run-after-reset-differs-from-fresh-tree", d + t1->tail(60));
        } else {
            cnt("reset_vs_fresh_traces_compared");
            cnt("reset_vs_fresh_trace_entries", a.size());
        }
    }

    // evidence
    cnt("trees");
    cnt("tree_nodes", cs.sp.size());
    vh::counter_max("max_tree_depth", (uint64_t)cs.depth);
    vh::counter_max("max_tree_nodes", cs.sp.size());
    if (d2.root_finished) cnt("fresh_run_root_finished");
    if (d1.root_finished) cnt("rerun_after_reset_root_finished");
    vh::Sig sg;
    sg.add(vh::st().case_desc);
    bool nontrivial = (cs.depth >= 2 || vh::st().args.mode == "exhaustive") && t1->effective_ops >= 3;
    vh::note_case(sg.h, nontrivial);
    if (may_sample && nontrivial && vh::want_sample() && d2.root_finished && cs.sp.size() <= 14) {
        std::string lg;
        for (size_t i = 0; i < t2->log.size() && i < 60; ++i) lg += (i ? " | " : "") + t2->log[i];
        vh::sample("{\"tree\":" + vh::jstr(describe(cs.sp, 0)) + ",\"script_A\":" + vh::jstr(describe(cs.s1, true)) +
                   ",\"script_B\":" + vh::jstr(describe(cs.s2, false)) + vh::fmt(",\"transition\":%d", cs.transition) +
                   ",\"predicted\":" + vh::jstr(bs.fuzzy ? "n/a" : bs.result == R_DIV ? "does not finish" : bs.result == R_TRUE ? "success" : "failure") +
                   ",\"fresh_run_result\":" + vh::jstr(d2.root_result ? "success" : "failure") +
                   ",\"fresh_run_log\":" + vh::jstr(lg) + "}");
    }
    if (vh::st().args.verbose) {
        fprintf(stderr, "---- case %llu\n%s\n", (unsigned long long)vh::st().cur_case, vh::st().case_desc.c_str());
        for (const std::string &l : t1->log) fprintf(stderr, "  T1 %s\n", l.c_str());
        for (const std::string &l : t2->log) fprintf(stderr, "  T2 %s\n", l.c_str());
    }
}

//////////////////////////////////////////////////////////////////////////////////////////////////////////////////////
// exhaustive sub-space: every single composite (all modes) over probe leaves from a small behaviour alphabet,
// crossed with every placement of one pause/resume pair, one stop, one reset+start or one pause followed by
// resume+stop+reset+start in the first four ticks
//////////////////////////////////////////////////////////////////////////////////////////////////////////////////////

struct XConfig { int kind, mode, times, variant, slots; };

std::vector<XConfig> xconfigs() {
    std::vector<XConfig> v;
    for (int k = K_SEQ; k <= K_PAR; ++k)
        for (int m = 0; m < 3; ++m) { v.push_back(XConfig{k, m, 0, 0, 2}); v.push_back(XConfig{k, m, 0, 1, 3}); }
    v.push_back(XConfig{K_IFELSE, 0, 0, 0, 3});     // if, then, else
    v.push_back(XConfig{K_IFELSE, 0, 0, 1, 2});     // if, then
    v.push_back(XConfig{K_IFELSE, 0, 0, 2, 2});     // if, else
    v.push_back(XConfig{K_IFTHEN, 0, 0, 0, 2});
    v.push_back(XConfig{K_IFTHEN, 0, 0, 1, 4});
    v.push_back(XConfig{K_SWITCH, 0, 0, 0, 3});     // switch, case:a, default
    v.push_back(XConfig{K_SWITCH, 0, 0, 1, 2});     // switch, case:a
    for (int m = 0; m < 3; ++m) v.push_back(XConfig{K_LOOP, m, 0, 0, 2});      // one leaf, two-step script
    for (int m = 0; m < 2; ++m) v.push_back(XConfig{K_LOOPIF, m, 0, 0, 2});
    for (int t = 0; t < 3; ++t)
        for (int m = 0; m < 3; ++m) v.push_back(XConfig{K_REPEAT, m, t, 0, 2});    // one leaf, two-step script
    for (int m = 0; m < 4; ++m) v.push_back(XConfig{K_WRAPPER, m, 0, 0, 1});
    v.push_back(XConfig{K_COMPOSITE, 0, 0, 0, 1});
    return v;
}

const int kXNCtrl = 25;
const int kXCtrl = kXNCtrl * 2;      //!< control variants x re-post policy

uint64_t ipow(uint64_t b, int e) { uint64_t r = 1; while (e-- > 0) r *= b; return r; }

uint64_t xspace(int alpha) {
    uint64_t n = 0;
    for (const XConfig &c : xconfigs()) n += ipow((uint64_t)alpha, c.slots) * kXCtrl;
    return n;
}

LeafStep xstep(int d, bool switch_slot) {
    LeafStep st;
    switch (d) {
        case 0: st.outcome = O_SUCC; break;
        case 1: st.outcome = O_FAIL; break;
        case 2: st.outcome = O_SUCC; st.delay = 1; break;
        case 3: st.outcome = O_FAIL; st.delay = 1; break;
        case 4: st.outcome = O_SUCC; st.block = 1; break;
        default: st.outcome = O_FAIL; st.block = 1; st.delay = 1; st.delay2 = 1; break;
    }
    st.msg = switch_slot ? ((d & 1) ? 3 : 0) : 4;       // switch leaf: "case:a" / "case:zz"
    if (switch_slot && d == 1) { st.outcome = O_SUCC; }  // d=1: succeeds with an unknown case (takes the default / skips)
    if (switch_slot && d == 3) { st.outcome = O_FAIL; st.msg = 0; }
    return st;
}

void xcase(uint64_t idx, int alpha, CaseSpec &cs) {
    static const std::vector<XConfig> cfgs = xconfigs();
    idx %= xspace(alpha);
    size_t ci = 0;
    for (;; ++ci) {
        uint64_t n = ipow((uint64_t)alpha, cfgs[ci].slots) * kXCtrl;
        if (idx < n) break;
        idx -= n;
    }
    const XConfig &c = cfgs[ci];
    const int ctrl = (int)(idx % kXNCtrl); idx /= kXNCtrl;
    const int pf = (int)(idx % 2); idx /= 2;
    std::vector<int> dig(c.slots);
    for (int i = 0; i < c.slots; ++i) { dig[i] = (int)(idx % (uint64_t)alpha); idx /= (uint64_t)alpha; }

    Spec root;
    root.kind = c.kind; root.mode = c.mode; root.times = c.times;
    if (c.kind == K_LOOPIF) { root.lif_result = c.mode == 0; root.mode = 0; }
    cs.sp.push_back(root);
    auto add_leaf = [&](int role, std::vector<int> steps, bool sw) {
        Spec l;
        l.kind = L_PROBE; l.parent = 0; l.role = role; l.depth = 1;
        for (int d : steps) l.script.push_back(xstep(d, sw));
        cs.sp.push_back(l);
        return (int)cs.sp.size() - 1;
    };
    Spec &r = cs.sp[0];
    std::vector<int> kids;
    switch (c.kind) {
        case K_SEQ: case K_PAR: case K_IFTHEN: case K_LOOPIF:
            for (int i = 0; i < c.slots; ++i) kids.push_back(add_leaf(i, {dig[i]}, false));
            break;
        case K_IFELSE:
            kids.push_back(add_leaf(0, {dig[0]}, false));
            if (c.variant == 0) { kids.push_back(add_leaf(1, {dig[1]}, false)); kids.push_back(add_leaf(2, {dig[2]}, false)); }
            else if (c.variant == 1) { kids.push_back(add_leaf(1, {dig[1]}, false)); kids.push_back(-1); }
            else { kids.push_back(-1); kids.push_back(add_leaf(2, {dig[1]}, false)); }
            break;
        case K_SWITCH:
            kids.push_back(add_leaf(0, {dig[0]}, true));
            kids.push_back(add_leaf(1, {dig[1]}, false));
            cs.sp[0].case_msg.push_back(0);
            if (c.variant == 0) { kids.push_back(add_leaf(2, {dig[2]}, false)); cs.sp[0].has_default = true; }
            break;
        case K_LOOP: case K_REPEAT:
            kids.push_back(add_leaf(0, {dig[0], dig[1]}, false));
            break;
        default:
            kids.push_back(add_leaf(0, {dig[0]}, false));
            break;
    }
    (void)r;
    cs.sp[0].kids = kids;
    cs.depth = 1;
    cs.has_parallel = c.kind == K_PAR;

    for (Script *sc : {&cs.s1, &cs.s2}) {
        for (int i = 0; i < 64; ++i) { sc->dt[i] = 1; sc->post_first[i] = (unsigned char)pf; }
        sc->resume_delay = 1;
    }
    cs.s1.len = 10;
    cs.s2.len = -1;
    cs.s1.ops.push_back(Op{0, OP_START});
    if (ctrl >= 1 && ctrl <= 12) {
        int p = (ctrl - 1) / 3, g = (ctrl - 1) % 3;
        cs.s1.ops.push_back(Op{p, OP_PAUSE}); cs.s1.ops.push_back(Op{p + g, OP_RESUME});
        cs.s2.ops.push_back(Op{p, OP_PAUSE}); cs.s2.ops.push_back(Op{p + g, OP_RESUME});
    } else if (ctrl >= 13 && ctrl <= 16) {
        cs.s1.ops.push_back(Op{ctrl - 13, OP_STOP});
    } else if (ctrl >= 17 && ctrl <= 20) {
        int p = ctrl - 17;
        cs.s1.ops.push_back(Op{p, OP_RESET}); cs.s1.ops.push_back(Op{p, OP_START});
    } else if (ctrl >= 21) {        // pause, and one tick later resume + stop + reset + start in one tick
        int p = ctrl - 21;
        cs.s1.ops.push_back(Op{p, OP_PAUSE});
        for (int op : {OP_RESUME, OP_STOP, OP_RESET, OP_START}) cs.s1.ops.push_back(Op{p + 1, op});
    }
    cs.transition = 0;
    cs.cap_b = 40;
}

}  // namespace

int main(int argc, char **argv) {
    tbox::event::verif::SetSteadyClockMs(clock_fn);
    g_loop = event::Loop::New();
    if (!g_loop) { fprintf(stderr, "Loop::New failed\n"); return 3; }
    vh::parse_args(argc, argv);
    const std::string mode = vh::st().args.mode;
    const int alpha = (int)vh::st().args.num("alpha", 5);
    if (mode == "xcount") { printf("%llu\n", (unsigned long long)xspace(alpha)); return 0; }
    int rc = vh::run(argc, argv, [&](uint64_t idx, vh::Rng &rng) {
        g_now_ms = 1000000 + rng.below(1000000000ULL);
        CaseSpec cs;
        if (mode == "exhaustive") {
            xcase(idx, alpha, cs);
            run_case(cs, (idx % 9973) == 0);
        } else {
            Gen g{rng, cs, 0, false, false, 4};
            g.run();
            run_case(cs, true);
        }
    });
    delete g_loop;
    return rc;
}
