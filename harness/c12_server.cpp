// C12, server level: a real http::server::Server on a loopback TCP port, one raw non-blocking client socket, one thread.
// The harness owns the loop and drives it pass by pass (runLoop(kOnce) with a queued no-op so the wait never blocks);
// between passes it writes the next segment of the pipeline, completes the handlers whose scripted turn has come and
// reads whatever the server wrote. Nothing is read from inside the server: requests are observed in the registered
// handlers, responses as bytes on the client socket, closure as EOF / reset on the client socket.
//
// modes
//   pipeline   1..8 well-formed requests (declared body lengths) on one connection, with or without a request that asks
//              for the connection to be closed (Connection: close / HTTP/1.0) at a random position, sent in a random
//              segmentation; every handler completes inside the callback, or 1..20 passes later, in a scripted order,
//              through a two-stage middleware chain whose next() may itself be called late
//   order      the exhaustive sub-space: n = 1..4 requests in one segment x every completion permutation x every
//              inside-callback/late mask x every position of the closing request (or none) x {one completion per pass, all
//              late completions in one pass}
//   live       hostile bytes (mutated requests, token soup, random bytes) to the live server in random segments, clients
//              that go away (FIN or RST) with handlers still pending, handlers that complete after the connection or after
//              Server::cleanup(): nothing may escape runLoop(), crash or trip a sanitizer
#include "c12_gen.hpp"

#include <tbox/event/loop.h>
#include <tbox/http/server/server.h>
#include <tbox/network/sockaddr.h>
#include <tbox/base/log_impl.h>
#include <tbox/base/log.h>

#include <arpa/inet.h>
#include <netinet/in.h>
#include <netinet/tcp.h>
#include <sys/socket.h>
#include <poll.h>
#include <sys/ioctl.h>
#include <linux/sockios.h>
#include <errno.h>
#include <signal.h>
#include <cxxabi.h>
#include <memory>
#include <typeinfo>

using namespace c12;
using tbox::event::Loop;
using tbox::http::server::Server;
using tbox::http::server::ContextSptr;
using tbox::http::server::NextFunc;
namespace http = tbox::http;

namespace {

std::string current_exception_name() {
    int st = 0;
    std::type_info *ti = abi::__cxa_current_exception_type();
    if (!ti) return "unknown";
    char *d = abi::__cxa_demangle(ti->name(), nullptr, nullptr, &st);
    std::string n = (st == 0 && d) ? d : ti->name();
    free(d);
    return n;
}

//! what the handlers do with the k-th request handed to them
struct Plan {
    int stage = 0;          // 0: first handler answers; 1: first handler calls next() at once; 2: first handler calls next() late
    int next_delay = 0;     // stage 2: passes until next() is called
    int delay = 0;          // passes until the answering handler completes (0 = inside the callback)
    int rank = 0;           // order among completions that fall into the same pass
    size_t body = 0;        // response body size
};

std::string response_body(int ord, size_t size) {
    std::string b = "ord=" + std::to_string(ord) + ";";
    static const char filler[] = "HTTP/1.1 200 OK\r\nContent-Length: 3\r\n\r\nabc";    // responses must be framed by length, not by looks
    size_t i = 0;
    while (b.size() < size) { b += filler[i % (sizeof filler - 1)]; ++i; if ((i & 63) == 0) b += (char)(ord * 37 + i / 64); }
    if (b.size() > size && size >= 8) b.resize(size);
    return b;
}

struct Response { int status = 0; long xord = -1; std::string body; size_t at_pass = 0; };

struct Pending {
    int k;                  // delivery index
    ContextSptr ctx;        // held until completion (answering stage)
    NextFunc next;          // held until called (stage 2)
    bool call_next;
    uint64_t due;
    int rank;
};

struct World {
    vh::Rng *rng = nullptr;
    Loop *loop = nullptr;
    Server *srv = nullptr;
    int port = 0;
    int cfd = -1;
    bool poisoned = false;          // an exception came out of runLoop(): objects are leaked, not destroyed
    uint64_t pass_no = 0;

    // script
    std::vector<Truth> reqs;        // what was sent (pipeline/order modes)
    std::vector<Plan> plans;
    int close_idx = -1;             // index of the request that asks for closure, -1 none
    bool judged = true;             // live mode: requests are not compared with a truth

    // observations
    struct Delivered { int k; std::string canon; long xord; uint64_t pass; };
    std::vector<Delivered> delivered;
    std::vector<int> completed;     // delivery indices in completion (commit) order
    std::vector<uint64_t> completed_pass;
    std::vector<Pending> pending;
    std::string rx;                 // everything the server wrote
    size_t rx_parsed = 0;
    std::vector<Response> responses;
    bool rx_malformed = false;
    bool eof = false, reset = false;
    uint64_t eof_pass = 0;
    std::string exc;                // exception that escaped runLoop()
    bool client_open = false;
    uint64_t last_rx_pass = 0;
    size_t bytes_sent = 0;          // by the client so far
    size_t max_deliveries = 0;      // 0 = derive from bytes_sent (no request is shorter than 16 bytes)
    std::string redelivery;         // non-empty: the handlers were called more often than requests were sent (text = what was seen)
    std::string short_body;         // non-empty: a request reached the handler with a body that is not as long as its decimal Content-Length
    int client_port = 0;            // local port of the client socket (to find the server's end of the connection from outside)
    bool unjudged = false;          // the kernel never became quiescent: no verdict about things that "never happened"

    Plan plan_for(int k) {
        // requests the script did not foresee (live mode, or handled although they should not have been) get a random plan, once
        while ((int)plans.size() <= k) {
            Plan p;
            p.stage = (int)rng->below(3); p.next_delay = (int)rng->range(1, 4); p.delay = rng->chance(1, 2) ? 0 : (int)(rng->chance(1, 3) ? rng->range(20, 60) : rng->range(1, 6));
            p.rank = (int)rng->below(1000);
            p.body = (size_t)rng->range(0, 50);
            plans.push_back(p);
        }
        return plans[k];
    }
};

World *g_w = nullptr;

//! thrown by the first handler stage to get out of a server that keeps handing out requests nobody sent (the loop thread would
//! otherwise never leave the receive callback); caught around runLoop(), after which the server is never touched again
struct HarnessAbort {};

int g_port_counter = 0;

void complete(World &w, int k, const ContextSptr &ctx) {
    Plan p = w.plan_for(k);
    ctx->res().status_code = http::StatusCode::k200_OK;
    ctx->res().http_ver = http::HttpVer::k1_1;
    ctx->res().headers["X-Ord"] = std::to_string(k);
    ctx->res().body = response_body(k, p.body);
    // was some earlier request still unanswered? then this response has to be parked by the server
    bool out_of_turn = false;
    for (int j = 0; j < k; ++j) if (std::find(w.completed.begin(), w.completed.end(), j) == w.completed.end()) out_of_turn = true;
    if (out_of_turn) vh::counter("srv_completed_out_of_turn");
    w.completed.push_back(k);
    w.completed_pass.push_back(w.pass_no);
}

std::map<const void *, int> g_req_index;       // Request object -> delivery index (set by the first stage)

// second stage: always answers
void handler2(ContextSptr ctx, const NextFunc &) {
    World &w = *g_w;
    auto it = g_req_index.find(&ctx->req());
    if (it == g_req_index.end()) { vh::viol("harness/unknown-context", "second stage got a context the first stage never saw"); return; }
    int k = it->second;
    vh::counter("srv_second_stage_reached");
    Plan p = w.plan_for(k);
    if (p.delay == 0) { vh::counter("srv_completed_inside_callback"); complete(w, k, ctx); }
    else w.pending.push_back(Pending{k, ctx, NextFunc(), false, w.pass_no + (uint64_t)p.delay, p.rank});
}

void handler1(ContextSptr ctx, const NextFunc &next) {
    World &w = *g_w;
    int k = (int)w.delivered.size();
    long xo = -1;
    auto it = ctx->req().headers.find("X-Ord");
    if (it != ctx->req().headers.end()) xo = atol(it->second.c_str());
    w.delivered.push_back(World::Delivered{k, canon(ctx->req()), xo, w.pass_no});
    g_req_index[&ctx->req()] = k;
    vh::counter("srv_requests_delivered");
    {
        std::string declared;
        if (w.short_body.empty() && !declared_length_honoured(ctx->req(), &declared))
            w.short_body = vh::fmt("request %d reached the handler with Content-Length %s and a body of %zu bytes", k, declared.c_str(), ctx->req().body.size());
        size_t bound = w.max_deliveries ? w.max_deliveries : w.bytes_sent / 16 + 1;
        if (w.delivered.size() > bound && w.redelivery.empty()) {
            bool same = k > 0 && w.delivered[k].canon == w.delivered[k - 1].canon;
            w.redelivery = vh::fmt("%s%zu requests handed to the handler inside pass %llu although the client had sent %zu bytes (at most %zu requests); last one {%s}",
                                   same ? "same request again: " : "", w.delivered.size(), (unsigned long long)w.pass_no, w.bytes_sent, bound, brief(w.delivered[k].canon, 160).c_str());
            if (same) w.redelivery = "more-than-once|" + w.redelivery;
            throw HarnessAbort();
        }
    }
    Plan p = w.plan_for(k);
    if (p.stage == 0) {
        if (p.delay == 0) { vh::counter("srv_completed_inside_callback"); complete(w, k, ctx); }
        else w.pending.push_back(Pending{k, ctx, NextFunc(), false, w.pass_no + (uint64_t)p.delay, p.rank});
    } else if (p.stage == 1) {
        next();
    } else {
        vh::counter("srv_next_called_late");
        w.pending.push_back(Pending{k, ContextSptr(), next, true, w.pass_no + (uint64_t)p.next_delay, p.rank});
    }
}

// ------------------------------------------------------------------ client side

void parse_responses(World &w) {
    while (!w.rx_malformed) {
        size_t he = w.rx.find("\r\n\r\n", w.rx_parsed);
        if (he == std::string::npos) break;
        std::string head = w.rx.substr(w.rx_parsed, he - w.rx_parsed);
        Response r;
        size_t le = head.find("\r\n");
        std::string line = head.substr(0, le);
        if (line.compare(0, 9, "HTTP/1.1 ") != 0 || line.size() < 12) { w.rx_malformed = true; break; }
        r.status = atoi(line.c_str() + 9);
        long cl = -1;
        size_t p = le;
        while (p != std::string::npos && p < head.size()) {
            p += 2;
            size_t e = head.find("\r\n", p);
            std::string l = head.substr(p, e == std::string::npos ? std::string::npos : e - p);
            size_t c = l.find(": ");
            if (c != std::string::npos) {
                std::string n = l.substr(0, c), v = l.substr(c + 2);
                if (n == "Content-Length") cl = atol(v.c_str());
                else if (n == "X-Ord") r.xord = atol(v.c_str());
            }
            p = e;
        }
        if (cl < 0) { w.rx_malformed = true; break; }
        if (w.rx.size() < he + 4 + (size_t)cl) break;      // body still on its way
        r.body = w.rx.substr(he + 4, (size_t)cl);
        r.at_pass = w.pass_no;
        w.rx_parsed = he + 4 + (size_t)cl;
        w.responses.push_back(r);
    }
}

void client_read(World &w, size_t max_bytes = (size_t)-1) {
    if (w.cfd < 0 || w.eof || w.reset) return;
    char buf[65536];
    size_t got = 0;
    for (;;) {
        size_t want = std::min(sizeof buf, max_bytes - got);
        if (want == 0) break;
        ssize_t n = ::recv(w.cfd, buf, want, 0);
        if (n > 0) { w.rx.append(buf, (size_t)n); got += (size_t)n; w.last_rx_pass = w.pass_no; continue; }
        if (n == 0) { w.eof = true; w.eof_pass = w.pass_no; break; }
        if (errno == EINTR) continue;
        if (errno == EAGAIN || errno == EWOULDBLOCK) break;
        w.reset = true; w.eof_pass = w.pass_no;      // ECONNRESET and friends: the connection is gone
        break;
    }
    if (got) parse_responses(w);
}

// ------------------------------------------------------------------ loop driving

size_t g_read_limit = (size_t)-1;     // slow reader: bytes the client takes per pass

void tick(World &w) {
    // complete what is due, in (due, rank) order; completing may add nothing new to the list except through next()
    for (;;) {
        int best = -1;
        for (size_t i = 0; i < w.pending.size(); ++i) {
            if (w.pending[i].due > w.pass_no) continue;
            if (best < 0 || w.pending[i].due < w.pending[best].due ||
                (w.pending[i].due == w.pending[best].due && w.pending[i].rank < w.pending[best].rank)) best = (int)i;
        }
        if (best < 0) break;
        Pending p = w.pending[best];
        w.pending.erase(w.pending.begin() + best);
        if (p.call_next) {
            p.next();               // runs the second stage now; it may answer at once or queue itself
            p.next = NextFunc();    // drops the context reference held by the bound next
        } else {
            vh::counter("srv_completed_late");
            complete(w, p.k, p.ctx);
            p.ctx.reset();          // last reference: the response is committed here
        }
    }
}

bool one_pass(World &w) {
    if (w.poisoned) return false;
    w.loop->runNext([] {});
    try {
        w.loop->runLoop(Loop::Mode::kOnce);
    } catch (...) {
        w.exc = current_exception_name();
        w.poisoned = true;
        return false;
    }
    ++w.pass_no;
    try {
        tick(w);
    } catch (...) {
        w.exc = current_exception_name();
        w.poisoned = true;
        return false;
    }
    client_read(w, g_read_limit);
    return true;
}

bool setup(World &w) {
    for (int attempt = 0; attempt < 40; ++attempt) {
        w.loop = Loop::New();
        if (!w.loop) return false;
        w.srv = new Server(w.loop);
        int port = 21000 + (int)(((unsigned)getpid() * 7919u + (unsigned)(g_port_counter++) * 101u) % 40000u);
        if (w.srv->initialize(tbox::network::SockAddr::FromString("127.0.0.1:" + std::to_string(port)), 8) && w.srv->start()) {
            w.port = port;
            w.srv->use(handler1);
            w.srv->use(handler2);
            return true;
        }
        delete w.srv; w.srv = nullptr;
        delete w.loop; w.loop = nullptr;
    }
    return false;
}

//! the listening socket is found from outside (getsockname over the open descriptors): a small SO_SNDBUF on it is inherited by
//! accepted connections, which makes the server's write() come back partial for responses of modest size
void shrink_server_sndbuf(World &w, int bytes) {
    for (int fd = 3; fd < 256; ++fd) {
        struct sockaddr_in a; socklen_t al = sizeof a;
        int acc = 0; socklen_t ol = sizeof acc;
        if (getsockname(fd, (struct sockaddr *)&a, &al) != 0 || a.sin_family != AF_INET || ntohs(a.sin_port) != w.port) continue;
        if (getsockopt(fd, SOL_SOCKET, SO_ACCEPTCONN, &acc, &ol) != 0 || !acc) continue;
        setsockopt(fd, SOL_SOCKET, SO_SNDBUF, &bytes, sizeof bytes);
        return;
    }
}

bool client_connect(World &w, int rcvbuf) {
    int fd = ::socket(AF_INET, SOCK_STREAM | SOCK_CLOEXEC, 0);
    if (fd < 0) return false;
    if (rcvbuf > 0) setsockopt(fd, SOL_SOCKET, SO_RCVBUF, &rcvbuf, sizeof rcvbuf);
    struct sockaddr_in a;
    memset(&a, 0, sizeof a);
    a.sin_family = AF_INET;
    a.sin_port = htons((uint16_t)w.port);
    a.sin_addr.s_addr = htonl(INADDR_LOOPBACK);
    if (::connect(fd, (struct sockaddr *)&a, sizeof a) != 0) { ::close(fd); return false; }
    int one = 1;
    setsockopt(fd, IPPROTO_TCP, TCP_NODELAY, &one, sizeof one);
    int fl = fcntl(fd, F_GETFL, 0);
    fcntl(fd, F_SETFL, fl | O_NONBLOCK);
    struct sockaddr_in me; socklen_t ml = sizeof me;
    if (getsockname(fd, (struct sockaddr *)&me, &ml) == 0) w.client_port = ntohs(me.sin_port);
    w.cfd = fd;
    w.client_open = true;
    return true;
}

//! The server's end of the connection, found from outside by its address pair; -1 when the server has closed it.
int find_server_side_fd(const World &w) {
    for (int fd = 3; fd < 256; ++fd) {
        if (fd == w.cfd) continue;
        struct sockaddr_in a, b; socklen_t al = sizeof a, bl = sizeof b;
        if (getsockname(fd, (struct sockaddr *)&a, &al) != 0 || a.sin_family != AF_INET || ntohs(a.sin_port) != w.port) continue;
        if (getpeername(fd, (struct sockaddr *)&b, &bl) != 0 || ntohs(b.sin_port) != w.client_port) continue;
        return fd;
    }
    return -1;
}

//! Nothing is on its way inside the kernel: both send queues are acknowledged and both receive queues have been read.
//! Only then "the response never appeared" / "the request never arrived" / "the connection was not closed" is a fact about the
//! server and not about when the kernel gets round to delivering loopback packets (it may defer that work under load).
bool kernel_quiescent(const World &w, bool *server_end_open) {
    int v = 0;
    *server_end_open = false;
    if (w.cfd < 0) return false;
    if (ioctl(w.cfd, SIOCOUTQ, &v) != 0 || v != 0) return false;
    if (ioctl(w.cfd, SIOCINQ, &v) != 0 || v != 0) return false;
    int sfd = find_server_side_fd(w);
    if (sfd < 0) return true;       // closed by the server: its FIN is delivered or on its way (the caller waits for EOF)
    *server_end_open = true;
    if (ioctl(sfd, SIOCOUTQ, &v) != 0 || v != 0) return false;
    if (ioctl(sfd, SIOCINQ, &v) != 0 || v != 0) return false;
    return true;
}

//! write one segment completely (running passes while the socket is full). false: the server is gone.
bool client_write(World &w, const std::string &seg) {
    size_t off = 0;
    int stalls = 0;
    while (off < seg.size()) {
        ssize_t n = ::send(w.cfd, seg.data() + off, seg.size() - off, MSG_NOSIGNAL);
        if (n > 0) { off += (size_t)n; w.bytes_sent += (size_t)n; stalls = 0; continue; }
        if (n < 0 && errno == EINTR) continue;
        if (n < 0 && (errno == EAGAIN || errno == EWOULDBLOCK)) {
            if (++stalls > 4000) { w.unjudged = true; return false; }
            if (!one_pass(w)) return false;
            if (stalls > 50) { struct pollfd p = {w.cfd, POLLOUT, 0}; poll(&p, 1, 1); }
            continue;
        }
        return false;   // EPIPE / ECONNRESET
    }
    return true;
}

void client_close(World &w, bool rst) {
    if (w.cfd < 0) return;
    if (rst) { struct linger l = {1, 0}; setsockopt(w.cfd, SOL_SOCKET, SO_LINGER, &l, sizeof l); }
    ::close(w.cfd);
    w.cfd = -1;
    w.client_open = false;
}

void teardown(World &w, bool complete_after_cleanup) {
    client_close(w, false);
    if (w.poisoned) {
        // state after an exception through the loop is undefined: leak everything, never touch it again
        new std::vector<Pending>(std::move(w.pending));
        w.pending.clear();
        g_req_index.clear();
        return;
    }
    for (int i = 0; i < 4 && !w.poisoned; ++i) one_pass(w);
    if (!complete_after_cleanup) {
        for (int guard = 0; !w.pending.empty() && guard < 64 && !w.poisoned; ++guard) { w.pass_no += 32; one_pass(w); }
    }
    if (w.poisoned) { teardown(w, false); return; }
    w.srv->cleanup();
    for (int i = 0; i < 3; ++i) { w.loop->runNext([] {}); w.loop->runLoop(Loop::Mode::kOnce); }
    if (!w.pending.empty()) {
        vh::counter("live_completed_after_server_cleanup", w.pending.size());
        for (int guard = 0; !w.pending.empty() && guard < 64; ++guard) { w.pass_no += 32; tick(w); }
    }
    for (int i = 0; i < 2; ++i) { w.loop->runNext([] {}); w.loop->runLoop(Loop::Mode::kOnce); }
    delete w.srv; w.srv = nullptr;
    delete w.loop; w.loop = nullptr;
    g_req_index.clear();
}

std::string plan_str(const World &w) {
    std::string s;
    for (size_t i = 0; i < w.plans.size(); ++i) {
        const Plan &p = w.plans[i];
        s += vh::fmt("%s%zu:%s%s+%d/r%d/b%zu", i ? " " : "", i, p.stage == 0 ? "h1" : p.stage == 1 ? "next" : "latenext", p.stage == 2 ? vh::fmt("(%d)", p.next_delay).c_str() : "",
                     p.delay, p.rank, p.body);
    }
    return s;
}

// ------------------------------------------------------------------ pipeline / order

struct Script {
    std::vector<Truth> reqs;
    std::vector<Plan> plans;
    int close_idx = -1;
    Cuts cuts;                      // in the concatenated stream
    std::vector<int> passes_after;  // passes after each segment (0 = the next segment is written before the server looks)
    int rcvbuf = 0;                 // client SO_RCVBUF (0 = default, auto-tuned)
    int srv_sndbuf = 0;             // SO_SNDBUF put on the listening socket and inherited by the accepted one (0 = default)
    size_t read_limit = (size_t)-1;
    bool log_ctx = false;
};

std::string script_str(const Script &sc, const World &w) {
    std::string s = vh::fmt("requests=%zu close_idx=%d cuts=[", sc.reqs.size(), sc.close_idx);
    for (size_t i = 0; i < sc.cuts.size() && i < 40; ++i) s += vh::fmt("%s%zu(+%dp)", i ? "," : "", sc.cuts[i], sc.passes_after[i]);
    s += "] plans{" + plan_str(w) + "}";
    if (sc.rcvbuf) s += vh::fmt(" rcvbuf=%d", sc.rcvbuf);
    if (sc.srv_sndbuf) s += vh::fmt(" srv_sndbuf=%d", sc.srv_sndbuf);
    if (sc.read_limit != (size_t)-1) s += vh::fmt(" read_limit=%zu", sc.read_limit);
    return s;
}

void run_script(const Script &sc, vh::Rng &r, vh::Sig &sig, const char *mode) {
    World w;
    w.rng = &r;
    g_w = &w;
    w.reqs = sc.reqs;
    w.plans = sc.plans;
    w.close_idx = sc.close_idx;
    g_read_limit = sc.read_limit;
    w.max_deliveries = sc.reqs.size();
    std::string stream;
    for (auto &t : sc.reqs) stream += t.wire;
    sig.add(stream);
    for (size_t c : sc.cuts) sig.add(c);
    for (auto &p : sc.plans) { sig.add((uint64_t)p.stage * 1000003 + (uint64_t)p.delay * 1009 + (uint64_t)p.rank * 31 + (uint64_t)p.next_delay); sig.add(p.body); }
    sig.add((uint64_t)sc.close_idx + 7);

    if (!setup(w)) { vh::counter("env_setup_failed"); g_w = nullptr; return; }
    if (sc.log_ctx) w.srv->setContextLogEnable(true);
    if (sc.srv_sndbuf) shrink_server_sndbuf(w, sc.srv_sndbuf);
    if (!client_connect(w, sc.rcvbuf)) { vh::counter("env_setup_failed"); teardown(w, false); g_w = nullptr; return; }
    vh::st().case_desc = script_str(sc, w) + " stream=" + printable(stream, 900);
    one_pass(w);

    const int n = (int)sc.reqs.size();
    const int expect_n = sc.close_idx >= 0 ? sc.close_idx + 1 : n;       // requests that must be answered
    std::vector<std::string> segs = split_at(stream, sc.cuts);
    // effective cuts: segment boundaries the server really saw (at least one pass between the two writes)
    Cuts effective;
    bool sending_ok = true;
    for (size_t i = 0; i < segs.size() && sending_ok && !w.poisoned; ++i) {
        if (!client_write(w, segs[i])) { sending_ok = false; break; }
        int np = i < sc.passes_after.size() ? sc.passes_after[i] : 1;
        if (i + 1 < segs.size() && np > 0) effective.push_back(sc.cuts[i]);
        for (int k = 0; k < np && !w.poisoned; ++k) one_pass(w);
    }
    // drain: until everything expected has happened, or nothing has happened for a long stretch of passes
    auto done = [&]() {
        if (!w.pending.empty()) return false;
        if ((int)w.responses.size() < expect_n) return false;
        if (sc.close_idx >= 0 && !(w.eof || w.reset)) return false;
        return true;
    };
    // Idle = passes without any byte received, request delivered or handler completed, while no handler is pending (waiting for our
    // own script is not idleness). After 40 idle passes the outcome is final if the client has seen EOF/reset (nothing can follow),
    // or once the kernel is provably quiescent on 5 consecutive passes with the server's end still open (both send queues
    // acknowledged, both receive queues read: whatever the server wrote has arrived). While packets are still in flight - the
    // kernel may defer loopback delivery under load - the harness keeps passing and waiting (up to 3 s); if that never settles the
    // case is left unjudged (counted), never reported.
    uint64_t idle_from = w.pass_no;
    const uint64_t idle_limit = 40;
    size_t last_rx = w.rx.size();
    size_t last_completed = w.completed.size();
    size_t last_delivered = w.delivered.size();
    int quiet = 0, settle_rounds = 0;
    while (!w.poisoned && !done()) {
        one_pass(w);
        if (w.rx.size() != last_rx || w.completed.size() != last_completed || w.delivered.size() != last_delivered || !w.pending.empty()) {
            last_rx = w.rx.size(); last_completed = w.completed.size(); last_delivered = w.delivered.size(); idle_from = w.pass_no;
            quiet = 0;
            continue;
        }
        if (w.pass_no - idle_from <= idle_limit) continue;
        if (w.eof || w.reset) break;                    // final: nothing can arrive after the end of the stream
        bool server_end_open = false;
        if (kernel_quiescent(w, &server_end_open) && server_end_open) {
            if (++quiet >= 5) { vh::counter("srv_verdict_after_kernel_quiescence"); break; }
            continue;
        }
        quiet = 0;
        if (++settle_rounds > 600) { w.unjudged = true; break; }
        struct pollfd p = {w.cfd, POLLIN, 0};
        poll(&p, 1, 5);
    }
    // a few more passes: anything written after the end would show up now
    for (int i = 0; i < 25 && !w.poisoned; ++i) one_pass(w);
    g_read_limit = (size_t)-1;
    client_read(w);

    // ------------------------------------------------------------ verdicts
    auto where = [&]() { return vh::fmt("delivered=%zu completed=%zu responses=%zu rx_bytes=%zu (parsed %zu) eof=%d reset=%d passes=%llu", w.delivered.size(),
                                        w.completed.size(), w.responses.size(), w.rx.size(), w.rx_parsed, (int)w.eof, (int)w.reset, (unsigned long long)w.pass_no); };
    const bool close_seen_by_server = sc.close_idx >= 0 && (int)w.delivered.size() > sc.close_idx;
    const char *phase = close_seen_by_server ? "after-closing-request-received" : "keep-alive";

    if (!w.redelivery.empty()) {
        vh::viol("pipeline/request-invented", (w.redelivery.compare(0, 15, "more-than-once|") == 0 ? w.redelivery.substr(15) : w.redelivery) + "; " + where());
    } else if (!w.exc.empty()) {
        vh::viol("pipeline/exception-out-of-runloop/" + w.exc, "well-formed pipeline: " + where());
    } else if (w.unjudged) {
        vh::counter("env_unjudged_kernel_not_quiescent");
    } else {
        // 1. requests as handed to the handlers
        bool deliv_ok = true;
        for (size_t k = 0; k < w.delivered.size() && deliv_ok; ++k) {
            if ((int)k >= n) { vh::viol("pipeline/request-invented", vh::fmt("%zu requests handed to the handler, %d sent; ", w.delivered.size(), n) + where()); deliv_ok = false; break; }
            if (sc.close_idx >= 0 && (int)k > sc.close_idx) {
                bool answered = false;
                for (auto &rs : w.responses) if (rs.xord == (long)k) answered = true;
                vh::viol("pipeline/request-behind-closing-request-handled",
                         vh::fmt("request %zu was handed to the handler although request %d had asked for the connection to be closed (its response was %s); ", k,
                                 sc.close_idx, answered ? "written after the closing response" : "never written") + where());
                deliv_ok = false;
                break;
            }
            if (w.delivered[k].canon != canon(sc.reqs[k])) {
                vh::viol("pipeline/delivered-request-differs", vh::fmt("request %zu handed over as {%s}, sent as {%s}; ", k, brief(w.delivered[k].canon).c_str(),
                                                                      brief(canon(sc.reqs[k])).c_str()) + where());
                deliv_ok = false;
            }
        }
        if (deliv_ok && (int)w.delivered.size() < expect_n) {
            std::string shape = "other";
            // the first request that never arrived: did an effective segment boundary fall inside its method?
            size_t base = 0;
            for (int i = 0; i < (int)w.delivered.size(); ++i) base += sc.reqs[i].wire.size();
            for (size_t c : effective) if (c > base && c < base + sc.reqs[w.delivered.size()].method_len) shape = "segment-ended-inside-method";
            vh::viol("pipeline/request-not-delivered/" + shape, vh::fmt("request %zu of %d never reached the handler; ", w.delivered.size(), expect_n) + where());
            deliv_ok = false;
        }
        // 2. responses: exactly once, in request order, complete, nothing behind the closing one
        bool resp_ok = true;
        if (w.rx_malformed) { vh::viol("pipeline/response-malformed", "bytes from the server do not parse as a response at offset " + std::to_string(w.rx_parsed) + ": '" + printable(w.rx.substr(w.rx_parsed, 80)) + "'; " + where()); resp_ok = false; }
        for (size_t i = 0; i < w.responses.size() && resp_ok; ++i) {
            const Response &rs = w.responses[i];
            if ((int)i >= expect_n) {
                vh::viol("pipeline/bytes-after-closing-response", vh::fmt("response with X-Ord %ld was written after the response to closing request %d; ", rs.xord, sc.close_idx) + where());
                resp_ok = false; break;
            }
            if (rs.xord != (long)i) {
                bool dup = false;
                for (size_t j = 0; j < i; ++j) if (w.responses[j].xord == rs.xord) dup = true;
                vh::viol(dup ? "pipeline/response-duplicated" : "pipeline/response-out-of-order",
                         vh::fmt("response %zu on the wire carries X-Ord %ld; ", i, rs.xord) + where());
                resp_ok = false; break;
            }
            if (rs.status != 200 || rs.body != response_body((int)i, w.plan_for((int)i).body)) {
                vh::viol("pipeline/response-content-differs", vh::fmt("response %zu: status %d, body of %zu bytes (handler wrote %zu); ", i, rs.status, rs.body.size(),
                                                                     w.plan_for((int)i).body) + where());
                resp_ok = false; break;
            }
        }
        if (resp_ok && (int)w.responses.size() >= expect_n && w.rx.size() > w.rx_parsed) {
            vh::viol(sc.close_idx >= 0 ? "pipeline/bytes-after-closing-response" : "pipeline/bytes-after-last-response",
                     vh::fmt("%zu stray bytes after the last expected response: '%s'; ", w.rx.size() - w.rx_parsed, printable(w.rx.substr(w.rx_parsed, 60)).c_str()) + where());
            resp_ok = false;
        }
        if (resp_ok && deliv_ok && (int)w.responses.size() < expect_n) {
            // every handler has completed (pending is empty) and the loop has been idle: the response is not coming
            size_t missing = w.responses.size();
            bool handler_done = std::find(w.completed.begin(), w.completed.end(), (int)missing) != w.completed.end();
            if (!w.pending.empty() || !handler_done)
                vh::viol("harness/handlers-not-finished", where());
            else if (w.rx.size() > w.rx_parsed)
                vh::viol(std::string("pipeline/response-truncated/") + phase,
                         vh::fmt("response %zu arrived only partially (%zu bytes of it), then %s; ", missing, w.rx.size() - w.rx_parsed,
                                 (w.eof || w.reset) ? "the connection was closed" : "nothing more") + where());
            else
                vh::viol(std::string("pipeline/response-lost/") + phase,
                         vh::fmt("the handler of request %zu completed at pass %llu but its response never appeared on the connection (%s); ", missing,
                                 (unsigned long long)w.completed_pass[std::find(w.completed.begin(), w.completed.end(), (int)missing) - w.completed.begin()],
                                 (w.eof || w.reset) ? "connection closed by the server" : "connection still open") + where());
            resp_ok = false;
        }
        // 3. closure
        if (resp_ok && deliv_ok && sc.close_idx >= 0 && !(w.eof || w.reset))
            vh::viol("pipeline/not-closed-after-closing-response", "the closing response arrived but the connection stayed open: 40 idle passes, then nothing in flight in the kernel on 5 consecutive passes; " + where());
        if (resp_ok && deliv_ok && sc.close_idx >= 0 && (w.eof || w.reset)) vh::counter(w.eof ? "srv_eof_after_closing_response" : "srv_reset_after_closing_response");
        if (resp_ok && deliv_ok && sc.close_idx < 0 && !(w.eof || w.reset)) vh::counter("srv_connection_kept_open_without_close");
    }

    // ------------------------------------------------------------ coverage
    bool nontrivial = false;
    {
        // responses that had to wait for an earlier one (parked), and flushes of several at once
        std::vector<bool> seen(n + 8, false);
        int parked_now = 0, max_parked = 0;
        size_t next_turn = 0;
        for (int k : w.completed) {
            if (k < 0 || k >= (int)seen.size()) continue;
            seen[k] = true;
            if ((size_t)k == next_turn) {
                size_t before = next_turn;
                while (next_turn < seen.size() && seen[next_turn]) ++next_turn;
                if (next_turn - before > 1) { vh::counter("srv_parked_responses_flushed", next_turn - before - 1); nontrivial = true; }
                parked_now -= (int)(next_turn - before - 1);
            } else { ++parked_now; max_parked = std::max(max_parked, parked_now); vh::counter("srv_response_parked"); }
        }
        vh::counter_max("max_parked_responses", (uint64_t)max_parked);
        if (sc.close_idx >= 0) {
            vh::counter("srv_pipelines_with_closing_request");
            if (sc.reqs[sc.close_idx].closing_by_ver) vh::counter("srv_closing_by_http10_default"); else vh::counter("srv_closing_by_connection_header");
            if (sc.close_idx < n - 1) vh::counter("srv_requests_behind_closing_request", (uint64_t)(n - 1 - sc.close_idx));
            if (sc.close_idx < (int)sc.plans.size() && (sc.plans[sc.close_idx].delay > 0 || sc.plans[sc.close_idx].stage == 2)) { vh::counter("srv_closing_request_answered_late"); nontrivial = true; }
        } else vh::counter("srv_pipelines_keep_alive");
        for (size_t c : effective) vh::counter(std::string("srv_cut_") + locate(sc.reqs, c).what);
        vh::counter("srv_segments_written", segs.size());
        for (int i = 0; i < n; ++i) {
            if (sc.reqs[i].ver == 10 && !sc.reqs[i].closing) vh::counter("srv_http10_keep_alive_request");
            if (sc.plans[i].body >= 100000) vh::counter("srv_large_response");
        }
        for (size_t i = 0; i < w.responses.size() && i < w.completed.size(); ++i) {
            auto it = std::find(w.completed.begin(), w.completed.end(), (int)i);
            if (it != w.completed.end() && w.responses[i].at_pass > w.completed_pass[it - w.completed.begin()] + 1 && w.plan_for((int)i).body >= 100000)
                vh::counter("srv_large_response_spanned_passes");
        }
        vh::counter("srv_responses_received", w.responses.size());
        vh::counter_max("max_pipeline_depth", (uint64_t)n);
    }
    if (vh::st().args.first == 0 && vh::want_sample(1) && n >= 3) {
        std::string order;
        for (int k : w.completed) order += (order.empty() ? "" : ",") + std::to_string(k);
        std::string wire;
        for (auto &rs : w.responses) wire += (wire.empty() ? "" : ",") + std::to_string(rs.xord);
        vh::sample("{\"mode\":" + vh::jstr(mode) + ",\"script\":" + vh::jstr(script_str(sc, w)) + ",\"completion_order\":" + vh::jstr(order) +
                   ",\"responses_on_wire\":" + vh::jstr(wire) + ",\"eof\":" + (w.eof ? "true" : "false") + ",\"passes\":" + std::to_string(w.pass_no) + "}", 1);
    }
    teardown(w, false);
    g_w = nullptr;
    vh::note_case(sig.h, nontrivial || n >= 2);
}

size_t pick_body(vh::Rng &r, bool large) {
    static const size_t sizes[] = {0, 0, 1, 8, 10, 64, 100, 1000, 1023, 1024, 5000, 20000};
    if (large) return (size_t)r.range(150000, 900000);
    return sizes[r.below(sizeof sizes / sizeof sizes[0])];
}

void case_pipeline(vh::Rng &r) {
    Script sc;
    int n = (int)r.range(1, 8);
    bool has_close = r.chance(3, 5);
    sc.close_idx = has_close ? (r.chance(1, 2) ? n - 1 : (int)r.below((uint64_t)n)) : -1;
    GenOpts o;
    o.max_body = r.chance(1, 6) ? 3000 : 60;
    o.big_body_1_in = r.chance(1, 10) ? 4 : 0;
    for (int i = 0; i < n; ++i) sc.reqs.push_back(gen_request(r, i, o, i == sc.close_idx ? 1 : 0));
    // requests behind a closing request: keep every response small, so that what the kernel does with a connection
    // closed while the peer is still talking (reset, send queue dropped) cannot be mistaken for a server defect
    bool talks_after_close = sc.close_idx >= 0 && sc.close_idx < n - 1;
    bool large = !talks_after_close && r.chance(1, 8);
    int large_at = large ? ((sc.close_idx >= 0 && r.chance(1, 2)) ? sc.close_idx : (int)r.below((uint64_t)n)) : -1;
    // completion script: a permutation decides the order, the spread decides how many passes apart
    int style = (int)r.below(5);       // 0 all inside the callback, 1 all late, 2..4 mixed
    for (int i = 0; i < n; ++i) {
        Plan p;
        p.stage = (int)r.below(3);
        if (p.stage == 2) p.next_delay = (int)r.range(1, 6);
        bool in_cb = style == 0 ? true : style == 1 ? false : r.chance(1, 2);
        p.delay = in_cb ? 0 : (int)(r.chance(1, 3) ? r.range(1, 2) : r.range(1, 20));
        p.rank = (int)r.below(1000);
        p.body = pick_body(r, false);
        if (i == large_at) p.body = pick_body(r, true);
        sc.plans.push_back(p);
    }
    size_t L = 0;
    for (auto &t : sc.reqs) L += t.wire.size();
    // segmentation
    unsigned seg_style = (unsigned)r.below(10);
    if (seg_style == 0) {
        // one segment
    } else if (seg_style == 1 && L <= 700) {
        for (size_t p = 1; p < L; ++p) sc.cuts.push_back(p);           // byte by byte
    } else {
        sc.cuts = random_cuts(r, L, (size_t)r.range(1, 7));
        if (r.chance(1, 2)) {
            size_t ri = r.below((uint64_t)n), base = 0;
            for (size_t i = 0; i < ri; ++i) base += sc.reqs[i].wire.size();
            const Truth &t = sc.reqs[ri];
            size_t marks[] = {base + 1, base + t.method_len - 1, base + t.method_len, base + t.line_end + 1, base + t.head_end - 1, base + t.head_end,
                              base + t.wire.size(), base + t.wire.size() - 1, base + t.cl_value_off + 1, base + 2};
            for (int q = 0; q < 2; ++q) { size_t m = marks[r.below(sizeof marks / sizeof marks[0])]; if (m > 0 && m < L) sc.cuts.push_back(m); }
            std::sort(sc.cuts.begin(), sc.cuts.end());
            sc.cuts.erase(std::unique(sc.cuts.begin(), sc.cuts.end()), sc.cuts.end());
        }
    }
    for (size_t i = 0; i <= sc.cuts.size(); ++i) {
        unsigned q = (unsigned)r.below(10);
        sc.passes_after.push_back(q == 0 ? 0 : q < 8 ? 1 : (int)r.range(2, 5));
    }
    if (large) {
        if (sc.rcvbuf == 0 && r.chance(2, 3)) sc.rcvbuf = 4096;
        if (r.chance(3, 4)) sc.srv_sndbuf = 8192;
        if (r.chance(1, 2)) sc.read_limit = (size_t)r.range(2000, 60000);
    }
    sc.log_ctx = r.chance(1, 10);
    vh::Sig sig;
    run_script(sc, r, sig, "pipeline");
}

//! exhaustive sub-space, decoded from the case index
bool case_order(uint64_t idx, vh::Rng &r) {
    // layout: n=1: 1!*2^1*2*2 = 8 ; n=2: 2*4*3*2 = 48 ; n=3: 6*8*4*2 = 384 ; n=4: 24*16*5*2 = 3840  => 4280
    static const int fact[] = {1, 1, 2, 6, 24};
    int n = 0;
    uint64_t rem = idx;
    for (n = 1; n <= 4; ++n) {
        uint64_t sz = (uint64_t)fact[n] * (1u << n) * (uint64_t)(n + 1) * 2;
        if (rem < sz) break;
        rem -= sz;
    }
    if (n > 4) return false;
    int together = (int)(rem % 2); rem /= 2;
    int close_opt = (int)(rem % (uint64_t)(n + 1)); rem /= (uint64_t)(n + 1);
    unsigned mask = (unsigned)(rem % (1u << n)); rem /= (1u << n);
    int perm_idx = (int)rem;
    std::vector<int> items, perm;
    for (int i = 0; i < n; ++i) items.push_back(i);
    for (int i = n; i >= 1; --i) { int f = fact[i - 1]; int q = perm_idx / f; perm_idx %= f; perm.push_back(items[q]); items.erase(items.begin() + q); }
    // perm[j] = request completed j-th among the late ones
    Script sc;
    sc.close_idx = close_opt == n ? -1 : close_opt;
    GenOpts o; o.max_body = 12;
    for (int i = 0; i < n; ++i) sc.reqs.push_back(gen_request(r, i, o, i == sc.close_idx ? 1 : 0));
    sc.plans.resize(n);
    int late_rank = 0;
    for (int j = 0; j < n; ++j) {
        int i = perm[j];
        Plan &p = sc.plans[i];
        p.stage = (int)((idx + (uint64_t)i) % 3);
        p.next_delay = 1;
        p.body = 10 + (size_t)i;
        if (mask & (1u << i)) { p.delay = 0; }
        else { ++late_rank; p.delay = together ? 3 : 1 + late_rank * 2; p.rank = late_rank; if (p.stage == 2) p.delay = together ? 2 : p.delay; }
    }
    // stage 2 adds one pass before the second stage starts: keep the intended order by giving every late request the same shape
    for (auto &p : sc.plans) if (p.stage == 2 && p.delay > 0) p.stage = 1;
    sc.passes_after.push_back(1);
    vh::Sig sig;
    sig.add(idx);
    run_script(sc, r, sig, "order");
    vh::counter("order_cases");
    return true;
}

// ------------------------------------------------------------------ live (hostile)

void case_live(vh::Rng &r) {
    World w;
    w.rng = &r;
    w.judged = false;
    g_w = &w;
    g_read_limit = (size_t)-1;
    // bytes: 0..2 valid requests, then something hostile, then maybe valid again
    std::string what, bytes;
    GenOpts o; o.max_body = 40;
    int lead = (int)r.range(0, 2);
    for (int i = 0; i < lead; ++i) bytes += gen_request(r, i, o, r.chance(1, 6) ? 1 : 0).wire;
    if (r.chance(1, 8)) {
        std::string cls; bool tail = false;
        bytes += boundary_length_stream(r, lead, &what, &cls, &tail);
        vh::counter("live_cl_" + cls);
        vh::counter(tail ? "live_cl_boundary_with_bytes_following" : "live_cl_boundary_without_body");
    } else if (r.chance(3, 5)) {
        std::vector<Truth> v;
        int m = (int)r.range(1, 3);
        for (int i = 0; i < m; ++i) v.push_back(gen_request(r, lead + i, o, r.chance(1, 5) ? 1 : 0));
        bytes += mutate(r, v, &what);
    } else bytes += garbage(r, &what);
    if (r.chance(1, 3)) bytes += gen_request(r, 9, o, 0).wire;
    if (what.find("content-length=") != std::string::npos) vh::counter("live_content_length_value_mutated");
    Cuts cuts = r.chance(1, 5) ? Cuts() : random_cuts(r, bytes.size(), (size_t)r.range(1, 8));
    std::vector<std::string> segs = split_at(bytes, cuts);
    int leave_after = r.chance(1, 3) ? (int)r.below(segs.size() + 1) : -1;      // the client goes away after this many segments
    bool leave_rst = r.chance(1, 2);
    bool after_cleanup = r.chance(1, 4);
    vh::Sig sig; sig.add(bytes); for (size_t c : cuts) sig.add(c); sig.add((uint64_t)leave_after + 3);
    vh::st().case_desc = vh::fmt("%s leave_after=%d%s cuts=%zu bytes(%zu)=%s", what.c_str(), leave_after, leave_rst ? "(rst)" : "", cuts.size(), bytes.size(), printable(bytes, 900).c_str());

    if (!setup(w)) { vh::counter("env_setup_failed"); g_w = nullptr; return; }
    if (r.chance(1, 2)) w.srv->setContextLogEnable(true);
    if (!client_connect(w, 0)) { vh::counter("env_setup_failed"); teardown(w, false); g_w = nullptr; return; }
    one_pass(w);
    bool left = false;
    for (size_t i = 0; i < segs.size() && !w.poisoned; ++i) {
        if ((int)i == leave_after) {
            client_close(w, leave_rst); left = true;
            vh::counter(leave_rst ? "live_client_reset_mid_stream" : "live_client_closed_mid_stream");
            if (!w.pending.empty()) vh::counter("live_handlers_pending_when_client_left");
            break;
        }
        if (!client_write(w, segs[i])) break;
        int np = (int)r.range(0, 2);
        for (int k = 0; k < np && !w.poisoned; ++k) one_pass(w);
    }
    if (!left && leave_after == (int)segs.size()) {
        client_close(w, leave_rst); vh::counter("live_client_closed_at_end");
        if (!w.pending.empty()) vh::counter("live_handlers_pending_when_client_left");
    }
    for (int i = 0; i < 30 && !w.poisoned; ++i) one_pass(w);
    if (!w.delivered.empty()) vh::counter("live_requests_reached_handler", w.delivered.size());
    if (w.eof || w.reset) vh::counter("live_server_dropped_connection");
    if (!w.responses.empty()) vh::counter("live_responses_received", w.responses.size());
    vh::counter("live_cases");
    if (!w.redelivery.empty()) {
        bool same = w.redelivery.compare(0, 15, "more-than-once|") == 0;
        vh::viol(same ? "live/request-delivered-more-than-once" : "live/more-requests-delivered-than-sent", same ? w.redelivery.substr(15) : w.redelivery);
    } else if (!w.short_body.empty())
        vh::viol("live/delivered-body-differs-from-declared-length", w.short_body);
    else if (!w.exc.empty())
        vh::viol("live/exception-out-of-runloop/" + w.exc, vh::fmt("after %llu passes, %zu requests delivered", (unsigned long long)w.pass_no, w.delivered.size()));
    if (vh::st().args.first == 0 && vh::want_sample(1)) vh::sample("{\"mode\":\"live\",\"edits\":" + vh::jstr(what) + ",\"bytes\":" + vh::jstr(bytes.substr(0, 200)) + ",\"delivered\":" +
                                       std::to_string(w.delivered.size()) + ",\"responses\":" + std::to_string(w.responses.size()) + "}", 1);
    teardown(w, after_cleanup);
    g_w = nullptr;
    vh::note_case(sig.h, bytes.size() > 8);
}

}  // namespace

// Only fatal log lines (the text of a failed TBOX_ASSERT) are passed on, to stderr, so that an assertion abort is a named crash datum.
static void fatal_log_sink(const LogContent *c, void *) {
    if (c->level != LOG_LEVEL_FATAL || c->text_ptr == nullptr) return;
    if (write(2, c->text_ptr, c->text_len) < 0 || write(2, "\n", 1) < 0) {}
}

int main(int argc, char **argv) {
    signal(SIGPIPE, SIG_IGN);
    LogAddPrintfFunc(fatal_log_sink, nullptr);
    return vh::run(argc, argv, [](uint64_t idx, vh::Rng &r) {
        const std::string &m = vh::st().args.mode;
        if (m == "pipeline") case_pipeline(r);
        else if (m == "order") case_order(idx, r);
        else case_live(r);
    });
}
