// C13, thorough tier only: coverage-guided exploration (libFuzzer + ASan + UBSan, pooled sessions poisoned) of the
// byte-level entry points of the terminal shell. No reference model here - only what must hold for every input:
// no crash / sanitizer report / uncaught exception / endless output, onRecvString answers true exactly for live
// sessions, nothing is sent to a session that was torn down, and the shell still executes a command afterwards.
//
// Two targets, chosen by the first input byte:
//   direct  Terminal::onRecvString on a Terminal with a cyclic / partly deleted node tree; the input is cut into
//           length-prefixed segments, a loop pass follows a segment when the prefix is odd;
//   telnet  the same bytes written by a client socket to Telnetd listening on a unix-domain socket (IAC parser,
//           session teardown through the TCP front end), client leaves by close / half-close chosen by the input.
//
// Framing as in c19_fuzz.cpp: one *case* is one bounded libFuzzer session (`-seed=f(S,i) -runs=R`, no corpus,
// a fixed dictionary) in a forked child, so case i is reproducible alone with `--first i --count 1`.
#include "common/vh.hpp"

#include <tbox/event/loop.h>
#include <tbox/terminal/terminal.h>
#include <tbox/terminal/session.h>
#include <tbox/terminal/connection.h>
#include <tbox/terminal/service/telnetd.h>

#include <cxxabi.h>
#include <typeinfo>
#include <exception>
#include <signal.h>
#include <errno.h>
#include <sys/mman.h>
#include <sys/wait.h>
#include <sys/socket.h>
#include <sys/un.h>

using namespace tbox::terminal;
using tbox::event::Loop;

namespace {

struct Shared {           // counters shared between the session children and the framing parent
    uint64_t execs_direct, execs_telnet, segments, bytes, loop_passes;
    uint64_t sessions_ended_by_exit, probe_calls, tree_listings, cycle_markers, deleted_markers, error_replies;
    uint64_t inputs_with_iac, inputs_with_escape, liveness_ok;
};
Shared *g_sh = nullptr;

[[noreturn]] void fatal(const char *what) {
    fprintf(stderr, "VH-FATAL: c13-fuzz-%s\n", what);
    abort();
}

std::string current_exception_name() {
    const std::type_info *t = abi::__cxa_current_exception_type();
    if (!t) return "unknown";
    int status = 0;
    char *d = abi::__cxa_demangle(t->name(), nullptr, nullptr, &status);
    std::string r = (status == 0 && d) ? d : t->name();
    free(d);
    return r;
}

struct RunawayOutput {};
const uint64_t kMaxSendsPerDelivery = 1000000;

struct Conn : public Connection {
    std::set<SessionToken> live, ended;
    uint64_t delivery_sends = 0, sends_to_dead = 0;
    bool rec(const SessionToken &st, const char *p, size_t n) {
        if (++delivery_sends > kMaxSendsPerDelivery) throw RunawayOutput();
        if (!live.count(st)) { ++sends_to_dead; return false; }
        std::string s(p, n);
        if (s.find("|-- ") != std::string::npos || s.find("`-- ") != std::string::npos) ++g_sh->tree_listings;
        if (s.find("(R)") != std::string::npos) ++g_sh->cycle_markers;
        if (s.find("(X)") != std::string::npos) ++g_sh->deleted_markers;
        if (s.compare(0, 5, "Error") == 0) ++g_sh->error_replies;
        return true;
    }
    bool send(const SessionToken &st, char ch) override { return rec(st, &ch, 1); }
    bool send(const SessionToken &st, const std::string &s) override { return rec(st, s.data(), s.size()); }
    bool endSession(const SessionToken &st) override { if (!live.count(st)) return false; ended.insert(st); return true; }
    bool isValid(const SessionToken &st) const override { return live.count(st) && !ended.count(st); }
};

struct World {
    Loop *loop = nullptr;
    Terminal *term = nullptr;
    Conn conn;
    Telnetd *telnetd = nullptr;
    std::string path;
    uint64_t probe_calls = 0;
    std::string last_probe;

    void pump(int n) {
        for (int i = 0; i < n; ++i) {
            loop->runNext([] {});
            loop->runLoop(Loop::Mode::kOnce);
            ++g_sh->loop_passes;
        }
    }

    void build() {
        loop = Loop::New();
        term = new Terminal(loop);
        Func probe = [this](const Session &s, const Args &a) {
            ++probe_calls; ++g_sh->probe_calls;
            last_probe.clear();
            for (auto &x : a) { last_probe += x; last_probe += '\x1f'; }
            s.send("<probe>\r\n");
        };
        NodeToken root = term->rootNode();
        NodeToken p = term->createFuncNode(probe, "probe p");
        NodeToken q = term->createFuncNode(probe, "probe q");
        NodeToken gone_f = term->createFuncNode(probe, "deleted func");
        NodeToken a = term->createDirNode("dir a");
        NodeToken b = term->createDirNode("dir b");
        NodeToken c = term->createDirNode("dir c");
        NodeToken gone_d = term->createDirNode("deleted dir");
        term->mountNode(root, p, "p");
        term->mountNode(root, a, "a");
        term->mountNode(root, gone_f, "x");
        term->mountNode(root, gone_d, "y");
        term->mountNode(a, b, "b");
        term->mountNode(a, q, "q");
        term->mountNode(a, a, "self");
        term->mountNode(b, a, "a");          // a <-> b
        term->mountNode(b, root, "root");    // back to the root
        term->mountNode(b, c, "c");
        term->mountNode(c, c, "c");
        term->mountNode(c, gone_d, "y");
        term->mountNode(c, p, std::string(120, 'n'));
        term->mountNode(gone_d, p, "p");
        term->deleteNode(gone_f);
        term->deleteNode(gone_d);
        // Telnetd on a unix-domain socket private to this process
        std::string dir = vh::st().args.out.empty() ? std::string("/var/tmp") : vh::st().args.out;
        path = dir + "/c13f_" + std::to_string((long)getpid()) + ".sock";
        if (path.size() >= sizeof(((struct sockaddr_un *)0)->sun_path)) path = "/var/tmp/c13f_" + std::to_string((long)getpid()) + ".sock";
        telnetd = new Telnetd(loop, term);
        if (!telnetd->initialize(path) || !telnetd->start()) fatal("telnetd-start");
    }
};

World *g_w = nullptr;

void report_exception(const char *where, const std::string &input_hex) {
    vh::viol(std::string("uncaught-exception/") + current_exception_name() + "@" + where, "fuzz input " + input_hex);
}

//! cut the body into length-prefixed segments
struct Seg { std::string bytes; bool pump; };
std::vector<Seg> segments(const uint8_t *d, size_t n) {
    std::vector<Seg> v;
    size_t i = 0;
    while (i < n) {
        size_t len = d[i++];
        Seg s;
        s.pump = (len & 1) != 0;
        len = (len >> 1) % 64;
        if (len > n - i) len = n - i;
        s.bytes.assign((const char *)d + i, len);
        i += len;
        v.push_back(s);
    }
    return v;
}

void t_direct(uint8_t sel, const std::vector<Seg> &segs, const std::string &hexin) {
    World &w = *g_w;
    SessionToken st = w.term->newSession(&w.conn);
    w.conn.live.insert(st);
    w.term->setOptions(st, (sel >> 1) & 3);
    w.term->onBegin(st);
    bool dead = false;
    for (auto &s : segs) {
        ++g_sh->segments; g_sh->bytes += s.bytes.size();
        w.conn.delivery_sends = 0;
        bool r = false;
        try { r = w.term->onRecvString(st, s.bytes); }
        catch (const RunawayOutput &) { vh::viol("hang/runaway-output-in-one-delivery", "fuzz input " + hexin); fflush(stdout); _exit(0); }
        catch (...) { report_exception("onRecvString", hexin); r = !dead; }     // the shell object is intact: keep going
        if (r == dead) vh::viol(dead ? "fuzz/onRecvString/true-for-dead-session" : "fuzz/onRecvString/false-for-live-session", "fuzz input " + hexin);
        if (s.pump) {
            try { w.pump(1); } catch (...) { report_exception("runLoop", hexin); fflush(stdout); _exit(0); }
            if (!dead && w.conn.ended.count(st)) { dead = true; w.conn.live.erase(st); ++g_sh->sessions_ended_by_exit; }
        }
    }
    try { w.pump(2); } catch (...) { report_exception("runLoop", hexin); fflush(stdout); _exit(0); }
    if (!dead && w.conn.ended.count(st)) { dead = true; w.conn.live.erase(st); ++g_sh->sessions_ended_by_exit; }
    if (!dead) { w.term->deleteSession(st); w.conn.live.erase(st); }
    w.conn.ended.erase(st);
    if (w.conn.sends_to_dead) { vh::viol("fuzz/send-after-session-end", "fuzz input " + hexin); w.conn.sends_to_dead = 0; }
}

int connect_unix(const std::string &path) {
    int fd = ::socket(AF_UNIX, SOCK_STREAM | SOCK_NONBLOCK, 0);
    if (fd < 0) return -1;
    struct sockaddr_un u;
    memset(&u, 0, sizeof u);
    u.sun_family = AF_UNIX;
    memcpy(u.sun_path, path.data(), path.size());
    if (::connect(fd, (struct sockaddr *)&u, sizeof u) != 0) { ::close(fd); return -1; }
    return fd;
}

void drain(int fd, std::string *keep = nullptr) {
    char b[4096];
    for (;;) {
        ssize_t n = ::recv(fd, b, sizeof b, MSG_DONTWAIT);
        if (n <= 0) break;
        if (keep && keep->size() < 65536) keep->append(b, (size_t)n);
    }
}

void t_telnet(uint8_t sel, const std::vector<Seg> &segs, const std::string &hexin) {
    World &w = *g_w;
    int fd = connect_unix(w.path);
    if (fd < 0) fatal("connect");
    try {
        w.pump(2);
        drain(fd);
        for (auto &s : segs) {
            ++g_sh->segments; g_sh->bytes += s.bytes.size();
            if (!s.bytes.empty() && ::send(fd, s.bytes.data(), s.bytes.size(), MSG_NOSIGNAL | MSG_DONTWAIT) < 0 && errno != EAGAIN) break;   // server closed on us (exit)
            if (s.pump) { w.pump(1); drain(fd); }
        }
        w.pump(1);
        drain(fd);
        if (sel & 2) ::shutdown(fd, SHUT_WR);
        if (sel & 4) { w.pump(1); drain(fd); }
        ::close(fd);
        w.pump(3);
    } catch (...) { report_exception("runLoop", hexin); fflush(stdout); _exit(0); }
}

//! the shell still works: a fresh telnet client's command reaches the probe with exactly its tokens
void liveness(const std::string &hexin) {
    World &w = *g_w;
    int fd = connect_unix(w.path);
    if (fd < 0) fatal("connect");
    uint64_t before = w.probe_calls;
    std::string rx;
    try {
        w.pump(2);
        const char cmd[] = "/p 42 'x y'\r\n";
        if (::send(fd, cmd, sizeof cmd - 1, MSG_NOSIGNAL) < 0) fatal("liveness-send");
        for (int i = 0; i < 6 && w.probe_calls == before; ++i) { w.pump(1); drain(fd, &rx); }
        ::close(fd);
        w.pump(3);
    } catch (...) { report_exception("runLoop", hexin); fflush(stdout); _exit(0); }
    if (w.probe_calls != before + 1 || w.last_probe != std::string("/p\x1f") + "42\x1f" + "x y\x1f")
        vh::viol("fuzz/liveness/probe-not-executed-after-traffic", "last fuzz input " + hexin);
    else ++g_sh->liveness_ok;
}

}  // namespace

extern "C" int LLVMFuzzerTestOneInput(const uint8_t *data, size_t size) {
    if (size < 1 || !g_sh) return 0;
    if (!g_w) { g_w = new World; g_w->build(); }
    uint8_t sel = data[0];
    bool telnet = (sel & 1) != 0;
    std::vector<Seg> segs = segments(data + 1, size - 1);
    std::string hexin = vh::hex(data, size > 300 ? 300 : size);
    vh::st().case_desc = std::string(telnet ? "fuzz telnet " : "fuzz direct ") + hexin;
    for (size_t i = 1; i < size; ++i) if (data[i] == 0xff) { ++g_sh->inputs_with_iac; break; }
    for (size_t i = 1; i < size; ++i) if (data[i] == 0x1b) { ++g_sh->inputs_with_escape; break; }
    if (telnet) { ++g_sh->execs_telnet; t_telnet(sel, segs, hexin); }
    else { ++g_sh->execs_direct; t_direct(sel, segs, hexin); }
    static uint64_t n = 0;
    if ((++n & 255) == 0) liveness(hexin);
    return 0;
}

// ---- framing: the runner's protocol on top of libFuzzer --------------------------------------------------------
extern "C" int LLVMFuzzerInitialize(int *argc, char ***argv) {
    signal(SIGPIPE, SIG_IGN);       // as cpp-tbox's own main does; see lib/props_c13.py assumptions
    vh::parse_args(*argc, *argv);
    vh::Args &a = vh::st().args;
    const long runs = a.num("runs", 12500);
    g_sh = (Shared *)mmap(nullptr, sizeof(Shared), PROT_READ | PROT_WRITE, MAP_SHARED | MAP_ANONYMOUS, -1, 0);
    if (g_sh == MAP_FAILED) fatal("mmap");
    memset(g_sh, 0, sizeof *g_sh);
    std::string dict = (a.out.empty() ? std::string("/var/tmp") : a.out) + "/c13_fuzz_" + std::to_string((long)getpid()) + ".dict";
    {
        FILE *f = fopen(dict.c_str(), "w");
        if (!f) fatal("dict");
        static const char *words[] = {"exit", "quit", "history", "tree", "ls", "cd", "help", "pwd", "!!", "!-", "!", ";", "\\x0d\\x0a", "\\x0d\\x00", "\\x0a",
                                      "\\x1b[A", "\\x1b[B", "\\x1b[C", "\\x1b[D", "\\x1b[1~", "\\x1b[3~", "\\x1b[4~", "\\x1bO", "\\xc2", "\\x7f", "\\x08",
                                      "\\xff\\xfa", "\\xff\\xf0", "\\xff\\xfd", "\\xff\\xfe", "\\xff\\xfb", "\\xff\\xf1", "\\xff\\xfa\\x1f", "\\xff\\xff",
                                      "2147483648", "-2147483648", "99999999999", "..", "/", "/a/b", "a/b/a", "self", "root", "/a/b/c", "x", "y", "p", "q", " ", "\\\"", "'"};
        for (auto wd : words) fprintf(f, "\"%s\"\n", wd);
        fclose(f);
    }
    for (uint64_t i = a.first; i < a.first + a.count; ++i) {
        vh::begin_case(i);
        fflush(stdout); fflush(stderr);
        pid_t pid = fork();
        if (pid < 0) fatal("fork");
        if (pid == 0) {
            // the child becomes one libFuzzer session: fixed seed, fixed number of runs, no corpus directory
            static std::vector<std::string> args;
            args.push_back((*argv)[0]);
            args.push_back("-seed=" + std::to_string((vh::mix(a.seed, i) & 0x7ffffffe) + 1));
            args.push_back("-runs=" + std::to_string(runs));
            args.push_back("-max_len=" + std::to_string(a.num("maxlen", 192)));
            args.push_back("-dict=" + dict);
            args.push_back("-verbosity=0");
            args.push_back("-print_final_stats=0");
            args.push_back("-detect_leaks=0");
            args.push_back("-timeout=60");
            args.push_back("-rss_limit_mb=3000");
            args.push_back("-artifact_prefix=" + (a.out.empty() ? std::string("/dev/null") : a.out + "/fuzz-case" + std::to_string(i) + "-"));
            static std::vector<char *> av;
            for (auto &s : args) av.push_back(&s[0]);
            av.push_back(nullptr);
            *argc = (int)args.size();
            *argv = av.data();
            return 0;
        }
        int st = 0;
        while (waitpid(pid, &st, 0) < 0 && errno == EINTR) {}
        ::unlink(((a.out.empty() ? std::string("/var/tmp") : a.out) + "/c13f_" + std::to_string((long)pid) + ".sock").c_str());
        ::unlink(("/var/tmp/c13f_" + std::to_string((long)pid) + ".sock").c_str());
        if (!(WIFEXITED(st) && WEXITSTATUS(st) == 0)) {
            // the session died: its sanitizer report is already on our stderr; die the same way so the runner records case i
            fflush(stdout);
            ::unlink(dict.c_str());
            if (WIFSIGNALED(st)) { signal(WTERMSIG(st), SIG_DFL); kill(getpid(), WTERMSIG(st)); }
            _exit(WIFEXITED(st) ? WEXITSTATUS(st) : 70);
        }
        vh::note_case(vh::mix(a.seed, i), true);
        vh::end_case();
    }
    ::unlink(dict.c_str());
    vh::counter("fuzz_execs_direct", g_sh->execs_direct);
    vh::counter("fuzz_execs_telnet", g_sh->execs_telnet);
    vh::counter("fuzz_segments", g_sh->segments);
    vh::counter("fuzz_bytes", g_sh->bytes);
    vh::counter("fuzz_loop_passes", g_sh->loop_passes);
    vh::counter("fuzz_sessions_ended_by_exit", g_sh->sessions_ended_by_exit);
    vh::counter("fuzz_probe_calls", g_sh->probe_calls);
    vh::counter("fuzz_tree_listings", g_sh->tree_listings);
    vh::counter("fuzz_tree_cycle_markers", g_sh->cycle_markers);
    vh::counter("fuzz_tree_deleted_markers", g_sh->deleted_markers);
    vh::counter("fuzz_error_replies", g_sh->error_replies);
    vh::counter("fuzz_inputs_with_iac", g_sh->inputs_with_iac);
    vh::counter("fuzz_inputs_with_escape", g_sh->inputs_with_escape);
    vh::counter("fuzz_liveness_ok", g_sh->liveness_ok);
    vh::counter("fuzz_sessions", vh::st().cases);
    vh::finish();
    fflush(stdout);
    _exit(0);
}
