// C20: alarms pick the earliest matching future instant and fire once per instant.
//
// modes
//   next              seeded configurations x boundary-biased "now" values: the protected next-instant computation (through a
//                     probe subclass) and the instant armed by enable() (through setTimezone + the virtual wall clock,
//                     observed with remainSeconds()) are compared with the brute-force reference in c20_ref.hpp
//   weekly-exhaustive every 7-bit weekday mask x weekday of "now" x seconds-of-day x now-vs-instant relation x zone offset
//   history           full alarms on a real loop under a virtual wall clock and a virtual monotonic clock: scripts of
//                     enable / disable / refresh / re-initialise / cleanup / destroy / calendar updates / wall-clock jumps,
//                     with the monotonic clock running up to 20 ms ahead of the wall clock; checks: no callback before the
//                     armed wall distance has elapsed on the monotonic clock, a callback within 1 s after it, one callback
//                     per instant, the re-armed instant is the earliest one after max(now, instant just delivered),
//                     one-shot fires once, disabled / cleaned-up / destroyed alarms never fire
#include "common/vh.hpp"
#include "c20_ref.hpp"

#include <tbox/event/loop.h>
#include <tbox/event/verif_hooks.h>
#include <tbox/alarm/verif_hooks.h>
#include <tbox/alarm/alarm.h>
#include <tbox/alarm/weekly_alarm.h>
#include <tbox/alarm/oneshot_alarm.h>
#include <tbox/alarm/workday_alarm.h>
#include <tbox/alarm/workday_calendar.h>
#include <tbox/alarm/cron_alarm.h>

#include <memory>
#include <algorithm>

using tbox::event::Loop;
namespace ta = tbox::alarm;

namespace {

const int64_t kTwo32 = 4294967296LL;

// ---- virtual clocks ---------------------------------------------------------------------------------------------
uint64_t g_wall_us = 0;    // wall clock, microseconds since the epoch
uint64_t g_mono_ms = 0;    // monotonic clock, milliseconds
bool wall_clock(uint32_t &sec, uint32_t &usec) {
    sec = (uint32_t)(g_wall_us / 1000000); usec = (uint32_t)(g_wall_us % 1000000);
    return true;
}
uint64_t mono_clock() { return g_mono_ms; }
int64_t wall_sec() { return (int64_t)(g_wall_us / 1000000); }

// ---- probe subclasses: expose the protected next-instant computation -----------------------------------------------
template <class B> struct Probe : B {
    explicit Probe(Loop *l) : B(l) {}
    bool calc(uint32_t cur, uint32_t &next) { return this->calculateNextLocalTimeSec(cur, next); }
};

enum Kind { kWeekly = 0, kOneshot, kWorkday, kCron };
const char *kind_name(int k) { static const char *n[] = {"weekly", "oneshot", "workday", "cron"}; return n[k]; }

struct Cfg {
    Kind kind = kWeekly;
    int sod = 0;
    unsigned mask = 0x7f;        // weekly
    bool want_workday = true;    // workday
    c20::CronSpec cron;
    std::string describe() const {
        switch (kind) {
            case kWeekly: { std::string m; for (int i = 0; i < 7; ++i) m += ((mask >> i) & 1) ? '1' : '0';
                            return vh::fmt("weekly(sod=%d,mask=%s)", sod, m.c_str()); }
            case kOneshot: return vh::fmt("oneshot(sod=%d)", sod);
            case kWorkday: return vh::fmt("workday(sod=%d,%s)", sod, want_workday ? "workdays" : "holidays");
            default: return "cron(\"" + cron.text + "\")";
        }
    }
};

std::string mask_string(unsigned mask) { std::string m; for (int i = 0; i < 7; ++i) m += ((mask >> i) & 1) ? '1' : '0'; return m; }

//! one real alarm object of any kind
struct Unit {
    Kind kind;
    std::unique_ptr<Probe<ta::WeeklyAlarm>> w;
    std::unique_ptr<Probe<ta::OneshotAlarm>> o;
    std::unique_ptr<Probe<ta::WorkdayAlarm>> d;
    std::unique_ptr<Probe<ta::CronAlarm>> c;
    ta::Alarm *base = nullptr;

    void create(Kind k, Loop *loop) {
        destroy();
        kind = k;
        switch (k) {
            case kWeekly: w.reset(new Probe<ta::WeeklyAlarm>(loop)); base = w.get(); break;
            case kOneshot: o.reset(new Probe<ta::OneshotAlarm>(loop)); base = o.get(); break;
            case kWorkday: d.reset(new Probe<ta::WorkdayAlarm>(loop)); base = d.get(); break;
            case kCron: c.reset(new Probe<ta::CronAlarm>(loop)); base = c.get(); break;
        }
    }
    void destroy() { w.reset(); o.reset(); d.reset(); c.reset(); base = nullptr; }
    bool initialize(const Cfg &cfg, ta::WorkdayCalendar *cal) {
        switch (kind) {
            case kWeekly: return w->initialize(cfg.sod, mask_string(cfg.mask));
            case kOneshot: return o->initialize(cfg.sod);
            case kWorkday: return d->initialize(cfg.sod, cal, cfg.want_workday);
            default: return c->initialize(cfg.cron.text);
        }
    }
    bool calc(uint32_t cur, uint32_t &next) {
        switch (kind) {
            case kWeekly: return w->calc(cur, next);
            case kOneshot: return o->calc(cur, next);
            case kWorkday: return d->calc(cur, next);
            default: return c->calc(cur, next);
        }
    }
};

// ---- reference dispatch --------------------------------------------------------------------------------------------
enum RefStatus { kRefOk, kRefNone, kRefBeyond };
const int kWorkdayHorizonDays = 366;   // the implementation scans today + 366 following days (workday_alarm.cpp)
const int kCronHorizonYears = 4;       // ccronexpr gives up when the year moved on by more than 4

RefStatus ref_next_local(const Cfg &cfg, const c20::Calendar *cal, int64_t now_local, int64_t &out) {
    out = c20::kNone;
    switch (cfg.kind) {
        case kWeekly: out = c20::next_weekly(now_local, cfg.sod, cfg.mask); break;
        case kOneshot: out = c20::next_oneshot(now_local, cfg.sod); break;
        case kWorkday:
            out = c20::next_workday(now_local, cfg.sod, *cal, cfg.want_workday, 800);
            if (out != c20::kNone && out / c20::kDay - now_local / c20::kDay > kWorkdayHorizonDays) return kRefBeyond;
            break;
        case kCron:
            out = c20::next_cron(cfg.cron, now_local, 366 * 9);
            if (out != c20::kNone &&
                c20::civil_from_days(out / c20::kDay).y - c20::civil_from_days(now_local / c20::kDay).y > kCronHorizonYears)
                return kRefBeyond;
            break;
    }
    return out == c20::kNone ? kRefNone : kRefOk;
}

// ---- generators ----------------------------------------------------------------------------------------------------
int gen_sod(vh::Rng &r) {
    switch (r.below(8)) {
        case 0: return 0;
        case 1: return 86399;
        case 2: return 1;
        case 3: return (int)r.range(0, 23) * 3600;
        case 4: return (int)r.range(0, 23) * 3600 + (int)r.range(0, 59) * 60;
        default: return (int)r.range(0, 86399);
    }
}

unsigned gen_mask(vh::Rng &r) {
    switch (r.below(8)) {
        case 0: return 0x7f;
        case 1: return 0x3e;
        case 2: return 1u << r.below(7);
        case 3: return 0x7f & ~(1u << r.below(7));
        default: return (unsigned)r.below(128);
    }
}

const char *const kMonNames[] = {"", "JAN", "FEB", "MAR", "APR", "MAY", "JUN", "JUL", "AUG", "SEP", "OCT", "NOV", "DEC"};
const char *const kDowNames[] = {"SUN", "MON", "TUE", "WED", "THU", "FRI", "SAT"};

std::string maybe_case(vh::Rng &r, const char *name) {
    std::string s = name;
    unsigned k = (unsigned)r.below(3);
    if (k == 1) for (auto &ch : s) ch = (char)tolower(ch);
    if (k == 2) for (size_t i = 1; i < s.size(); ++i) s[i] = (char)tolower(s[i]);
    return s;
}

struct Field { std::string s; uint64_t bits = 0; bool restricted = false; };

//! one cron field over [lo,hi]; names (optional) indexed by value; dow=true: 7 is accepted as Sunday
Field gen_field(vh::Rng &r, int lo, int hi, const char *const *names, bool dow, int shape) {
    Field f;
    auto val = [&](int v) -> std::string {
        if (names && v < (dow ? 7 : 13) && r.chance(1, 3)) return maybe_case(r, names[v]);
        return std::to_string(v);
    };
    auto setbit = [&](int v) { if (dow && v == 7) v = 0; f.bits |= (1ull << v); };
    int top = dow ? 7 : hi;   // largest literal accepted
    switch (shape) {
        case 0:
            f.s = "*";
            for (int v = lo; v <= hi; ++v) setbit(v);
            break;
        case 1: { int v = (int)r.range(lo, top); f.s = val(v); setbit(v); break; }
        case 2: {
            int n = (int)r.range(2, 4);
            for (int i = 0; i < n; ++i) {
                if (i) f.s += ",";
                if (r.chance(1, 4)) {
                    int a = (int)r.range(lo, top), b = (int)r.range(a, std::min(top, a + 5));
                    f.s += val(a) + "-" + val(b);
                    for (int v = a; v <= b; ++v) setbit(v);
                } else { int v = (int)r.range(lo, top); f.s += val(v); setbit(v); }
            }
            break;
        }
        case 3: { int a = (int)r.range(lo, top), b = (int)r.range(a, top); f.s = val(a) + "-" + val(b);
                  for (int v = a; v <= b; ++v) setbit(v); break; }
        case 4: { int n = dow ? (int)r.range(2, 3) : (int)r.range(1, std::max(2, (hi - lo + 1) / 2));
                  f.s = "*/" + std::to_string(n);
                  for (int v = lo; v <= hi; v += n) setbit(v); break; }
        case 5: { if (dow) return gen_field(r, lo, hi, names, dow, 3);
                  int a = (int)r.range(lo, hi), n = (int)r.range(1, std::max(2, (hi - lo + 1) / 2));
                  f.s = std::to_string(a) + "/" + std::to_string(n);
                  for (int v = a; v <= hi; v += n) setbit(v); break; }
        default: { int a = (int)r.range(lo, hi), b = (int)r.range(a, hi), n = (int)r.range(1, std::max(2, (b - a + 1)));
                   f.s = std::to_string(a) + "-" + std::to_string(b) + "/" + std::to_string(n);
                   for (int v = a; v <= b; v += n) setbit(v); break; }
    }
    uint64_t all = 0;
    for (int v = lo; v <= hi; ++v) all |= (1ull << v);
    f.restricted = (f.bits != all);
    return f;
}

bool cron_has_valid_date(const c20::CronSpec &c) {
    static const int maxd[13] = {0, 31, 29, 31, 30, 31, 30, 31, 31, 30, 31, 30, 31};
    for (int m = 1; m <= 12; ++m)
        if ((c.mon >> m) & 1u)
            for (int d = 1; d <= maxd[m]; ++d)
                if ((c.dom >> d) & 1u) return true;
    return false;
}

c20::CronSpec gen_cron(vh::Rng &r) {
    for (;;) {
        c20::CronSpec c;
        Field fs, fm, fh, fd, fmo, fw;
        auto pin = [](int v) { Field f; f.s = std::to_string(v); f.bits = 1ull << v; f.restricted = true; return f; };
        auto star = [&](int lo, int hi, bool q) { Field f = gen_field(r, lo, hi, nullptr, false, 0); if (q && r.chance(1, 2)) f.s = "?"; return f; };
        unsigned profile = (unsigned)r.below(10);
        if (profile <= 2) {          // alarm-like: one time of day, every day or some weekdays
            fs = pin((int)r.range(0, 59)); fm = pin((int)r.range(0, 59)); fh = pin((int)r.range(0, 23));
            if (r.chance(1, 4)) { fs = pin(0); }
            if (r.chance(1, 8)) { fs = pin(59); fm = pin(59); fh = pin(23); }
            if (r.chance(1, 8)) { fs = pin(0); fm = pin(0); fh = pin(0); }
            fd = star(1, 31, true); fmo = star(1, 12, false);
            fw = r.chance(1, 2) ? star(0, 6, true) : gen_field(r, 0, 6, kDowNames, true, (int)r.range(1, 4));
        } else if (profile == 3) {   // frequent
            fs = gen_field(r, 0, 59, nullptr, false, (int)r.pick(std::vector<int>{0, 4, 4, 2, 5}));
            fm = gen_field(r, 0, 59, nullptr, false, (int)r.pick(std::vector<int>{0, 0, 4, 3}));
            fh = gen_field(r, 0, 23, nullptr, false, (int)r.pick(std::vector<int>{0, 0, 3}));
            fd = star(1, 31, true); fmo = star(1, 12, false); fw = star(0, 6, true);
        } else if (profile == 4) {   // monthly
            fs = pin((int)r.range(0, 59)); fm = pin((int)r.range(0, 59)); fh = pin((int)r.range(0, 23));
            fd = gen_field(r, 1, 31, nullptr, false, (int)r.pick(std::vector<int>{1, 1, 2, 3, 4}));
            fmo = star(1, 12, false); fw = star(0, 6, true);
        } else if (profile == 5) {   // yearly
            fs = pin((int)r.range(0, 59)); fm = pin((int)r.range(0, 59)); fh = pin((int)r.range(0, 23));
            int m = (int)r.range(1, 12);
            static const int maxd[13] = {0, 31, 28, 31, 30, 31, 30, 31, 31, 30, 31, 30, 31};
            fd = pin((int)r.range(1, maxd[m]));
            fmo = pin(m); if (r.chance(1, 2)) fmo.s = maybe_case(r, kMonNames[m]);
            fw = star(0, 6, true);
        } else if (profile == 6) {   // leap day
            fs = pin((int)r.range(0, 59)); fm = pin((int)r.range(0, 59)); fh = pin((int)r.range(0, 23));
            fd = pin(29); fmo = pin(2); if (r.chance(1, 2)) fmo.s = "FEB";
            fw = star(0, 6, true);
        } else {                     // free mix; at most one of day-of-month / day-of-week restricted
            fs = gen_field(r, 0, 59, nullptr, false, (int)r.below(7));
            fm = gen_field(r, 0, 59, nullptr, false, (int)r.below(7));
            fh = gen_field(r, 0, 23, nullptr, false, (int)r.below(7));
            fmo = gen_field(r, 1, 12, kMonNames, false, (int)r.pick(std::vector<int>{0, 0, 1, 2, 3, 4, 5, 6}));
            if (r.chance(1, 2)) { fd = gen_field(r, 1, 31, nullptr, false, (int)r.below(7)); fw = star(0, 6, true); }
            else { fd = star(1, 31, true); fw = gen_field(r, 0, 6, kDowNames, true, (int)r.below(7)); }
        }
        c.sec = fs.bits; c.min = fm.bits; c.hour = (uint32_t)fh.bits; c.dom = (uint32_t)fd.bits; c.mon = (uint32_t)fmo.bits;
        c.dow = (uint32_t)fw.bits;
        if (fd.restricted && fw.restricted) continue;
        if (!c.sec || !c.min || !c.hour || !c.dom || !c.mon || !c.dow) continue;
        if (!cron_has_valid_date(c)) continue;
        const char *sep = r.chance(1, 10) ? "  " : " ";
        c.text = fs.s + sep + fm.s + " " + fh.s + " " + fd.s + sep + fmo.s + " " + fw.s;
        return c;
    }
}

//! random calendar: weekly default plus special days around `day0` (holiday runs, make-up days, long gaps)
void gen_calendar(vh::Rng &r, int64_t day0, c20::Calendar &cal) {
    cal.special.clear();
    switch (r.below(6)) {
        case 0: cal.week_mask = 0x3e; break;
        case 1: cal.week_mask = 0x7f; break;
        case 2: cal.week_mask = 0; break;
        default: cal.week_mask = gen_mask(r); break;
    }
    unsigned style = (unsigned)r.below(8);
    if (style == 0) return;
    if (style <= 4) {        // a few runs of holidays and make-up days near day0
        int runs = (int)r.range(1, 5);
        for (int i = 0; i < runs; ++i) {
            int64_t s = day0 + r.range(-3, 40);
            int len = (int)r.range(1, 9);
            bool wd = r.chance(1, 3);
            for (int k = 0; k < len; ++k) cal.special[(int)(s + k)] = wd;
        }
    } else if (style <= 6) { // long gap: everything special with one value for up to 2 years, then maybe an island
        int len = (int)r.pick(std::vector<int>{30, 100, 200, 364, 365, 366, 367, 368, 400, 730});
        bool wd = r.chance(1, 2);
        for (int k = -1; k < len; ++k) cal.special[(int)(day0 + k)] = wd;
        if (r.chance(2, 3)) cal.special[(int)(day0 + len)] = !wd;
        if (r.chance(1, 2)) cal.special[(int)(day0 + r.range(0, len))] = !wd;
    } else {                 // scattered single days
        int n = (int)r.range(1, 30);
        for (int i = 0; i < n; ++i) cal.special[(int)(day0 + r.range(-2, 400))] = r.chance(1, 2);
    }
}

Cfg gen_cfg(vh::Rng &r, int kind_or_any) {
    Cfg c;
    if (kind_or_any >= 0) c.kind = (Kind)kind_or_any;
    else { unsigned k = (unsigned)r.below(20); c.kind = k < 6 ? kWeekly : k < 8 ? kOneshot : k < 13 ? kWorkday : kCron; }
    c.sod = gen_sod(r);
    c.mask = gen_mask(r);
    c.want_workday = r.chance(1, 2);
    if (c.kind == kCron) c.cron = gen_cron(r);
    return c;
}

int gen_tz_minutes(vh::Rng &r) {
    switch (r.below(8)) {
        case 0: return 0;
        case 1: return 480;
        case 2: return -12 * 60;
        case 3: return 14 * 60;
        case 4: return 345;    // +05:45
        default: return (int)r.range(-48, 56) * 15;
    }
}

int64_t gen_day(vh::Rng &r) {
    switch (r.below(16)) {
        case 0: return r.range(2, 40);
        case 1: case 2: return 24855 + r.range(-3, 3);        // 2038-01-19: 2^31 seconds
        case 3: return 49710 - r.range(1, 12);                // last days of the 32-bit range
        case 4: return 49710 - r.range(12, 800);
        case 5: { int y = (int)r.range(1972, 2092); y -= y % 4; return c20::year_table().jan1[y - 1970] + 59 + r.range(-2, 1); }  // around Feb 29
        case 6: { int y = (int)r.range(1971, 2100); return c20::year_table().jan1[y - 1970] + r.range(-2, 1); }                    // new year
        case 7: case 8: case 9: case 10: return r.range(18262, 21000);   // 2020..2027
        default: return r.range(2, 49700);
    }
}

// ---- mode "next" -----------------------------------------------------------------------------------------------------
Loop *g_loop = nullptr;
void drain_loop() { g_loop->runNext([] {}); g_loop->runLoop(Loop::Mode::kOnce); }

struct NextStats { bool boundary = false, rollover = false; std::string summary; };

//! symptom class of a wrong instant. 32-bit answers at or before `now` near the end of the range are taken as wrapped
std::string cmp_class(int64_t got, int64_t ref, int64_t now) {
    if (got <= now && now >= kTwo32 - 1830 * c20::kDay && got < 1830 * c20::kDay) got += kTwo32;
    if (got <= now) return "not-after-now";
    if (got < ref) return "non-matching-instant";
    int64_t d = got - ref;
    return std::string("skips-earliest-instant/") + (d < 60 ? "by-under-a-minute" : d < c20::kDay ? "by-under-a-day" : d < 28 * c20::kDay ? "by-days" : "by-a-month-or-more");
}

//! one evaluation: probe computation and the armed instant through enable(); now_utc/off describe the wall clock and zone
void eval_next(const Cfg &cfg, const c20::Calendar *mcal, ta::WorkdayCalendar *rcal, int64_t now_utc, uint32_t usec,
               int off_min, const char *sys_tz, vh::Sig &sig, NextStats &stats) {
    const int64_t off = (int64_t)off_min * 60;
    const int64_t now_local = now_utc + off;
    if (now_utc < 1 || now_utc >= kTwo32 || now_local < 1 || now_local >= kTwo32) { vh::counter("skipped_now_unrepresentable"); return; }
    int64_t ref = c20::kNone;
    RefStatus rs = ref_next_local(cfg, mcal, now_local, ref);
    sig.add((uint64_t)now_local); sig.add((uint64_t)off_min);
    if (rs != kRefNone && (ref >= kTwo32 || ref - off >= kTwo32 || ref - off < 0)) { vh::counter("skipped_answer_unrepresentable"); return; }
    if (rs == kRefBeyond && cfg.kind == kCron) { vh::counter("skipped_cron_beyond_4y_horizon"); return; }

    const std::string kn = kind_name(cfg.kind);
    std::string what = vh::fmt("%s now_local=%lld (day %lld, weekday %d, tod %lld) off_min=%d", cfg.describe().c_str(),
                               (long long)now_local, (long long)(now_local / c20::kDay), c20::weekday_of_day(now_local / c20::kDay),
                               (long long)(now_local % c20::kDay), off_min);
    if (cfg.kind == kWorkday) {
        what += vh::fmt(" calendar(week_mask=%s,special=%zu:", mask_string(mcal->week_mask).c_str(), mcal->special.size());
        int n = 0;
        for (auto &kv : mcal->special) { if (++n > 12) { what += "..."; break; } what += vh::fmt("%d=%d,", kv.first, (int)kv.second); }
        what += ")";
    }
    vh::st().case_desc = what;

    Unit u;
    u.create(cfg.kind, g_loop);
    if (!u.initialize(cfg, rcal)) {
        vh::viol("next/" + kn + "/initialize-rejected-valid-configuration", what);
        return;
    }
    vh::counter("eval_" + kn);

    // (1) the protected computation, through the probe
    uint32_t got = 0;
    bool probe_bad = false;
    bool ok = u.calc((uint32_t)now_local, got);
    vh::counter("via_probe");
    stats.summary = what + (rs == kRefNone ? std::string(" -> reference: no instant") : vh::fmt(" -> reference: local %lld (%+lld s)%s", (long long)ref, (long long)(ref - now_local), rs == kRefBeyond ? " [beyond scan horizon]" : "")) +
                    vh::fmt("; computation: %s%u", ok ? "" : "false/", got);
    if (rs == kRefNone) {
        vh::counter("expect_no_instant");
        VH_CHECK(!ok, "next/" + kn + "/probe/instant-for-unsatisfiable-configuration", "%s -> got %u", what.c_str(), got);
    } else if (rs == kRefBeyond) {
        vh::counter("workday_beyond_366d_horizon");
        VH_CHECK(!ok || (int64_t)got == ref, "next/" + kn + "/probe/non-matching-instant", "%s -> got %u, earliest is %lld (beyond the scan horizon)",
                 what.c_str(), got, (long long)ref);
    } else {
        if (!ok) { probe_bad = true; vh::viol("next/" + kn + "/probe/no-instant-found", vh::fmt("%s -> false, earliest is %lld", what.c_str(), (long long)ref)); }
        else if ((int64_t)got != ref && (probe_bad = true))
            vh::viol("next/" + kn + "/probe/" + cmp_class(got, ref, now_local),
                     vh::fmt("%s -> got %u (%+lld s from now), earliest is %lld (%+lld s)", what.c_str(), got,
                             (long long)((int64_t)got - now_local), (long long)ref, (long long)(ref - now_local)));
        int64_t dist = ref - now_local;
        if (dist == 1) { vh::counter("boundary_instant_is_next_second"); stats.boundary = true; }
        if (now_local % c20::kDay == ref % c20::kDay && dist >= c20::kDay) { vh::counter("boundary_now_equals_time_of_day"); stats.boundary = true; }
        if (ref / c20::kDay != now_local / c20::kDay) { vh::counter("answer_on_later_day"); stats.rollover = true; }
        if (cfg.kind == kWeekly && dist > 6 * c20::kDay) vh::counter("weekly_wraps_to_same_weekday_next_week");
        if (cfg.kind == kWorkday && !mcal->special.empty()) {
            if (mcal->special.count((int)(ref / c20::kDay))) vh::counter("workday_answer_on_special_day");
            if (dist > 100 * c20::kDay) vh::counter("workday_gap_over_100_days");
        }
        if (cfg.kind == kCron) {
            if (dist > 366 * c20::kDay) vh::counter("cron_distance_over_1_year");
            if (dist > 50 * c20::kDay) vh::counter("cron_distance_over_49_days");
            c20::Civil cv = c20::civil_from_days(ref / c20::kDay);
            if (cv.m == 2 && cv.d == 29) vh::counter("cron_answer_on_leap_day");
        }
        if (now_local >= 2147483648LL) vh::counter("now_beyond_2038");
    }

    // (2) the same through the real arming path: wall clock, zone offset, enable(), remainSeconds()
    g_wall_us = (uint64_t)now_utc * 1000000ull + usec;
    if (sys_tz) { setenv("TZ", sys_tz, 1); tzset(); vh::counter("via_system_timezone"); }
    else u.base->setTimezone(off_min);
    bool en = u.base->enable();
    vh::counter("via_enable");
    stats.summary += vh::fmt("; enable()=%d remainSeconds()=%u at wall utc %lld.%06u%s", (int)en, en ? u.base->remainSeconds() : 0u, (long long)now_utc, usec, sys_tz ? " (system zone)" : "");
    if (off_min < 0) vh::counter("zone_west"); else if (off_min > 0) vh::counter("zone_east");
    if (rs == kRefNone) {
        VH_CHECK(!en && !u.base->isEnabled(), "next/" + kn + "/enable/armed-for-unsatisfiable-configuration", "%s", what.c_str());
        if (!en) vh::counter("enable_refused_unsatisfiable");
    } else if (rs == kRefBeyond) {
        if (en) {
            int64_t got_utc = (now_utc + (int64_t)u.base->remainSeconds()) % kTwo32;
            VH_CHECK(got_utc == ref - off, "next/" + kn + "/enable/non-matching-instant", "%s -> armed for utc %lld, earliest is %lld",
                     what.c_str(), (long long)got_utc, (long long)(ref - off));
        }
    } else if (!probe_bad) {
        if (!en || !u.base->isEnabled())
            vh::viol("next/" + kn + "/enable/refused-satisfiable-configuration", vh::fmt("%s -> enable()=%d, earliest is local %lld", what.c_str(), (int)en, (long long)ref));
        else {
            int64_t got_utc = (now_utc + (int64_t)u.base->remainSeconds()) % kTwo32;
            if (got_utc != ref - off)
                vh::viol("next/" + kn + "/enable/" + cmp_class(got_utc, ref - off, now_utc),
                         vh::fmt("%s -> armed for utc %lld (%+lld s), earliest is utc %lld (%+lld s)", what.c_str(), (long long)got_utc,
                                 (long long)(got_utc - now_utc), (long long)(ref - off), (long long)(ref - off - now_utc)));
        }
    }
    if (sys_tz) { setenv("TZ", "UTC0", 1); tzset(); }
    u.destroy();
}

void next_case(uint64_t, vh::Rng &r) {
    vh::Sig sig;
    NextStats stats;
    Cfg cfg = gen_cfg(r, -1);
    sig.add(cfg.describe());
    int64_t day = gen_day(r);
    c20::Calendar mcal;
    ta::WorkdayCalendar rcal;
    if (cfg.kind == kWorkday) {
        gen_calendar(r, day, mcal);
        rcal.updateWeekMask((uint8_t)mcal.week_mask);
        rcal.updateSpecialDays(mcal.special);
        sig.add(mcal.week_mask); for (auto &kv : mcal.special) sig.add((uint64_t)kv.first * 2 + kv.second);
    }
    // a time of day the configuration fires at (for the boundary neighbourhood)
    int s = cfg.sod;
    if (cfg.kind == kCron) { int t = c20::cron_first_tod(cfg.cron, (int)r.below(86400)); if (t < 0) t = c20::cron_first_tod(cfg.cron, 0); s = t < 0 ? 0 : t; }
    const int nevals = 6;
    std::string sample;
    for (int i = 0; i < nevals; ++i) {
        int tod;
        switch (r.below(9)) {
            case 0: tod = 0; break;
            case 1: tod = 1; break;
            case 2: tod = (s + 86399) % 86400; break;
            case 3: tod = s; break;
            case 4: tod = (s + 1) % 86400; break;
            case 5: tod = 86399; break;
            case 6: tod = 86398; break;
            default: tod = (int)r.below(86400); break;
        }
        int64_t d = day + (i ? r.range(-1, 8) : 0);
        int64_t now_local = d * c20::kDay + tod;
        const char *sys_tz = nullptr;
        int off_min = gen_tz_minutes(r);
        if (r.chance(1, 24)) {
            static const struct { const char *tz; int min; } zones[] = {{"VRF-8", 480}, {"VRF5", -300}, {"VRF-5:30", 330}};
            unsigned z = (unsigned)r.below(3);
            sys_tz = zones[z].tz; off_min = zones[z].min;
        }
        static const uint32_t usecs[] = {0, 1, 999, 1000, 500000, 999000, 999999};
        uint32_t usec = r.chance(1, 2) ? usecs[r.below(7)] : (uint32_t)r.below(1000000);
        eval_next(cfg, &mcal, &rcal, now_local - (int64_t)off_min * 60, usec, off_min, sys_tz, sig, stats);
        if (i == 0) sample = stats.summary;
    }
    drain_loop();
    vh::note_case(sig.h, stats.boundary || stats.rollover);
    // a few readable samples, from the first shard only, one per kind (cron and workday first)
    static unsigned sampled_kinds = 0;
    if (vh::st().args.first == 0 && !(sampled_kinds & (1u << cfg.kind)) && (cfg.kind == kCron || cfg.kind == kWorkday) && !sample.empty()) {
        sampled_kinds |= 1u << cfg.kind;
        vh::sample("{\"mode\":\"next\",\"first_evaluation\":" + vh::jstr(sample) + "}", 2);
    }
}

// ---- mode "weekly-exhaustive" -----------------------------------------------------------------------------------------
const int kXSods[] = {0, 1, 30600, 86398, 86399};
const int kXOffs[] = {-720, -225, 0, 330, 840};
const uint64_t kXCount = 128ull * 7 * 5 * 7 * 5;

void weekly_exhaustive_case(uint64_t idx, vh::Rng &r) {
    uint64_t x = idx % kXCount;
    Cfg cfg; cfg.kind = kWeekly;
    cfg.mask = (unsigned)(x % 128); x /= 128;
    int dow = (int)(x % 7); x /= 7;
    cfg.sod = kXSods[x % 5]; x /= 5;
    int rel = (int)(x % 7); x /= 7;
    int off_min = kXOffs[x % 5];
    int tods[7] = {0, 1, (cfg.sod + 86399) % 86400, cfg.sod, (cfg.sod + 1) % 86400, 86398, 86399};
    int64_t day = 19723 + 3 + dow;     // 2024-01-01 is day 19723, a Monday; +3.. walks through a full week
    int64_t now_local = day * c20::kDay + tods[rel];
    vh::Sig sig; NextStats stats;
    c20::Calendar mcal; ta::WorkdayCalendar rcal;
    eval_next(cfg, &mcal, &rcal, now_local - (int64_t)off_min * 60, (uint32_t)r.below(1000000), off_min, nullptr, sig, stats);
    if ((idx & 63) == 63) drain_loop();
    sig.add(idx % kXCount);
    vh::counter(cfg.mask == 0 ? "x_mask_zero" : "x_mask_nonzero");
    vh::note_case(sig.h, true);
}

// ---- mode "history" ----------------------------------------------------------------------------------------------------
struct World;
struct HAlarm {
    Cfg cfg;
    int tz_min = 0;
    Unit unit;
    // model
    bool exists = false, inited = false, enabled = false;
    int64_t target = -1;         // instant the model expects to be armed (utc seconds)
    int64_t last_fired = -1;     // instant already delivered and still to be excluded; -1 = none
    int64_t stale_target = -1;   // instant that was armed when the alarm was last disabled and never delivered (attribution only)
    uint64_t arm_wall_us = 0, arm_mono_ms = 0, due_ms = 0, drift_at_arm = 0;
    int fires = 0;
    std::vector<int64_t> delivered;   // instants delivered since the model last forgot (for the once-per-instant check)
};

struct World {
    vh::Rng &r;
    std::unique_ptr<Loop> loop;
    std::unique_ptr<ta::WorkdayCalendar> rcal;
    c20::Calendar mcal;
    std::vector<HAlarm> al;
    std::string script;
    vh::Sig sig;
    bool bad = false;            // a violation was reported: stop the case (no cascades)
    bool ended = false;          // left the representable / supported range: stop quietly
    uint64_t total_drift_ms = 0; // how far the monotonic clock has run ahead of the wall clock in total
    int fires_after_bad = 0;
    // non-triviality
    bool saw_fire = false, saw_early = false, saw_seq = false, saw_far = false;

    explicit World(vh::Rng &rng) : r(rng) {}

    void log(const std::string &s) { script += s; script += ';'; vh::st().case_desc = script; if (vh::st().args.verbose) fprintf(stderr, "  %s\n", s.c_str()); }
    std::string kn(const HAlarm &a) const { return kind_name(a.cfg.kind); }

    // ----- model ------------------------------------------------------------------------------------------------------
    RefStatus ref_next_utc(const HAlarm &a, int64_t base_utc, int64_t &out) {
        int64_t off = (int64_t)a.tz_min * 60, loc = c20::kNone;
        RefStatus rs = ref_next_local(a.cfg, &mcal, base_utc + off, loc);
        out = (loc == c20::kNone) ? c20::kNone : loc - off;
        if (rs != kRefNone && (loc >= kTwo32 - 10 * c20::kDay || out >= kTwo32 - 10 * c20::kDay)) return kRefBeyond;
        return rs;
    }
    bool early_window(const HAlarm &a) const { return a.last_fired >= 0 && wall_sec() < a.last_fired; }
    bool any_early_window() const { for (auto &a : al) if (a.exists && early_window(a)) return true; return false; }

    //! the model arms at the current clocks. returns the reference status
    RefStatus model_arm(HAlarm &a) {
        int64_t now = wall_sec();
        int64_t base = std::max(now, a.last_fired);
        int64_t t = c20::kNone;
        RefStatus rs = ref_next_utc(a, base, t);
        if (rs != kRefOk) { a.enabled = false; a.target = -1; return rs; }
        a.enabled = true;
        a.target = t;
        a.arm_wall_us = g_wall_us; a.arm_mono_ms = g_mono_ms; a.drift_at_arm = total_drift_ms;
        uint64_t dist_us = (uint64_t)t * 1000000ull - g_wall_us;       // wall-clock distance as measured now
        a.due_ms = g_mono_ms + (dist_us + 999) / 1000;                  // no callback before this monotonic time
        uint64_t dist_s = dist_us / 1000000;
        if (dist_s > 4294967) { vh::counter("armed_distance_over_49_days"); saw_far = true; }
        if (dist_s > 366 * 86400ull) vh::counter("armed_distance_over_1_year");
        if (dist_s < 60) vh::counter("armed_distance_under_1_minute");
        return rs;
    }

    //! compare what the real alarm says with the model, right after an arming event
    void check_armed(HAlarm &a, size_t i, const char *site, RefStatus rs) {
        if (bad) return;
        bool real_en = a.unit.base->isEnabled();
        if (rs == kRefBeyond) { ended = true; vh::counter("history_left_supported_range"); return; }
        if (rs == kRefNone) {
            vh::counter("arm_refused_no_instant");
            if (real_en) { bad = true; vh::viol("arm/armed-for-unsatisfiable-configuration", vh::fmt("alarm %zu %s at %s", i, a.cfg.describe().c_str(), site)); }
            return;
        }
        if (!real_en) { bad = true; vh::viol("arm/not-armed", vh::fmt("alarm %zu %s at %s: isEnabled()=false, expected instant utc %lld", i, a.cfg.describe().c_str(), site, (long long)a.target)); return; }
        int64_t now = wall_sec();
        int64_t got = (now + (int64_t)a.unit.base->remainSeconds()) % kTwo32;
        vh::counter(std::string("armed_instant_checked_") + site);
        if (got != a.target) {
            bad = true;
            const int64_t off = (int64_t)a.tz_min * 60;
            const int64_t base = std::max(now, a.last_fired);
            std::string detail = vh::fmt("alarm %zu %s tz_min=%d at %s: wall=%lld.%06u armed for utc %lld (%+lld s), earliest instant after max(now, delivered=%lld) is %lld (%+lld s)",
                             i, a.cfg.describe().c_str(), a.tz_min, site, (long long)now, (unsigned)(g_wall_us % 1000000), (long long)got, (long long)(got - now),
                             (long long)a.last_fired, (long long)a.target, (long long)(a.target - now));
            // attribution: is the pure computation wrong for the base the property prescribes, or did the alarm start from another base?
            uint32_t pl = 0;
            bool pok = a.unit.calc((uint32_t)(base + off), pl);
            if (!pok || (int64_t)pl != a.target + off) {
                vh::viol("next/" + kn(a) + "/probe/" + (pok ? cmp_class(pl, a.target + off, base + off) : "no-instant-found"),
                         detail + vh::fmt(" -- the next-instant computation itself, asked for local %lld, answers %s%u", (long long)(base + off), pok ? "" : "false/", pl));
                return;
            }
            int64_t after_stale = c20::kNone;
            ref_next_utc(a, std::max(now, a.stale_target), after_stale);
            if (a.stale_target > now && after_stale != a.target) {   // the computation is right, so the search started elsewhere: the only other base the alarm knows
                vh::viol("arm/resumes-after-an-instant-that-was-armed-but-never-delivered",
                         detail + vh::fmt(" -- utc %lld was armed before the alarm was disabled and never delivered; the alarm now starts its search there", (long long)a.stale_target));
                return;
            }
            std::string cls = (a.last_fired >= 0 && got == a.last_fired) ? std::string("same-instant-armed-again") : cmp_class(got, a.target, now);
            vh::viol("arm/" + cls, detail);
        }
    }

    // ----- real-side helpers --------------------------------------------------------------------------------------------
    void install(size_t i) {
        HAlarm &a = al[i];
        a.unit.base->setCallback([this, i] { on_fire(i); });
        a.unit.base->setTimezone(a.tz_min);
    }
    void create(size_t i, const Cfg &cfg, int tz_min) {
        HAlarm &a = al[i];
        a.cfg = cfg; a.tz_min = tz_min;
        a.unit.create(cfg.kind, loop.get());
        a.exists = true; a.inited = false; a.enabled = false; a.target = -1; a.last_fired = -1; a.stale_target = -1; a.delivered.clear();
        bool ok = a.unit.initialize(cfg, rcal.get());
        if (!ok) { bad = true; vh::viol("history/" + kn(a) + "/initialize-rejected-valid-configuration", cfg.describe()); return; }
        a.inited = true;
        install(i);
        log(vh::fmt("new%zu=%s,tz%+d", i, cfg.describe().c_str(), tz_min));
        sig.add(cfg.describe()); sig.add((uint64_t)tz_min);
    }

    void do_enable(size_t i, const char *site) {
        HAlarm &a = al[i];
        bool was = a.enabled, inited = a.inited;
        bool ret = a.unit.base->enable();
        log(vh::fmt("enable%zu=%d", i, (int)ret));
        if (!inited) {
            VH_CHECK(!ret && !a.unit.base->isEnabled(), "history/" + kn(a) + "/enable-after-cleanup-armed", "alarm %zu", i);
            vh::counter("enable_on_uninitialised");
            return;
        }
        if (was) {   // already running: must stay as it is
            vh::counter("enable_while_running");
            VH_CHECK(a.unit.base->isEnabled(), "history/" + kn(a) + "/enable-while-running-disarmed", "alarm %zu", i);
            return;
        }
        const int64_t stale = a.stale_target;
        RefStatus rs = model_arm(a);
        if (rs == kRefOk && !ret) {
            bad = true;
            int64_t after_stale = c20::kNone, now = wall_sec();
            std::string detail = vh::fmt("alarm %zu %s tz_min=%d at %s: wall=%lld enable() refused although utc %lld (%+lld s) is a matching instant",
                                         i, a.cfg.describe().c_str(), a.tz_min, site, (long long)now, (long long)a.target, (long long)(a.target - now));
            if (stale > now && ref_next_utc(a, std::max(now, stale), after_stale) != kRefOk)
                vh::viol("arm/resumes-after-an-instant-that-was-armed-but-never-delivered",
                         detail + vh::fmt(" -- utc %lld was armed before the alarm was disabled and never delivered; there is no further instant after it within the search horizon", (long long)stale));
            else vh::viol("arm/enable-refused", detail);
            return;
        }
        check_armed(a, i, site, rs);
    }
    void do_disable(size_t i) {
        HAlarm &a = al[i];
        bool ret = a.unit.base->disable();
        log(vh::fmt("disable%zu=%d", i, (int)ret));
        if (a.enabled) { VH_CHECK(ret, "history/" + kn(a) + "/disable-failed", "alarm %zu", i); a.stale_target = a.target; }
        a.enabled = false;
        VH_CHECK(!a.unit.base->isEnabled(), "history/" + kn(a) + "/still-enabled-after-disable", "alarm %zu", i);
        vh::counter("disable_ops");
    }
    void do_refresh(size_t i, const char *site) {
        HAlarm &a = al[i];
        a.unit.base->refresh();
        log(vh::fmt("refresh%zu", i));
        vh::counter("refresh_ops");
        if (!a.enabled) { VH_CHECK(!a.unit.base->isEnabled(), "history/" + kn(a) + "/refresh-armed-a-disabled-alarm", "alarm %zu", i); return; }
        a.last_fired = -1; a.stale_target = -1; a.delivered.clear();   // refresh() re-derives everything from the (corrected) clock
        RefStatus rs = model_arm(a);
        check_armed(a, i, site, rs);
    }

    // ----- the callback --------------------------------------------------------------------------------------------------
    void on_fire(size_t i) {
        HAlarm &a = al[i];
        ++a.fires;
        vh::counter("fires");
        vh::counter("fires_" + kn(a));
        saw_fire = true;
        int64_t now = wall_sec();
        if (bad) {
            // already reported; an alarm that keeps re-arming with a zero delay would never let the pass end: break the storm
            if (++fires_after_bad > 100 && a.unit.base->isEnabled()) { a.unit.base->disable(); vh::counter("callback_storm_broken_after_violation"); }
            return;
        }
        log(vh::fmt("FIRE%zu@wall=%lld.%06u,mono=%llu", i, (long long)now, (unsigned)(g_wall_us % 1000000), (unsigned long long)g_mono_ms));
        if (!a.enabled) {
            bad = true;
            vh::viol("fire/callback-of-a-disabled-alarm",
                     vh::fmt("alarm %zu %s fired while disabled (inited=%d)", i, a.cfg.describe().c_str(), (int)a.inited));
            return;
        }
        if (std::find(a.delivered.begin(), a.delivered.end(), a.target) != a.delivered.end()) {
            bad = true;
            vh::viol("fire/twice-for-one-instant", vh::fmt("alarm %zu %s: instant utc %lld delivered again at wall %lld.%06u", i,
                     a.cfg.describe().c_str(), (long long)a.target, (long long)now, (unsigned)(g_wall_us % 1000000)));
            return;
        }
        if (g_mono_ms < a.due_ms) {
            bad = true;
            uint64_t dist_ms = a.due_ms - a.arm_mono_ms;
            vh::viol(std::string("fire/delay-shorter-than-wall-distance/") + (dist_ms > 4294967295ull ? "armed-distance-over-49-days" : "armed-distance-under-49-days"),
                     vh::fmt("alarm %zu %s tz_min=%d: armed at wall %llu.%06u for utc %lld, i.e. %llu ms away (%.1f days); callback after only %llu ms of monotonic time, wall now %lld.%06u",
                             i, a.cfg.describe().c_str(), a.tz_min, (unsigned long long)(a.arm_wall_us / 1000000), (unsigned)(a.arm_wall_us % 1000000),
                             (long long)a.target, (unsigned long long)dist_ms, dist_ms / 86400000.0, (unsigned long long)(g_mono_ms - a.arm_mono_ms),
                             (long long)now, (unsigned)(g_wall_us % 1000000)));
            return;
        }
        vh::counter("fire_not_before_due_checked");
        if (g_wall_us < (uint64_t)a.target * 1000000ull) { vh::counter("fires_with_mono_ahead_of_wall"); saw_early = true; }
        if (a.due_ms - a.arm_mono_ms > 4294967296ull) vh::counter("fires_after_more_than_49_days");
        a.delivered.push_back(a.target);
        if (a.delivered.size() > 8) a.delivered.erase(a.delivered.begin());
        a.last_fired = a.target;

        if (a.cfg.kind == kOneshot) {
            a.enabled = false;
            vh::counter("oneshot_fired");
            VH_CHECK(!a.unit.base->isEnabled(), "fire/oneshot/still-enabled-in-callback", "alarm %zu", i);
            if (r.chance(1, 3)) { saw_seq = true; vh::counter("oneshot_reenabled_in_callback"); do_enable(i, "reenable-in-callback"); }
            return;
        }
        // repeating kinds are re-armed before the user callback runs: the next instant is visible here
        RefStatus rs = model_arm(a);
        check_armed(a, i, "rearm", rs);
        if (bad || ended) return;
        switch (r.below(10)) {
            case 0: saw_seq = true; vh::counter("disable_in_callback"); do_disable(i); break;
            case 1: saw_seq = true; vh::counter("disable_enable_in_callback"); do_disable(i); do_enable(i, "reenable-in-callback"); break;
            case 2: if (!early_window(a)) { saw_seq = true; vh::counter("refresh_in_callback"); do_refresh(i, "refresh"); } break;
            default: break;
        }
    }

    // ----- time ------------------------------------------------------------------------------------------------------------
    void pass() {
        loop->runNext([] {});
        loop->runLoop(Loop::Mode::kOnce);
        vh::counter("loop_passes");
    }
    //! advance the monotonic clock by d_ms and the wall clock by d_ms minus drift_ms (mono runs ahead by drift_ms)
    void advance(uint64_t d_ms, int64_t drift_ms, uint32_t extra_us = 0) {
        g_mono_ms += d_ms;
        int64_t w = (int64_t)d_ms - drift_ms;
        if (w < 0) { drift_ms = (int64_t)d_ms; w = 0; }
        g_wall_us += (uint64_t)w * 1000 + extra_us;
        if (drift_ms > 0) total_drift_ms += (uint64_t)drift_ms;
    }
    //! largest extra drift that keeps every armed alarm within 20 ms of mono-ahead-of-wall since it was armed
    int64_t drift_budget() const {
        int64_t b = 20;
        for (auto &a : al) if (a.exists && a.enabled) b = std::min<int64_t>(b, 20 - (int64_t)(total_drift_ms - a.drift_at_arm));
        return std::max<int64_t>(0, b);
    }
    int next_due() const {
        int best = -1;
        for (size_t i = 0; i < al.size(); ++i)
            if (al[i].exists && al[i].enabled && (best < 0 || al[i].due_ms < al[best].due_ms)) best = (int)i;
        return best;
    }
    void leave_early_window() {
        // waiting only crosses instants that were just delivered: run up to the wall second of the latest of them
        for (int k = 0; k < 8 && any_early_window() && !bad; ++k) {
            int64_t latest = -1;
            for (auto &a : al) if (a.exists && early_window(a)) latest = std::max(latest, a.last_fired);
            uint64_t need_us = (uint64_t)latest * 1000000ull - g_wall_us;
            advance(need_us / 1000 + 1, 0); pass();
            vh::counter("waited_out_early_window");
        }
    }

    //! run up to (and over) the earliest due time; mono may run ahead of wall
    void op_run_to_due(bool disable_at_due) {
        int bi = next_due();
        if (bi < 0) {
            uint64_t d = (uint64_t)r.pick(std::vector<int64_t>{1000, 60000, 3600000, 86400000LL, 3 * 86400000LL, 40 * 86400000LL});
            advance(d, 0, (uint32_t)r.below(1000)); pass();
            log(vh::fmt("idle+%llums", (unsigned long long)d));
            vh::counter("idle_advances_with_nothing_armed");
            if (d >= 86400000ull)
                for (auto &a : al) if (a.exists && a.cfg.kind == kOneshot && a.fires && !a.enabled) { vh::counter("oneshot_left_idle_for_over_a_day_after_firing"); break; }
            return;
        }
        HAlarm &a = al[bi];
        const uint64_t due = a.due_ms;
        const int fires0 = a.fires;
        if (due > g_mono_ms + 1) {
            uint64_t span = due - 1 - g_mono_ms;
            // optional intermediate look-ins (a timer armed too short fires here)
            int looks = (int)r.below(3);
            for (int k = 0; k < looks && span > 10 && !bad; ++k) {
                uint64_t step = (uint64_t)r.range(1, (int64_t)std::min<uint64_t>(span - 1, (uint64_t)1 << 40));
                if (r.chance(1, 2)) step = span / 2;
                advance(step, 0, 0); pass();
                span = due - 1 - g_mono_ms;
                vh::counter("look_ins_before_due");
            }
            if (bad) return;
            int64_t drift = r.chance(2, 3) ? r.range(0, drift_budget()) : 0;
            if (r.chance(1, 10)) drift = -r.range(1, 5);     // sometimes the wall clock is the faster one
            if ((uint64_t)std::max<int64_t>(drift, 0) > span) drift = 0;
            advance(span, drift, drift >= 0 ? (uint32_t)r.below(1000) : 0);
            pass();       // one millisecond before the armed distance has elapsed: nothing may fire
            vh::counter("passes_one_ms_before_due");
            if (bad) return;
            if (a.fires != fires0) return;   // reported by on_fire
        }
        if (g_mono_ms < due) advance(due - g_mono_ms, 0, 0);
        advance((uint64_t)r.pick(std::vector<int64_t>{0, 0, 0, 1, 3}), 0, 0);
        log(vh::fmt("due%d@mono=%llu,wall=%lld.%06u", bi, (unsigned long long)g_mono_ms, (long long)wall_sec(), (unsigned)(g_wall_us % 1000000)));
        if (disable_at_due) {        // the timer has expired on the clock but the loop has not run yet: disable wins
            saw_seq = true;
            do_disable((size_t)bi);
            pass();
            vh::counter("disabled_with_expired_timer_pending");
            advance(1500, 0); pass();
            return;
        }
        pass();
        if (bad || ended) return;
        if (a.fires == fires0) {
            advance(1000, 0, 0);
            pass();
            if (bad || ended) return;
            if (a.fires == fires0) {
                bad = true;
                vh::viol("fire/missed-instant",
                         vh::fmt("alarm %d %s: armed for utc %lld; no callback although the armed wall distance plus 1 s has elapsed (mono %llu, due %llu, wall %lld)",
                                 bi, a.cfg.describe().c_str(), (long long)a.target, (unsigned long long)g_mono_ms, (unsigned long long)due, (long long)wall_sec()));
                return;
            }
            vh::counter("fired_late_within_slack");
        }
        VH_CHECK(a.fires == fires0 + 1, "fire/more-than-one-callback-in-a-pass", "alarm %d fired %d times", bi, a.fires - fires0);
    }

    void op_calendar_update() {
        if (!rcal) return;
        leave_early_window();
        if (bad) return;
        c20::Calendar nc;
        gen_calendar(r, wall_sec() / c20::kDay + 1, nc);
        saw_seq = true;
        // two calls, in either order; each one refreshes every subscribed (= running) workday alarm
        bool mask_first = r.chance(1, 2);
        for (int step = 0; step < 2 && !bad && !ended; ++step) {
            if ((step == 0) == mask_first) { if (nc.week_mask == mcal.week_mask && r.chance(1, 2)) continue;
                                             mcal.week_mask = nc.week_mask; log("cal.updateWeekMask=" + mask_string(nc.week_mask)); rcal->updateWeekMask((uint8_t)nc.week_mask); }
            else { mcal.special = nc.special; log(vh::fmt("cal.updateSpecialDays(%zu)", nc.special.size())); rcal->updateSpecialDays(nc.special); }
            vh::counter("calendar_updates");
            for (size_t i = 0; i < al.size() && !bad && !ended; ++i) {
                HAlarm &a = al[i];
                if (!a.exists || a.cfg.kind != kWorkday || !a.enabled) continue;
                a.last_fired = -1; a.stale_target = -1; a.delivered.clear();
                RefStatus rs = model_arm(a);
                check_armed(a, i, "calendar-refresh", rs);
                vh::counter("calendar_refreshed_running_alarm");
            }
        }
    }

    void op_wall_jump() {
        leave_early_window();
        if (bad) return;
        int64_t j = r.pick(std::vector<int64_t>{-3 * 86400, -86400, -3600, -61, -1, 1, 59, 3600, 86400, 8 * 86400, 60 * 86400});
        if (r.chance(1, 3)) j = r.range(-100000, 100000);
        int64_t nw = (int64_t)g_wall_us + j * 1000000;
        if (nw < 200000LL * 1000000) return;
        g_wall_us = (uint64_t)nw;
        log(vh::fmt("walljump%+lld", (long long)j));
        vh::counter(j < 0 ? "wall_jump_back_then_refresh" : "wall_jump_forward_then_refresh");
        saw_seq = true;
        // documented use: after the clock was corrected, refresh() every alarm
        for (size_t i = 0; i < al.size() && !bad && !ended; ++i) {
            HAlarm &a = al[i];
            if (!a.exists) continue;
            if (!a.enabled && a.inited && a.last_fired > wall_sec()) {
                // an idle alarm that remembers an instant the corrected clock has not reached yet: whether that instant counts
                // as delivered is not defined by anything, so it gets the documented full reset instead
                a.unit.base->cleanup();
                a.last_fired = -1; a.target = -1; a.stale_target = -1; a.delivered.clear();
                a.inited = a.unit.initialize(a.cfg, rcal.get());
                install(i);
                log(vh::fmt("reset%zu", i));
                vh::counter("idle_alarm_reset_after_jump_back");
                continue;
            }
            do_refresh(i, "refresh-after-jump");
        }
    }
};

void history_case(uint64_t, vh::Rng &r) {
    World w(r);
    w.loop.reset(Loop::New());
    // start of the history: boundary-biased day, time of day and sub-second part; monotonic clock unrelated
    int64_t day = gen_day(r);
    if (day > 49710 - 900) day -= 900;       // leave room for the history itself
    g_wall_us = (uint64_t)(day * c20::kDay + r.below(86400)) * 1000000ull + r.below(1000000);
    g_mono_ms = (uint64_t)r.range(1, 1LL << 41);
    w.log(vh::fmt("start wall=%llu.%06u mono=%llu", (unsigned long long)(g_wall_us / 1000000), (unsigned)(g_wall_us % 1000000), (unsigned long long)g_mono_ms));

    size_t n = (size_t)r.pick(std::vector<int>{1, 1, 1, 2, 3});
    w.al.resize(n);
    std::vector<Cfg> cfgs;
    bool any_workday = false;
    for (size_t i = 0; i < n; ++i) { cfgs.push_back(gen_cfg(r, (i > 0 && any_workday && r.chance(1, 2)) ? (int)kWorkday : -1)); if (cfgs.back().kind == kWorkday) any_workday = true; }
    if (any_workday) {
        w.rcal.reset(new ta::WorkdayCalendar);
        gen_calendar(r, day, w.mcal);
        w.rcal->updateWeekMask((uint8_t)w.mcal.week_mask);
        w.rcal->updateSpecialDays(w.mcal.special);
        w.log(vh::fmt("cal(mask=%s,special=%zu)", mask_string(w.mcal.week_mask).c_str(), w.mcal.special.size()));
    }
    for (size_t i = 0; i < n && !w.bad; ++i) w.create(i, cfgs[i], gen_tz_minutes(r));
    for (size_t i = 0; i < n && !w.bad && !w.ended; ++i) if (r.chance(4, 5)) w.do_enable(i, "enable");

    int nops = (int)r.range(6, 28);
    for (int k = 0; k < nops && !w.bad && !w.ended; ++k) {
        size_t i = (size_t)r.below(n);
        HAlarm &a = w.al[i];
        unsigned op = (unsigned)r.below(24);
        if (op < 11) { w.op_run_to_due(false); }
        else if (op == 11) { w.op_run_to_due(true); }
        else if (op == 12 || op == 13) {          // disable, then let the old instant pass: nothing may fire
            if (!a.exists) continue;
            bool was = a.enabled; uint64_t due = a.due_ms;
            w.do_disable(i);
            if (was && r.chance(1, 2) && due > g_mono_ms && due - g_mono_ms < (1ull << 42)) {
                w.advance(due - g_mono_ms + (uint64_t)r.below(3000), 0); w.pass();
                vh::counter("old_instant_passed_while_disabled");
            }
            w.saw_seq = true;
        }
        else if (op == 14 || op == 15 || op == 16) {   // enable (again)
            if (!a.exists) continue;
            if (!a.enabled && a.inited) { if (a.fires || a.target >= 0 || a.last_fired >= 0) { vh::counter("reenable_after_disable_or_fire"); w.saw_seq = true; } }
            w.do_enable(i, a.target >= 0 || a.last_fired >= 0 ? "reenable" : "enable");
        }
        else if (op == 17) { if (a.exists && !w.early_window(a)) { w.saw_seq = true; w.do_refresh(i, "refresh"); } }
        else if (op == 18) { w.op_wall_jump(); }
        else if (op == 19) { if (any_workday) w.op_calendar_update(); else w.op_run_to_due(false); }
        else if (op == 20) {                       // re-initialise with a new configuration (refused while running)
            if (!a.exists || !a.inited) continue;
            w.leave_early_window();
            if (w.bad) break;
            Cfg nc = gen_cfg(r, (int)a.cfg.kind);
            bool ret = a.unit.initialize(nc, w.rcal.get());
            w.log(vh::fmt("init%zu(%s)=%d", i, nc.describe().c_str(), (int)ret));
            if (a.enabled) { VH_CHECK(!ret, "history/" + w.kn(a) + "/initialize-accepted-while-running", "alarm %zu", i); vh::counter("initialize_refused_while_running"); }
            else { VH_CHECK(ret, "history/" + w.kn(a) + "/initialize-rejected-valid-configuration", "alarm %zu %s", i, nc.describe().c_str());
                   if (ret) { a.cfg = nc; vh::counter("reinitialised_with_new_configuration"); w.sig.add(nc.describe()); w.saw_seq = true; } }
        }
        else if (op == 21) {                       // cleanup, then (maybe later) initialise again
            if (!a.exists) continue;
            w.leave_early_window();
            if (w.bad) break;
            a.unit.base->cleanup();
            w.log(vh::fmt("cleanup%zu", i));
            a.inited = false; a.enabled = false; a.last_fired = -1; a.target = -1; a.stale_target = -1; a.delivered.clear();
            vh::counter("cleanup_ops");
            VH_CHECK(!a.unit.base->isEnabled() && a.unit.base->remainSeconds() == 0, "history/" + w.kn(a) + "/armed-after-cleanup", "alarm %zu", i);
            if (r.chance(1, 3)) w.do_enable(i, "enable");     // must be refused
            if (r.chance(1, 4)) { w.op_run_to_due(false); if (w.bad || w.ended) break; }
            bool ret = a.unit.initialize(a.cfg, w.rcal.get());
            VH_CHECK(ret, "history/" + w.kn(a) + "/initialize-rejected-valid-configuration", "alarm %zu after cleanup", i);
            a.inited = ret;
            w.install(i);
            w.saw_seq = true;
        }
        else if (op == 22) {                       // destroy the object (armed or not) and make a new one
            if (!a.exists) continue;
            w.leave_early_window();
            if (w.bad) break;
            bool was = a.enabled; uint64_t due = a.due_ms;
            a.unit.destroy();
            a.exists = false; a.enabled = false;
            w.log(vh::fmt("destroy%zu", i));
            vh::counter(was ? "destroyed_while_armed" : "destroyed_while_idle");
            if (was && due > g_mono_ms && due - g_mono_ms < (1ull << 36) && r.chance(1, 2)) { w.advance(due - g_mono_ms + 5, 0); w.pass(); }
            if (any_workday && r.chance(1, 3)) { w.op_calendar_update(); if (w.bad) break; }
            w.create(i, gen_cfg(r, (int)a.cfg.kind), gen_tz_minutes(r));
            if (!w.bad && r.chance(2, 3)) w.do_enable(i, "enable");
        }
        else {                                      // a small wall-clock adjustment that nobody tells the alarm about
            if (w.any_early_window()) continue;
            int64_t j_ms = r.pick(std::vector<int64_t>{-2000, -300, -20, 15, 250, 1500});
            int64_t nw = (int64_t)g_wall_us + j_ms * 1000;
            // keep it unambiguous: the adjustment must not move the wall clock back across an instant already delivered
            bool okj = true;
            for (auto &b : w.al) if (b.exists && b.last_fired >= 0 && nw / 1000000 < b.last_fired) okj = false;
            if (!okj) continue;
            g_wall_us = (uint64_t)nw;
            w.log(vh::fmt("silentjump%+lldms", (long long)j_ms));
            vh::counter("silent_wall_adjustments");
        }
    }
    // tail: everything disabled, run past all old instants
    if (!w.bad && !w.ended) {
        uint64_t far = 0;
        for (size_t i = 0; i < n; ++i) if (w.al[i].exists) { if (w.al[i].enabled && w.al[i].due_ms > far && w.al[i].due_ms - g_mono_ms < (1ull << 40)) far = w.al[i].due_ms; w.do_disable(i); }
        if (far > g_mono_ms) { w.advance(far - g_mono_ms + 2000, 0); w.pass(); vh::counter("tail_all_disabled_past_old_instants"); }
        for (size_t i = 0; i < n; ++i) if (w.al[i].exists && w.al[i].cfg.kind == kOneshot && w.al[i].fires) vh::counter("oneshot_histories_with_a_fire");
    }
    bool nontrivial = w.saw_fire && (w.saw_early || w.saw_far) && w.saw_seq;
    w.sig.add(w.script);
    vh::note_case(w.sig.h, nontrivial);
    if (nontrivial && vh::st().args.first == 0 && vh::want_sample(3) && w.script.size() < 1500)
        vh::sample("{\"mode\":\"history\",\"script\":" + vh::jstr(w.script) + "}", 3);
    // alarms first, then the calendar, then the loop
    for (auto &a : w.al) a.unit.destroy();
    w.rcal.reset();
    w.loop.reset();
}

}  // namespace

int main(int argc, char **argv) {
    vh::parse_args(argc, argv);
    const std::string mode = vh::st().args.mode;
    if (!c20::self_test()) { fprintf(stderr, "c20 reference self-test against gmtime_r failed\n"); return 3; }
    setenv("TZ", "UTC0", 1); tzset();
    tbox::event::verif::SetSteadyClockMs(mono_clock);
    tbox::alarm::verif::SetUtcClock(wall_clock);
    if (mode == "xcount") { printf("%llu\n", (unsigned long long)kXCount); return 0; }
    g_mono_ms = 1000000;
    g_loop = Loop::New();
    int rc = vh::run(argc, argv, [&](uint64_t idx, vh::Rng &r) {
        if (mode == "next") next_case(idx, r);
        else if (mode == "weekly-exhaustive") weekly_exhaustive_case(idx, r);
        else history_case(idx, r);
    });
    delete g_loop;
    return rc;
}
