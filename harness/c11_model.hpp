// C11: module-tree lifecycle monitor, shared by c11_module.cpp (direct root calls) and
// c11_main.cpp (through main::Main / main::Start+Stop).
//
// Three layers, all fed from the hook events recorded by the probe modules:
//   1. hook-level invariants that hold whatever the call history is (automaton per module,
//      parent-before-child and registration order on the way up, strict LIFO on the way down);
//   2. a small recursive reference (a module succeeds iff its own hook and all of its *required*
//      children succeed) that predicts the exact Init/Start hook sequence and the return value of
//      initialize()/start(); it is applied whenever the tree is "in sync", i.e. the hooks that have
//      run so far leave exactly the modules initialised/running that the reference says;
//   3. balance at the end (after cleanup() + destruction).
// The property text does not say *when* the hooks of a half-built tree are compensated (inside the
// failing call or at cleanup()), only that they are by the time the tree is cleaned up; so a
// failing call only loses layer 2 ("unsynced") until the tree is clean again, it is not a
// violation by itself.
#ifndef VERIF_C11_MODEL_HPP
#define VERIF_C11_MODEL_HPP

#include "common/vh.hpp"
#include <functional>
#include <string>
#include <vector>

namespace c11 {

enum Kind : uint8_t { K_INIT = 0, K_START, K_STOP, K_CLEANUP };
enum Call : uint8_t { CALL_INIT = 0, CALL_START, CALL_STOP, CALL_CLEANUP, CALL_ANY };
static const char *const kKindName[] = {"Init", "Start", "Stop", "Cleanup"};
static const char *const kCallName[] = {"initialize", "start", "stop", "cleanup", "run"};

struct Node {
    int parent = -1;
    std::vector<int> kids;       //! registration order; ids are pre-order, so kids are increasing
    bool required = true;
    std::string name;            //! "" = unnamed (shares the parent's config section)
    uint8_t init_plan = 0;       //! bit min(k,7) set: the k-th invocation of onInit returns false
    uint8_t start_plan = 0;
    bool cfg_missing = false;    //! the module's own config section is removed: initialize() fails before the hook
    bool fill_cfg = false;       //! onFillDefaultConfig writes a marker the onInit hook looks for
    bool use_add_as = false;     //! registered through addAs()
    int depth = 0;
};

struct Tree {
    std::vector<Node> n;
    bool virtual_root = false;   //! node 0 is a plain tbox::main::Module (hooks unobservable, always succeed)

    static std::string plan_str(uint8_t p) {
        if (p == 0) return "";
        if (p == 0xff) return "F";
        return vh::fmt("%02x", p);
    }
    void describe_node(int i, std::string &o) const {
        const Node &x = n[i];
        o += vh::fmt("%d", i);
        if (i != 0) o += x.required ? "r" : "o";
        if (x.name.empty()) o += "u";
        if (x.cfg_missing) o += "[nocfg]";
        if (x.init_plan) o += "[i:" + plan_str(x.init_plan) + "]";
        if (x.start_plan) o += "[s:" + plan_str(x.start_plan) + "]";
        if (!x.kids.empty()) {
            o += "{";
            for (size_t k = 0; k < x.kids.size(); ++k) { if (k) o += ","; describe_node(x.kids[k], o); }
            o += "}";
        }
    }
    //! e.g. 0{1r[i:F],2o{3r[s:01]}}: id, r/o = required/optional, u = unnamed, i:/s: = fault plan of onInit/onStart
    std::string describe() const { std::string o; describe_node(0, o); return o; }
};

struct Ev { Kind k; int node; bool ok; };

inline std::string ev_str(const std::vector<Ev> &evs, size_t max = 60) {
    std::string o;
    for (size_t i = 0; i < evs.size() && i < max; ++i) {
        const Ev &e = evs[i];
        if (i) o += ' ';
        o += vh::fmt("%s(%d)%s", kKindName[e.k], e.node, (e.k <= K_START) ? (e.ok ? "+" : "-") : "");
    }
    if (evs.size() > max) o += " ...";
    return o;
}

struct Monitor {
    const Tree &t;
    size_t N;
    // hook level: what the hooks that have actually run leave behind
    std::vector<uint8_t> h_inited, h_started;
    std::vector<int> init_stack, start_stack;
    // reference level (roll-back semantics): 0 none, 1 initialised, 2 running
    std::vector<uint8_t> m_state;
    bool in_sync = true;
    bool dead = false;               //! a violation was already reported for this case: stop judging it
    std::string taint;               //! first failing call whose half-built part was left standing
    std::string taint_what;
    // statistics for the evidence
    bool saw_hook_failure = false;
    bool saw_req_early[2] = {false, false};        //! [0] initialize, [1] start: a required child failed => early return
    bool saw_req_after_sibling[2] = {false, false}; //! ... after an earlier sibling had already succeeded
    bool saw_opt_continue[2] = {false, false};      //! an optional child failed and its parent carried on
    bool saw_half_built_optional[2] = {false, false}; //! an optional module's own hook succeeded, a required descendant failed
    int predicted_calls = 0, unsynced_calls = 0;

    explicit Monitor(const Tree &tree) : t(tree), N(tree.n.size()), h_inited(N, 0), h_started(N, 0), m_state(N, 0) {}

    bool is_virtual(int i) const { return t.virtual_root && i == 0; }

    std::function<void()> before_report;   //! lets the harness publish the case script only when it is needed

    void fail(const std::string &key, const std::string &detail) {
        if (dead) return;
        dead = true;
        if (before_report) before_report();
        resolve_whole_run_taint();
        if (!taint.empty())
            vh::viol(taint, taint_what + "; first broken rule: " + key + ": " + detail);
        else
            vh::viol(key, detail);
    }

    // ---- layer 1: hook-level invariants ---------------------------------------------------
    void apply(const Ev &e, Call call, int &last_init, int &last_start, const std::vector<Ev> &evs) {
        const int n = e.node;
        const int p = t.n[n].parent;
        const bool pv = p < 0 || is_virtual(p);
        auto ctx = [&]() { return vh::fmt(" [module %d, hooks of this %s(): %s]", n, kCallName[call], ev_str(evs).c_str()); };
        switch (e.k) {
        case K_INIT:
            if (call != CALL_INIT && call != CALL_ANY) return fail("call/init-hook-outside-initialize", "onInit ran inside " + std::string(kCallName[call]) + "()" + ctx());
            if (h_inited[n]) return fail("automaton/init-while-initialised", "onInit ran again although the module's previous successful onInit has not been followed by onCleanup" + ctx());
            if (!pv && !h_inited[p]) return fail("order/init-before-parent", "onInit ran although the parent's onInit has not succeeded" + ctx());
            if (n <= last_init) return fail("order/init-not-in-registration-order", "onInit order within one initialize() is not parent-first / registration order" + ctx());
            last_init = n;
            if (e.ok) { h_inited[n] = 1; init_stack.push_back(n); } else saw_hook_failure = true;
            break;
        case K_START:
            if (call != CALL_START && call != CALL_ANY) return fail("call/start-hook-outside-start", "onStart ran inside " + std::string(kCallName[call]) + "()" + ctx());
            if (!h_inited[n]) return fail("automaton/start-without-init", "onStart ran on a module whose onInit has not succeeded (or was already cleaned up)" + ctx());
            if (h_started[n]) return fail("automaton/start-while-started", "onStart ran again although the previous successful onStart has not been followed by onStop" + ctx());
            if (!pv && !h_started[p]) return fail("order/start-before-parent", "onStart ran although the parent's onStart has not succeeded" + ctx());
            if (n <= last_start) return fail("order/start-not-in-registration-order", "onStart order within one start() is not parent-first / registration order" + ctx());
            last_start = n;
            if (e.ok) { h_started[n] = 1; start_stack.push_back(n); } else saw_hook_failure = true;
            break;
        case K_STOP:
            if (!h_started[n]) return fail("automaton/stop-without-start", "onStop ran on a module that is not started" + ctx());
            if (start_stack.empty() || start_stack.back() != n)
                return fail("order/stop-not-reverse-of-start", vh::fmt("onStop(%d) ran while module %d, started later, is still started", n, start_stack.empty() ? -1 : start_stack.back()) + ctx());
            start_stack.pop_back();
            h_started[n] = 0;
            break;
        case K_CLEANUP:
            if (!h_inited[n]) return fail("automaton/cleanup-without-init", "onCleanup ran on a module that is not initialised" + ctx());
            if (h_started[n]) return fail("automaton/cleanup-while-started", "onCleanup ran on a module whose successful onStart has not been followed by onStop" + ctx());
            if (init_stack.empty() || init_stack.back() != n)
                return fail("order/cleanup-not-reverse-of-init", vh::fmt("onCleanup(%d) ran while module %d, initialised later, is still initialised", n, init_stack.empty() ? -1 : init_stack.back()) + ctx());
            init_stack.pop_back();
            h_inited[n] = 0;
            break;
        }
    }

    // ---- layer 2: the recursive reference ----------------------------------------------------
    // It consumes the observed hooks of one kind in order; the outcome of a hook is read from the
    // observed event (the fault plan decides it inside the probe), everything else is predicted.
    struct Cursor {
        std::vector<Ev> seq; size_t pos = 0; bool mismatch = false; std::string why;
    };
    void set_subtree(int m, uint8_t from_min, uint8_t to) {
        if (m_state[m] >= from_min) m_state[m] = to;
        for (int c : t.n[m].kids) set_subtree(c, from_min, to);
    }
    bool expect(Cursor &c, Kind k, int m, bool &ok) {
        if (c.mismatch) return false;
        if (c.pos >= c.seq.size()) {
            c.mismatch = true;
            c.why = vh::fmt("%s hook of module %d never ran (hooks of that kind seen: %s)", kKindName[k], m, ev_str(c.seq).c_str());
            return false;
        }
        if (c.seq[c.pos].node != m) {
            c.mismatch = true;
            c.why = vh::fmt("expected the %s hook of module %d at position %zu, saw module %d (hooks of that kind seen: %s)",
                            kKindName[k], m, c.pos, c.seq[c.pos].node, ev_str(c.seq).c_str());
            return false;
        }
        ok = c.seq[c.pos].ok;
        ++c.pos;
        return true;
    }
    bool ref_init(int m, Cursor &c) {
        const Node &x = t.n[m];
        if (x.cfg_missing) return false;
        bool ok = true;
        if (!is_virtual(m)) { if (!expect(c, K_INIT, m, ok)) return false; }
        if (!ok) return false;
        bool sib_ok = false;
        for (int k : x.kids) {
            bool r = ref_init(k, c);
            if (c.mismatch) return false;
            if (!r && t.n[k].required) {
                saw_req_early[0] = true;
                if (sib_ok) saw_req_after_sibling[0] = true;
                if (m != 0 && !x.required) saw_half_built_optional[0] = true;
                set_subtree(m, 0, 0);
                return false;
            }
            if (!r) saw_opt_continue[0] = true; else sib_ok = true;
        }
        m_state[m] = 1;
        return true;
    }
    bool ref_start(int m, Cursor &c) {
        const Node &x = t.n[m];
        if (m_state[m] != 1) return false;
        bool ok = true;
        if (!is_virtual(m)) { if (!expect(c, K_START, m, ok)) return false; }
        if (!ok) return false;
        bool sib_ok = false;
        for (int k : x.kids) {
            const bool attempted = m_state[k] == 1;   // a child whose initialize() failed is skipped, not "failing"
            bool r = ref_start(k, c);
            if (c.mismatch) return false;
            if (!r && t.n[k].required) {
                saw_req_early[1] = true;
                if (sib_ok) saw_req_after_sibling[1] = true;
                if (m != 0 && !x.required) saw_half_built_optional[1] = true;
                set_subtree(m, 2, 1);
                return false;
            }
            if (!r) { if (attempted) saw_opt_continue[1] = true; } else sib_ok = true;
        }
        m_state[m] = 2;
        return true;
    }

    static std::vector<Ev> of_kind(const std::vector<Ev> &evs, Kind k) {
        std::vector<Ev> o;
        for (auto &e : evs) if (e.k == k) o.push_back(e);
        return o;
    }

    bool hooks_match_model() const {
        for (size_t i = 0; i < N; ++i) {
            if (is_virtual((int)i)) continue;
            if ((h_inited[i] != 0) != (m_state[i] >= 1)) return false;
            if ((h_started[i] != 0) != (m_state[i] == 2)) return false;
        }
        return true;
    }
    bool hooks_clean() const { return init_stack.empty() && start_stack.empty(); }

    std::string leftovers() const {
        std::string o;
        for (size_t i = 0; i < N; ++i) {
            if (is_virtual((int)i)) continue;
            bool hi = h_inited[i], hs = h_started[i], mi = m_state[i] >= 1, ms = m_state[i] == 2;
            if (hi != mi || hs != ms)
                o += vh::fmt(" module %zu: hooks leave it %s, a completed/rolled-back call would leave it %s;", i,
                             hs ? "started" : hi ? "initialised" : "clean", ms ? "started" : mi ? "initialised" : "clean");
        }
        return o;
    }

    //! one explicit call on the root. ret: -1 for the void calls, else the bool returned
    void on_call(Call call, const std::vector<Ev> &evs, int ret) {
        if (dead) return;
        const bool was_sync = in_sync;
        const uint8_t root_before = m_state[0];
        int last_init = -1, last_start = -1;
        for (auto &e : evs) { apply(e, call, last_init, last_start, evs); if (dead) return; }

        if (was_sync) {
            ++predicted_calls;
            if (call == CALL_INIT && root_before == 0) {
                Cursor c; c.seq = of_kind(evs, K_INIT);
                bool r = ref_init(0, c);
                if (c.mismatch) return fail("predict/init-sequence", "initialize(): " + c.why);
                if (r && c.pos != c.seq.size())
                    return fail("predict/init-sequence", vh::fmt("initialize() succeeded but ran extra onInit hooks after position %zu: %s", c.pos, ev_str(c.seq).c_str()));
                if (ret != (r ? 1 : 0))
                    return fail("predict/initialize-return", vh::fmt("initialize() returned %s, own hook and all required children %s (hooks: %s)",
                                ret ? "true" : "false", r ? "succeeded" : "did not all succeed", ev_str(evs).c_str()));
            } else if (call == CALL_START && root_before == 1) {
                Cursor c; c.seq = of_kind(evs, K_START);
                bool r = ref_start(0, c);
                if (c.mismatch) return fail("predict/start-sequence", "start(): " + c.why);
                if (r && c.pos != c.seq.size())
                    return fail("predict/start-sequence", vh::fmt("start() succeeded but ran extra onStart hooks after position %zu: %s", c.pos, ev_str(c.seq).c_str()));
                if (ret != (r ? 1 : 0))
                    return fail("predict/start-return", vh::fmt("start() returned %s, own hook and all required initialised children %s (hooks: %s)",
                                ret ? "true" : "false", r ? "succeeded" : "did not all succeed", ev_str(evs).c_str()));
            } else if (call == CALL_STOP && root_before == 2) {
                if (!start_stack.empty())
                    return fail("predict/stop-incomplete", vh::fmt("stop() on a running tree left module %d started (hooks: %s)", start_stack.back(), ev_str(evs).c_str()));
                for (auto &e : evs) if (e.k != K_STOP)
                    return fail("predict/stop-ran-other-hooks", "stop() ran hooks other than onStop: " + ev_str(evs));
                set_subtree(0, 2, 1);
            } else if (call == CALL_CLEANUP && root_before != 0) {
                if (!hooks_clean())
                    return fail("predict/cleanup-incomplete", vh::fmt("cleanup() left module %d %s (hooks: %s)",
                                !start_stack.empty() ? start_stack.back() : init_stack.back(), !start_stack.empty() ? "started" : "initialised", ev_str(evs).c_str()));
                set_subtree(0, 0, 0);
            } else {
                // repeated or out-of-order call on a tree that is in sync: nothing to do, no hook may run
                if (!evs.empty())
                    return fail("predict/hooks-in-noop-call", vh::fmt("%s() on a tree whose root is %s ran hooks: %s", kCallName[call],
                                root_before == 0 ? "not initialised" : root_before == 1 ? "initialised" : "running", ev_str(evs).c_str()));
            }
            if (!hooks_match_model()) {
                in_sync = false;
                if (taint.empty()) {
                    taint = call == CALL_INIT ? "unwind/failed-initialize-left-standing" : call == CALL_START ? "unwind/failed-start-left-standing" : "unwind/other";
                    taint_what = vh::fmt("%s() left the part of the tree that failed half built:%s", kCallName[call], leftovers().c_str());
                }
            }
        } else {
            ++unsynced_calls;
            // weak return-value rule only
            if (call == CALL_INIT && ret == 1 && !is_virtual(0) && !h_inited[0])
                return fail("weak/initialize-true-root-not-initialised", "initialize() returned true but the root's onInit has not succeeded");
            if (call == CALL_START && ret == 1 && !is_virtual(0) && !h_started[0])
                return fail("weak/start-true-root-not-started", "start() returned true but the root's onStart has not succeeded");
            if (hooks_clean()) {            // everything that was built has been taken down again
                std::fill(m_state.begin(), m_state.end(), 0);
                in_sync = true;
                taint.clear(); taint_what.clear();
            }
        }
    }

    //! Module::state() of one probe, read between two root calls (0 none, 1 initialised, 2 running)
    void check_state(int node, int s) {
        if (dead || is_virtual(node)) return;
        if (s == 2 && !h_started[node])
            return fail("state/running-but-onstart-not-succeeded", vh::fmt("module %d reports kRunning but has no successful onStart outstanding", node));
        if (s >= 1 && !h_inited[node])
            return fail("state/initialised-but-oninit-not-succeeded", vh::fmt("module %d reports %s but has no successful onInit outstanding", node, s == 2 ? "kRunning" : "kInited"));
        if (in_sync && s != m_state[node])
            return fail("state/differs-from-reference", vh::fmt("module %d reports state %d, the reference says %d (0 none, 1 initialised, 2 running)", node, s, m_state[node]));
    }

    //! a whole run through main::Main() or main::Start()+Stop(): initialize once, start once if that
    //! succeeded, stop if that succeeded, cleanup if initialize succeeded; the call boundaries are not
    //! visible from the hooks, so the Init and the Start hooks are each judged as one sequence.
    //! returns 0 if the reference says initialize fails, 1 if start fails, 2 if the tree ran
    int on_run(const std::vector<Ev> &evs) {
        // reference first (it only reads the observed hook outcomes), then the invariants event by event
        Cursor ci; ci.seq = of_kind(evs, K_INIT);
        const bool r = ref_init(0, ci);
        run_after_init = m_state;
        Cursor cs; cs.seq = of_kind(evs, K_START);
        const bool r2 = (r && !ci.mismatch) ? ref_start(0, cs) : false;
        run_after_start = m_state;
        // one key per root cause: if a rule breaks while a module that the reference says a failed
        // initialize()/start() must not leave initialised/started is still standing, name that
        whole_run = !ci.mismatch && !cs.mismatch;

        int li = -1, ls = -1;
        for (auto &e : evs) { apply(e, CALL_ANY, li, ls, evs); if (dead) return -1; }
        if (ci.mismatch) { fail("predict/init-sequence", "initialize(): " + ci.why); return -1; }
        if (r && ci.pos != ci.seq.size()) { fail("predict/init-sequence", "initialize() succeeded but ran extra onInit hooks: " + ev_str(ci.seq)); return -1; }
        if (!r) {
            if (!cs.seq.empty()) { fail("predict/start-after-failed-initialize", "onStart hooks ran although initialize() of the root failed: " + ev_str(cs.seq)); return -1; }
            return 0;
        }
        if (cs.mismatch) { fail("predict/start-sequence", "start(): " + cs.why); return -1; }
        if (r2 && cs.pos != cs.seq.size()) { fail("predict/start-sequence", "start() succeeded but ran extra onStart hooks: " + ev_str(cs.seq)); return -1; }
        return r2 ? 2 : 1;
    }
    std::vector<uint8_t> run_after_init, run_after_start;
    bool whole_run = false;
    void resolve_whole_run_taint() {
        if (!whole_run || !taint.empty()) return;
        std::string left;
        if (saw_req_early[0]) {
            for (size_t i = 0; i < N; ++i)
                if (!is_virtual((int)i) && run_after_init[i] == 0 && h_inited[i]) left += vh::fmt(" module %zu still initialised;", i);
            if (!left.empty()) {
                taint = "unwind/failed-initialize-left-standing";
                taint_what = "initialize() left the part of the tree that failed half built:" + left;
                return;
            }
        }
        if (saw_req_early[1]) {
            for (size_t i = 0; i < N; ++i)
                if (!is_virtual((int)i) && run_after_start[i] != 2 && h_started[i]) left += vh::fmt(" module %zu still started;", i);
            if (!left.empty()) {
                taint = "unwind/failed-start-left-standing";
                taint_what = "start() left the part of the tree that failed half started:" + left;
            }
        }
    }

    //! hooks that ran while the tree was being destroyed (children of a root that was not cleaned up
    //! first still reach their overrides; the root's own hooks cannot)
    void on_destroy(const std::vector<Ev> &evs) {
        if (dead) return;
        int li = -1, ls = -1;
        for (auto &e : evs) { apply(e, CALL_CLEANUP, li, ls, evs); if (dead) return; }
    }

    //! the root was deleted without a closing cleanup(): its destructor must have taken every DESCENDANT down
    //! through its hooks (the root's own onStop/onCleanup are unreachable from its own destructor)
    void on_destroyed_without_cleanup() {
        if (dead) return;
        for (auto it = start_stack.rbegin(); it != start_stack.rend(); ++it)
            if (*it != 0 || is_virtual(0))
                return fail("destroy/descendant-left-started", vh::fmt("the root was deleted while running; module %d was deleted with a successful onStart that was never followed by onStop", *it));
        for (auto it = init_stack.rbegin(); it != init_stack.rend(); ++it)
            if (*it != 0 || is_virtual(0))
                return fail("destroy/descendant-left-initialised", vh::fmt("the root was deleted while initialised; module %d was deleted with a successful onInit that was never followed by onCleanup", *it));
    }

    //! after the last explicit cleanup() and the destruction of the tree
    void on_end() {
        if (dead) return;
        if (!start_stack.empty())
            return fail("balance/start-without-stop", vh::fmt("after cleanup() and destruction module %d has a successful onStart that was never followed by onStop", start_stack.back()));
        if (!init_stack.empty())
            return fail("balance/init-without-cleanup", vh::fmt("after cleanup() and destruction module %d has a successful onInit that was never followed by onCleanup", init_stack.back()));
    }
};

}  // namespace c11

#endif
