// C02: timers never fire early, never skip, never fire after disable.
//
// The real loop (epoll and select back-ends) runs under a virtual monotonic clock; every timer callback is judged, at the
// moment it arrives, against an independent model that is nothing but a list of (armed, deadline, interval) records.
//
// modes
//   timer       seeded histories over <= 8 event::TimerEvent objects: create / initialize / enable / disable / restart /
//               re-initialise / destroy, issued between loop passes, from a deferred task, or from inside timer callbacks
//               (on the firing timer itself or on another one, including one that is due in the very same pass); the clock
//               advance before each pass is drawn from {0, 1, d-1, d, d+1, k*d+r, exactly the nearest deadline, one ms
//               before it, far beyond every deadline}; callbacks may also advance the clock (a slow callback)
//   pool        the same protocol through eventx::TimerPool: doEvery / doAfter / cancel (live, stale, self, a timer due in
//               the same pass) / cleanup, outside and inside callbacks
//   exhaustive  one case = one (interval/mode configuration of 3 timers, callback action) pair; inside it EVERY script of
//               --depth symbols over {enable i, disable i, destroy i, pass with advance 0..7} is run
//   far         64 enumerated cases: one timer (one-shot / persistent) with an interval around 2^31, 2^32, 30 days, alone or next
//               to a 5 ms one-shot, on both back-ends; passes land at 0, d/2, d-1, d (and 2d, 4d+3) with no task pending, so
//               the loop computes a real timeout for the kernel each time
//   realtime    no virtual clock: timers on a loop that really sleeps in epoll_wait/select; never-early against
//               steady_clock, nothing due before the exit timer may be missing when runLoop returns; a loop that sleeps
//               for ever is caught by the watchdog
//
// oracle per callback: the timer exists and is armed in the model; clock >= its deadline (t_enable + k*d); no other armed
// timer has a smaller deadline (deadline order, ties free); a one-shot reports isEnabled()==false inside its callback.
// per pass: when the pass is over no armed timer has a deadline <= the clock value the pass started with (no period
// skipped, however late the loop woke); isEnabled() of every timer equals the model. Before a pass getWaitTime() (through
// a probe subclass) must be in [0, nearest deadline - now] whenever a timer is armed.
#include "common/vh.hpp"

#include <tbox/event/loop.h>
#include <tbox/event/timer_event.h>
#include <tbox/event/verif_hooks.h>
#include <tbox/event/engines/epoll/loop.h>
#include <tbox/event/engines/select/loop.h>
#include <tbox/eventx/timer_pool.h>

#include <algorithm>
#include <chrono>
#include <deque>
#include <memory>
#include <set>
#include <sys/epoll.h>
#include <sys/select.h>
#include <sys/syscall.h>

// ---- the timeout the loop hands to the kernel -----------------------------------------------------------------------------
// The harness defines epoll_wait() and select() itself (the statically linked loop code binds to these definitions) and
// forwards to the raw system calls. With g_kw_mode == 0 (realtime leg) the call is passed through unchanged. With
// g_kw_mode == 1 (virtual clock: real time means nothing) the requested timeout is reported to g_kw_hook and the kernel is
// asked not to block at all.
namespace {
int g_kw_mode = 0;
void (*g_kw_hook)(bool infinite, int64_t micros) = nullptr;
}
extern "C" int epoll_wait(int epfd, struct epoll_event *events, int maxevents, int timeout) {
    if (g_kw_mode) {
        if (g_kw_hook) g_kw_hook(timeout < 0, (int64_t)timeout * 1000);
        timeout = 0;
    }
    return (int)syscall(SYS_epoll_pwait, epfd, events, maxevents, timeout, (void *)0, (size_t)8);
}
extern "C" int select(int nfds, fd_set *rs, fd_set *ws, fd_set *es, struct timeval *tv) {
    struct timespec ts = {0, 0}, *pts = nullptr;
    if (g_kw_mode) {
        if (g_kw_hook) { if (!tv) g_kw_hook(true, -1); else g_kw_hook(false, (int64_t)tv->tv_sec * 1000000 + tv->tv_usec); }
        pts = &ts;
    } else if (tv) {
        ts.tv_sec = tv->tv_sec; ts.tv_nsec = (long)tv->tv_usec * 1000; pts = &ts;
    }
    return (int)syscall(SYS_pselect6, nfds, rs, ws, es, pts, (void *)0);
}

using tbox::event::Event;
using tbox::event::Loop;
using tbox::event::TimerEvent;
using tbox::eventx::TimerPool;
typedef std::chrono::milliseconds Ms;

namespace {

// ---- cheap counters (flushed into vh::counter once per case) ----------------------------------------------------------
struct CSlot { const char *name; uint64_t v; bool is_max; };
std::deque<CSlot> &cslots() { static std::deque<CSlot> d; return d; }
uint64_t *creg(const char *name, bool is_max = false) {
    cslots().push_back(CSlot{name, 0, is_max});
    return &cslots().back().v;
}
#define CNT(name) do { static uint64_t *p_ = creg(name); ++*p_; } while (0)
#define CNTN(name, n) do { static uint64_t *p_ = creg(name); *p_ += (n); } while (0)
#define CMAX(name, val) do { static uint64_t *p_ = creg(name, true); if ((uint64_t)(val) > *p_) *p_ = (val); } while (0)
void flush_counters() {
    for (auto &c : cslots()) {
        if (!c.v) continue;
        if (c.is_max) vh::counter_max(c.name, c.v); else vh::counter(c.name, c.v);
        c.v = 0;
    }
}

// ---- virtual clock ----------------------------------------------------------------------------------------------------
uint64_t g_clock = 0;
uint64_t clock_fn() { return g_clock; }

// ---- loops with the protected getWaitTime() exposed ---------------------------------------------------------------------
struct ProbeEpoll : tbox::event::EpollLoop { int64_t wt() const { return getWaitTime(); } };
struct ProbeSelect : tbox::event::SelectLoop { int64_t wt() const { return getWaitTime(); } };

struct LoopBox {
    Loop *loop = nullptr;
    ProbeEpoll *pe = nullptr;
    ProbeSelect *ps = nullptr;
    bool epoll = true;
    void make(bool use_epoll) {
        epoll = use_epoll;
        if (use_epoll) { pe = new ProbeEpoll; loop = pe; CNT("engine_epoll"); }
        else { ps = new ProbeSelect; loop = ps; CNT("engine_select"); }
    }
    int64_t wait() const { return pe ? pe->wt() : ps->wt(); }
    void destroy() { delete loop; loop = nullptr; pe = nullptr; ps = nullptr; }
};

// ---- the model ----------------------------------------------------------------------------------------------------------
struct Ent {
    bool exists = false;        // object alive (TimerEvent) / token live (pool)
    bool inited = false;
    bool persist = false;
    bool armed = false;
    bool oneshot_done = false;  // one-shot already delivered since its last enable
    bool rearmed = false;       // current arming is a re-enable (after disable / after a one-shot fired)
    bool ever_armed = false;
    uint64_t d = 0, deadline = 0, t_enable = 0, k = 0, gen = 0, fires = 0;
    uint64_t pass_seen = 0;     // pass number of the last fire (catch-up counter)
    int fires_in_pass = 0;
};

struct AbortCase {};

struct Core {
    LoopBox lb;
    vh::Rng *r = nullptr;
    std::vector<Ent> e;
    std::string fam;            // key prefix: "timer" | "pool"
    uint64_t pass_now = 0, pass_no = 0, base = 0;   // base: clock value the script started with (the log is relative to it)
    bool in_pass = false, failed = false;
    bool record = true;
    std::string log;
    std::function<std::string()> lazy_desc;
    vh::Sig sig;
    uint64_t callbacks = 0;
    int fired_in_pass = 0, last_fired = -1;
    uint64_t last_deadline_fired = 0;
    int max_armed = 0;
    bool cb_mut = false, late2d = false;
    std::string order_suspect, wait_suspect, kwait_suspect;
    uint64_t ops_since_pass = 0, quiet_streak = 0;   // operations issued since the previous pass began / consecutive passes without any
    size_t wait_at = 0, kwait_at = 0;      // length of the script log when the suspicion arose
    uint64_t after_fail = 0;    // callbacks that still arrive after the case failed (a loop that spins is left by exception)

    std::string last_note;
    int note_rep = 0;
    //! script log; an entry repeated back to back (catch-up invocations) is written once with a repeat count
    void note(const std::string &s) {
        if (!record || log.size() >= 5500) return;
        if (s == last_note) { ++note_rep; return; }
        flush_rep();
        log += s; log += ' ';
        last_note = s;
    }
    void flush_rep() { if (note_rep > 0) { log += vh::fmt("(x%d) ", note_rep + 1); note_rep = 0; } last_note.clear(); }

    void fail(const std::string &key, const std::string &detail, size_t desc_len = std::string::npos) {
        if (failed) return;
        failed = true;
        flush_rep();
        vh::st().case_desc = lazy_desc ? lazy_desc() : (desc_len < log.size() ? log.substr(0, desc_len) + "<- here" : log);
        vh::viol(key_filter ? key_filter(key) : key, detail);
    }
    std::function<std::string(const std::string &)> key_filter;

    int armed_count() const { int n = 0; for (auto &x : e) n += x.armed; return n; }
    bool min_deadline(uint64_t &m) const {
        bool any = false;
        for (auto &x : e) if (x.armed && (!any || x.deadline < m)) { m = x.deadline; any = true; }
        return any;
    }
    bool max_deadline(uint64_t &m) const {
        bool any = false;
        for (auto &x : e) if (x.armed && (!any || x.deadline > m)) { m = x.deadline; any = true; }
        return any;
    }

    void arm(int i, bool re) {
        Ent &E = e[i];
        E.armed = true; E.t_enable = g_clock; E.k = 0; E.deadline = g_clock + E.d; E.oneshot_done = false; E.rearmed = re; E.ever_armed = true;
        int n = armed_count();
        if (n > max_armed) max_armed = n;
        CMAX("max_armed_at_once", n);
        if (n >= 2) { int same = 0; for (auto &x : e) same += (x.armed && x.deadline == E.deadline); if (same >= 2) CNT("armed_sharing_a_deadline"); }
    }
    //! bookkeeping when an armed record is taken out of the order (disable / destroy / cancel)
    void note_removal(int i) {
        Ent &E = e[i];
        if (!E.armed) return;
        int n = armed_count();
        uint64_t lo = 0, hi = 0; min_deadline(lo); max_deadline(hi);
        if (n >= 3 && E.deadline > lo && E.deadline < hi) CNT("removed_from_middle_of_deadline_order");
        if (n >= 2 && E.deadline == lo) CNT("removed_nearest_deadline");
        if (in_pass && E.deadline <= pass_now) CNT("removed_while_due_in_this_pass");
    }

    //! judge one callback of record i. false: a violation was reported, the case is over
    bool fire_oracle(int i, const char *what) {
        Ent &E = e[i];
        ++callbacks;
        if (!in_pass) { fail(fam + "/callback/outside-a-loop-pass", vh::fmt("%s #%d", what, i)); return false; }
        if (!E.armed) {
            const char *cls = !E.exists ? "after-destroy-or-cancel" : (E.oneshot_done ? "oneshot-fired-again" : "while-disabled");
            fail(fam + "/callback/" + cls, vh::fmt("%s #%d invoked at clock=%llu (pass started at %llu) but it is not armed: exists=%d oneshot_done=%d d=%llu",
                                                   what, i, (unsigned long long)g_clock, (unsigned long long)pass_now, E.exists, E.oneshot_done, (unsigned long long)E.d));
            return false;
        }
        if (g_clock < E.deadline) {
            fail(fam + "/callback/early", vh::fmt("%s #%d (%s d=%llu) invocation %llu since enable at t=%llu arrived at clock=%llu, before t+k*d=%llu",
                                                  what, i, E.persist ? "persistent" : "one-shot", (unsigned long long)E.d, (unsigned long long)E.k + 1,
                                                  (unsigned long long)E.t_enable, (unsigned long long)g_clock, (unsigned long long)E.deadline));
            return false;
        }
        uint64_t mind = 0; min_deadline(mind);
        if (E.deadline > mind && order_suspect.empty()) {
            // another armed timer has an earlier deadline. Whether this is an ORDER violation (the other one fires later in
            // the same pass, or is disarmed before its turn) or a MISSED fire (the other one never comes) is decided when the
            // pass is over; the missed fire takes precedence.
            int other = -1; for (size_t j = 0; j < e.size(); ++j) if (e[j].armed && e[j].deadline == mind) { other = (int)j; break; }
            order_suspect = vh::fmt("%s #%d with deadline %llu was invoked while #%d with deadline %llu was armed and due (pass started at %llu)",
                                    what, i, (unsigned long long)E.deadline, other, (unsigned long long)mind, (unsigned long long)pass_now);
        }
        if (E.persist) CNT("fires_persistent"); else CNT("fires_oneshot");
        if (fired_in_pass > 0 && last_fired != i && last_deadline_fired == E.deadline) CNT("ties_two_timers_same_deadline_same_pass");
        if (E.pass_seen == pass_no && E.fires_in_pass > 0) CNT("catchup_fires_same_pass");
        if (E.pass_seen != pass_no) { E.pass_seen = pass_no; E.fires_in_pass = 0; }
        ++E.fires_in_pass;
        CMAX("max_fires_of_one_timer_in_one_pass", E.fires_in_pass);
        if (E.rearmed && E.k == 0) CNT("first_fire_after_reenable_checked_against_fresh_interval");
        if (E.deadline == pass_now) CNT("fired_exactly_on_deadline");
        ++fired_in_pass; last_fired = i; last_deadline_fired = E.deadline;
        ++E.k; ++E.fires;
        if (E.persist) {
            E.deadline += E.d;
            // where does the re-armed deadline land among the other pending ones? (2-4 pending: root and its children)
            int n = 0, earlier = 0, later_eq = 0;
            for (auto &x : e) if (x.armed) { ++n; if (&x != &E) { if (x.deadline < E.deadline) ++earlier; else ++later_eq; } }
            if (n == 3 && earlier == 1 && later_eq == 1) CNT("rearm_with_exactly_3_pending_lands_between_the_other_two");
            if (n == 3 && earlier == 2) CNT("rearm_with_exactly_3_pending_lands_behind_both_others");
            if (n == 3 && earlier == 0) CNT("rearm_with_exactly_3_pending_keeps_the_front");
            if (n == 2 && earlier == 1) CNT("rearm_with_exactly_2_pending_lands_behind_the_other");
            if (n == 4 && earlier >= 1 && later_eq >= 1) CNT("rearm_with_exactly_4_pending_lands_between_others");
        }
        else { E.armed = false; E.oneshot_done = true; }
        return true;
    }

    std::function<std::string(int)> missed_key;   // optional override of the key of a missed fire

    void begin_pass(uint64_t adv) {
        g_clock += adv;
        pass_now = g_clock;
        ++pass_no;
        fired_in_pass = 0; last_fired = -1; order_suspect.clear();
        CNT("passes");
        sig.add(adv);
        if (record) note(vh::fmt("|+%llu", (unsigned long long)adv));
        uint64_t mind = 0;
        if (min_deadline(mind)) {
            if (mind == pass_now) CNT("pass_started_exactly_on_nearest_deadline");
            if (mind == pass_now + 1) CNT("pass_started_one_ms_before_nearest_deadline");
            if (mind > pass_now) CNT("pass_with_nothing_due");
        }
        int due = 0;
        for (auto &x : e) {
            if (!x.armed || x.deadline > pass_now) continue;
            ++due;
            if (x.persist && x.deadline + x.d <= pass_now) { late2d = true; CNT("late_wake_two_or_more_periods"); }
            if (!x.persist && x.deadline + x.d <= pass_now) { late2d = true; CNT("late_wake_oneshot_overdue_by_an_interval"); }
        }
        if (due >= 3) CNT("pass_with_three_or_more_timers_due");
        // tiny populations: the heap's root and its two children are the whole story when 2-4 timers are pending
        {
            int n = armed_count(), front = -1;
            for (size_t i = 0; i < e.size(); ++i) if (e[i].armed && (front < 0 || e[i].deadline < e[front].deadline)) front = (int)i;
            bool pf = front >= 0 && e[front].persist;
            if (n == 2 && pf) CNT("passes_with_exactly_2_pending_timers_and_periodic_front");
            if (n == 3 && pf) CNT("passes_with_exactly_3_pending_timers_and_periodic_front");
            if (n == 4 && pf) CNT("passes_with_exactly_4_pending_timers_and_periodic_front");
            if (ops_since_pass == 0) {
                ++quiet_streak; CNT("passes_with_no_operation_since_the_previous_pass");
                if (n == 3 && pf) CNT("quiet_passes_with_exactly_3_pending_timers_and_periodic_front");
                CMAX("max_consecutive_passes_without_any_operation", quiet_streak);
            } else quiet_streak = 0;
            ops_since_pass = 0;
        }
        in_pass = true;
    }

    void end_pass() {
        in_pass = false;
        if (failed) return;
        for (size_t i = 0; i < e.size(); ++i) {
            Ent &E = e[i];
            if (E.armed && E.deadline <= pass_now) {
                std::string key = missed_key ? missed_key((int)i)
                                             : fam + (E.persist ? "/missed/persistent-period-skipped" : "/missed/oneshot-due-not-fired");
                fail(key, vh::fmt("#%zu (%s d=%llu, enabled at t=%llu, %llu invocations since) has deadline %llu but was not invoked in the pass that started at clock=%llu",
                                  i, E.persist ? "persistent" : "one-shot", (unsigned long long)E.d, (unsigned long long)E.t_enable,
                                  (unsigned long long)E.k, (unsigned long long)E.deadline, (unsigned long long)pass_now));
                return;
            }
        }
        if (!order_suspect.empty()) { fail(fam + "/order/later-deadline-fired-first", order_suspect); return; }
        if (fired_in_pass == 0) CNT("passes_without_callback"); else CNT("passes_with_callback");
    }

    //! end of the script: a wait-time suspicion that no missed fire explained is reported on its own
    void finish_script() {
        if (!failed && !wait_suspect.empty()) fail("loop/wait-time/longer-than-nearest-deadline", wait_suspect, wait_at);
        if (!failed && !kwait_suspect.empty()) fail("loop/kernel-wait/longer-than-nearest-deadline", kwait_suspect, kwait_at);
    }

    //! "the loop sleeps no longer than the nearest deadline"
    void check_wait() {
        if (failed) return;
        int64_t w = lb.wait();
        uint64_t mind = 0;
        if (!min_deadline(mind)) { CNT("wait_time_read_with_no_timer_armed"); return; }
        int64_t bound = mind > g_clock ? (int64_t)(mind - g_clock) : 0;
        if (w < 0 || w > bound) {
            // reported at the end of the script unless a timer turns out to be lost altogether (then the missed fire is the finding)
            if (wait_suspect.empty()) { flush_rep(); wait_at = log.size(); }
            if (wait_suspect.empty())
                wait_suspect = vh::fmt("getWaitTime()=%lld with the nearest armed deadline %lld ms away (clock=%llu, pass %llu)", (long long)w, (long long)bound,
                                       (unsigned long long)g_clock, (unsigned long long)pass_no);
            return;
        }
        if (bound > 0 && w == bound) CNT("wait_time_equals_distance_to_nearest_deadline");
        if (bound == 0) CNT("wait_time_zero_with_overdue_timer");
    }

    //! one runLoop(kOnce) pass. Without the no-op task the loop computes a real timeout for the kernel (seen by the interposer)
    void once_pass(uint64_t adv, bool noop) {
        begin_pass(adv);
        if (noop) lb.loop->runNext([] {}); else CNT("once_pass_without_pending_task");
        lb.loop->runLoop(Loop::Mode::kOnce);
        end_pass();
    }

    //! the same bound on the timeout the loop really hands to epoll_wait()/select() (seen by the interposed functions)
    void on_kernel_wait(bool infinite, int64_t micros) {
        if (failed) return;
        CNT("kernel_waits_observed");
        uint64_t mind = 0;
        if (!min_deadline(mind)) return;
        uint64_t bound_ms = mind > g_clock ? mind - g_clock : 0;
        bool too_long = infinite || micros < 0 || (uint64_t)micros > bound_ms * 1000 + 0;
        if (bound_ms > (uint64_t)1 << 53) too_long = infinite || micros < 0;     // bound * 1000 would not fit; nothing that large is generated
        if (too_long) {
            if (kwait_suspect.empty()) { flush_rep(); kwait_at = log.size(); }
            if (kwait_suspect.empty())
                kwait_suspect = vh::fmt("%s asked the kernel to wait %s (%lld us) while the nearest armed deadline is %llu ms away (clock=%llu, pass %llu)",
                                        lb.epoll ? "epoll_wait" : "select", infinite ? "indefinitely" : "too long", (long long)micros,
                                        (unsigned long long)bound_ms, (unsigned long long)g_clock, (unsigned long long)pass_no);
            return;
        }
        if (bound_ms > 0 && micros > 0) CNT("kernel_wait_positive_timeout_within_bound");
        if (bound_ms >= ((uint64_t)1 << 31) && micros > 0) CNT("kernel_wait_with_nearest_deadline_beyond_2^31_ms");
    }

    //! clock advance before a pass, drawn relative to what is armed
    uint64_t pick_adv() {
        std::vector<int> a;
        for (size_t i = 0; i < e.size(); ++i) if (e[i].armed) a.push_back((int)i);
        if (a.empty()) return r->below(20);
        Ent &T = e[a[r->below(a.size())]];
        uint64_t mind = 0, maxd = 0; min_deadline(mind); max_deadline(maxd);
        uint64_t maxiv = 1; for (int i : a) maxiv = std::max(maxiv, e[i].d);
        uint64_t adv = 0;
        switch (r->below(13)) {
            case 0: adv = 0; break;
            case 1: adv = 1; break;
            case 2: adv = T.d - 1; break;
            case 3: adv = T.d; break;
            case 4: adv = T.d + 1; break;
            case 5: case 6: adv = (uint64_t)r->range(2, 10) * T.d + r->below(T.d); break;
            case 7: case 8: adv = mind > g_clock ? mind - g_clock : 0; break;
            case 9: adv = mind > g_clock + 1 ? mind - g_clock - 1 : 0; break;
            case 10: adv = (maxd > g_clock ? maxd - g_clock : 0) + r->below(3 * maxiv + 1); break;
            case 11: adv = T.deadline > g_clock ? T.deadline - g_clock : 0; break;
            default: adv = r->below(2 * maxiv + 2); break;
        }
        // keep the number of catch-up callbacks of one pass bounded
        uint64_t est = 0;
        for (int i : a) if (e[i].persist) est += adv / e[i].d;
        if (est > 300) adv = adv * 300 / est;
        return adv;
    }
};

Core *g_core = nullptr;
void kw_hook(bool infinite, int64_t micros) { if (g_core) g_core->on_kernel_wait(infinite, micros); }
struct CoreScope { explicit CoreScope(Core *c) { g_core = c; } ~CoreScope() { g_core = nullptr; } };

uint64_t pick_t0(vh::Rng &r) {
    switch (r.below(10)) {
        case 0: return 0;
        case 1: return r.below(100);
        case 2: return (1ULL << 32) - r.below(300);            // deadlines cross 2^32
        case 3: return (1ULL << 31) - r.below(300);
        case 4: return (1ULL << 32) * 1000 - r.below(300);     // 2^32 seconds
        case 5: return (1ULL << 53) + r.below(1000);
        case 6: return (r.next() >> 2) & ~0xffffULL;           // ~2^62: far from any wrap but huge
        default: return 1000000ULL + (r.next() >> 24);         // "a random large value"
    }
}

std::vector<uint64_t> pick_palette(vh::Rng &r) {
    std::vector<uint64_t> p;
    switch (r.below(8)) {
        case 0: { uint64_t d = (uint64_t)r.range(1, 50); p.push_back(d); CNT("palette_single_interval"); break; }   // everything ties
        case 1: p = {1, 2, 3}; break;
        case 2: p = {5, 10, 20, 40}; break;                                   // harmonic: deadlines coincide again and again
        case 3: p = {1, 1, 2, 50}; break;
        case 4:   // far-away deadlines (an alarm armed days ahead): the distance no longer fits the kernel's int milliseconds
            p = {(1ULL << 31) - 1, 1ULL << 31, (1ULL << 31) + 1, (1ULL << 32) + 7, 2592000000ULL, 3 * (1ULL << 31) + 5, 1, 40};
            CNT("palette_with_intervals_beyond_2^31_ms");
            break;
        default: for (int i = 0; i < 6; ++i) p.push_back((uint64_t)r.range(1, 50)); break;
    }
    return p;
}

// =========================================================================================================================
// family 1: event::TimerEvent
// =========================================================================================================================
struct TimerWorld : Core {
    std::vector<TimerEvent *> ev;
    uint64_t gen_ctr = 0;
    std::vector<uint64_t> palette;
    int cb_rate = 0;
    std::function<void(int)> cb_program;

    TimerWorld() { fam = "timer"; }

    void setup(bool epoll, int nslots) {
        lb.make(epoll);
        e.assign(nslots, Ent());
        ev.assign(nslots, nullptr);
    }

    uint64_t pick_d() { return palette[r->below(palette.size())]; }

    void check_enabled(int j, const char *after) {
        if (failed || !ev[j]) return;
        bool en = ev[j]->isEnabled();
        if (en != e[j].armed)
            fail(std::string("timer/isenabled/mismatch-after-") + after,
                 vh::fmt("timer #%d: isEnabled()=%d, model says %d after %s at clock=%llu", j, en, e[j].armed, after, (unsigned long long)g_clock));
    }

    void create(int j) {
        ev[j] = lb.loop->newTimerEvent("c02");
        e[j] = Ent();
        e[j].exists = true;
        uint64_t gen = e[j].gen = ++gen_ctr;
        ev[j]->setCallback([this, j, gen] { on_fire(j, gen); });
        sig.add(0x100 + j);
        ++ops_since_pass;
        if (record) note(vh::fmt("new#%d", j));
        CNT("op_create");
        if (in_pass) CNT("op_create_in_callback_or_task");
    }
    void init(int j, uint64_t d, bool persist) {
        Ent &E = e[j];
        if (E.armed) { note_removal(j); CNT("op_initialize_while_enabled"); }
        ev[j]->initialize(Ms((int64_t)d), persist ? Event::Mode::kPersist : Event::Mode::kOneshot);
        E.inited = true; E.d = d; E.persist = persist; E.armed = false;
        sig.add(0x200 + j); sig.add(d * 2 + persist);
        ++ops_since_pass;
        if (record) note(vh::fmt("init#%d(%llu,%s)", j, (unsigned long long)d, persist ? "persist" : "oneshot"));
        CNT("op_initialize");
        check_enabled(j, "initialize");
    }
    void enable(int j) {
        Ent &E = e[j];
        bool r0 = ev[j]->enable();
        sig.add(0x300 + j);
        ++ops_since_pass;
        if (record) note(vh::fmt("en#%d", j));
        if (!E.inited) { CNT("op_enable_uninitialised"); (void)r0; check_enabled(j, "enable-uninitialised"); return; }
        if (E.armed) { CNT("op_enable_while_enabled_noop"); check_enabled(j, "enable"); return; }
        bool re = E.ever_armed;
        arm(j, re);
        CNT("op_enable");
        if (re) CNT("op_reenable");
        if (in_pass) CNT("op_enable_inside_pass");
        check_enabled(j, "enable");
    }
    void disable(int j) {
        Ent &E = e[j];
        if (E.armed) { note_removal(j); CNT("op_disable_armed"); }
        else if (E.oneshot_done) CNT("op_disable_after_oneshot_fired_noop");
        else CNT("op_disable_not_armed_noop");
        ev[j]->disable();
        E.armed = false;
        sig.add(0x400 + j);
        ++ops_since_pass;
        if (record) note(vh::fmt("dis#%d", j));
        check_enabled(j, "disable");
    }
    void destroy(int j) {
        Ent &E = e[j];
        if (E.armed) { note_removal(j); CNT("op_destroy_armed"); } else CNT("op_destroy_idle");
        delete ev[j];
        ev[j] = nullptr;
        E.exists = false; E.armed = false; E.inited = false;
        sig.add(0x500 + j);
        ++ops_since_pass;
        if (record) note(vh::fmt("del#%d", j));
    }

    void on_fire(int j, uint64_t gen) {
        if (failed) { if (++after_fail > 20000) throw AbortCase(); return; }
        if (!e[j].exists || e[j].gen != gen) {
            ++callbacks;
            fail("timer/callback/after-destroy-or-cancel", vh::fmt("callback of a destroyed timer object (slot %d) at clock=%llu", j, (unsigned long long)g_clock));
            return;
        }
        if (record) note(vh::fmt("<fire#%d@+%llu>", j, (unsigned long long)(g_clock - base)));
        CNT("timer_event_callbacks");
        if (!fire_oracle(j, "timer")) return;
        bool en = ev[j]->isEnabled();
        if (en != e[j].armed) {
            fail(e[j].persist ? "timer/isenabled/persistent-not-enabled-in-callback" : "timer/isenabled/oneshot-still-enabled-in-callback",
                 vh::fmt("timer #%d isEnabled()=%d inside its callback", j, en));
            return;
        }
        if (!e[j].persist) CNT("oneshot_isenabled_false_in_callback_checked");
        if (cb_program) cb_program(j);
    }

    void check_all_enabled(const char *when) {
        for (size_t j = 0; j < ev.size() && !failed; ++j) check_enabled((int)j, when);
    }

    // ---- random generator ----
    void outside_op() {
        int j = (int)r->below(e.size());
        Ent &E = e[j];
        if (!E.exists) {
            create(j); init(j, pick_d(), r->chance(1, 2));
            if (r->chance(5, 6)) enable(j);
            return;
        }
        unsigned x = (unsigned)r->below(100);
        if (E.armed) {
            if (x < 32) disable(j);
            else if (x < 54) { disable(j); enable(j); CNT("op_restart"); }
            else if (x < 64) { init(j, pick_d(), r->chance(1, 2)); if (r->chance(7, 10)) enable(j); }
            else if (x < 74) destroy(j);
            else if (x < 80) enable(j);
            else {  // rather arm something else
                for (size_t k = 0; k < e.size(); ++k) if (e[k].exists && e[k].inited && !e[k].armed) { enable((int)k); return; }
                disable(j);
            }
        } else {
            if (x < 60) { if (E.inited) enable(j); else { init(j, pick_d(), r->chance(1, 2)); enable(j); } }
            else if (x < 68) disable(j);
            else if (x < 84) { init(j, pick_d(), r->chance(1, 2)); if (r->chance(7, 10)) enable(j); }
            else if (x < 93) destroy(j);
            else if (r->chance(1, 3) && !E.inited) enable(j);
            else if (E.inited) enable(j);
        }
    }

    void cb_random(int i) {
        static const unsigned rate[4] = {0, 10, 35, 70};
        if (r->below(100) >= rate[cb_rate]) return;
        int nops = 1 + (r->chance(1, 4) ? 1 : 0);
        for (int n = 0; n < nops && !failed; ++n) {
            unsigned x = (unsigned)r->below(100);
            if (!e[i].exists) return;
            if (x < 13) { if (record) note("{self"); bool was = e[i].armed; disable(i); if (was) CNT("cb_disable_self"); cb_mut = true; if (record) note("}"); }
            else if (x < 26) { if (record) note("{self"); disable(i); enable(i); CNT("cb_restart_self"); cb_mut = true; if (record) note("}"); }
            else if (x < 31) { if (record) note("{self"); init(i, pick_d(), r->chance(1, 2)); if (r->chance(3, 5)) enable(i); CNT("cb_reinit_self"); cb_mut = true; if (record) note("}"); }
            else if (x < 36) {
                uint64_t gen = e[i].gen;
                if (record) note(vh::fmt("{defer-del#%d}", i));
                lb.loop->runNext([this, i, gen] {
                    if (failed || !e[i].exists || e[i].gen != gen) return;
                    if (record) note("{task");
                    if (e[i].armed) CNT("deferred_self_destroy_while_armed");
                    destroy(i); CNT("cb_deferred_destroy_self_executed");
                    if (record) note("}");
                });
                cb_mut = true;
            }
            else if (x < 43) {
                uint64_t a = r->below(2 * e[i].d + 1);
                g_clock += a; CNT("cb_clock_advanced_inside_callback"); sig.add(0x900 + a);
                if (record) note(vh::fmt("{clock+%llu}", (unsigned long long)a));
            }
            else {
                if (e.size() < 2) continue;
                int j = -1;
                if (r->chance(1, 2)) {   // prefer a timer that is due in this very pass
                    std::vector<int> due;
                    for (size_t k = 0; k < e.size(); ++k) if ((int)k != i && e[k].armed && e[k].deadline <= pass_now) due.push_back((int)k);
                    if (!due.empty()) j = due[r->below(due.size())];
                }
                if (j < 0) { j = (int)r->below(e.size() - 1); if (j >= i) ++j; }
                Ent &O = e[j];
                bool due = O.armed && O.deadline <= pass_now;
                if (record) note(vh::fmt("{other"));
                cb_mut = true;
                if (!O.exists) { create(j); init(j, pick_d(), r->chance(1, 2)); if (r->chance(4, 5)) enable(j); CNT("cb_create_other"); }
                else if (O.armed) {
                    unsigned y = (unsigned)r->below(100);
                    if (y < 40) { disable(j); CNT("cb_disable_other"); if (due) CNT("cb_disable_other_due_in_same_pass"); }
                    else if (y < 65) { disable(j); enable(j); CNT("cb_restart_other"); if (due) CNT("cb_restart_other_due_in_same_pass"); }
                    else if (y < 75) { init(j, pick_d(), r->chance(1, 2)); if (r->chance(3, 5)) enable(j); CNT("cb_reinit_other"); }
                    else { destroy(j); CNT("cb_destroy_other"); if (due) CNT("cb_destroy_other_due_in_same_pass"); }
                } else {
                    unsigned y = (unsigned)r->below(100);
                    if (y < 50 && O.inited) { enable(j); CNT("cb_enable_other"); }
                    else if (y < 65) { init(j, pick_d(), r->chance(1, 2)); enable(j); CNT("cb_reinit_other"); }
                    else if (y < 85) { destroy(j); CNT("cb_destroy_other_idle"); }
                    else disable(j);
                }
                if (record) note("}");
            }
        }
    }

    //! destroy everything, run one more pass far in the future (nothing may fire), release the loop
    void teardown() {
        for (size_t j = 0; j < ev.size(); ++j) if (ev[j]) { delete ev[j]; ev[j] = nullptr; e[j].exists = false; e[j].armed = false; }
        if (!failed) {
            begin_pass(500);
            lb.loop->runNext([] {});
            lb.loop->runLoop(Loop::Mode::kOnce);
            end_pass();
        }
        lb.loop->cleanup();
        lb.destroy();
    }
};

void age_loop(TimerWorld &w, int n) {
    // churn the loop's cabinet / object pool / heap before the script: n short-lived timers, some fired, some cancelled
    std::vector<TimerEvent *> tmp;
    int fired = 0;
    for (int i = 0; i < n; ++i) {
        TimerEvent *t = w.lb.loop->newTimerEvent("age");
        t->initialize(Ms(1 + i % 3), (i % 4 == 0) ? Event::Mode::kPersist : Event::Mode::kOneshot);
        t->setCallback([&fired] { ++fired; });
        t->enable();
        tmp.push_back(t);
    }
    for (size_t i = 0; i < tmp.size(); i += 3) tmp[i]->disable();
    g_clock += 2;
    w.lb.loop->runNext([] {});
    w.lb.loop->runLoop(Loop::Mode::kOnce);
    for (auto t : tmp) delete t;
    w.lb.loop->runNext([] {});
    w.lb.loop->runLoop(Loop::Mode::kOnce);
    CNT("cases_on_aged_loop");
    if (n > 64) CNT("cases_on_loop_aged_beyond_pool_retention");
    (void)fired;
}

void timer_random_case(uint64_t idx, vh::Rng &r) {
    TimerWorld w;
    CoreScope scope(&w);
    w.r = &r;
    static const int kSlots[] = {1, 2, 3, 3, 4, 4, 5, 6, 8, 8};
    int nslots = r.pick(kSlots);
    if (r.chance(1, 16)) { nslots = r.chance(1, 2) ? 24 : 70; CNT("cases_with_24_or_70_timer_slots"); }   // heap depth 5-7, beyond the record pool's retention of 64
    // tiny quiet population: 2-4 timers, a short periodic one plus timers whose deadlines fall between its successive deadlines,
    // long stretches of passes with no enable/disable at all (a disable rebuilds the loop's heap and would hide a misplaced entry)
    bool tiny = r.chance(3, 10);
    uint64_t tiny_p = 0;
    if (tiny) { static const int kTiny[] = {2, 3, 3, 3, 4, 4}; nslots = r.pick(kTiny); tiny_p = (uint64_t)r.range(1, 10); CNT("cases_tiny_quiet_population"); }
    w.setup((idx & 1) == 0, nslots);
    g_clock = pick_t0(r);
    uint64_t t0 = g_clock;
    w.base = t0;
    w.palette = pick_palette(r);
    w.cb_rate = (int)r.below(4);
    bool forever = r.chance(1, 2);
    w.record = true;
    w.cb_program = [&w](int i) { w.cb_random(i); };
    w.note(vh::fmt("engine=%s drive=%s t0=%llu slots=%d%s:", w.lb.epoll ? "epoll" : "select", forever ? "forever" : "once", (unsigned long long)t0, nslots, tiny ? " tiny" : ""));
    if (!tiny && r.chance(1, 4)) { static const int kAge[] = {5, 70, 140}; age_loop(w, r.pick(kAge)); }
    int nsteps = (int)r.range(5, 26);
    if (tiny) {
        uint64_t q = tiny_p;
        w.palette = {q, q + q / 2 + 1, 2 * q + q / 2 + 1, 3 * q + 1, 10 * q, 7 * q + 3};
        w.cb_rate = r.chance(3, 4) ? 0 : 1;
        nsteps = (int)r.range(12, 40);
    }
    if (forever) CNT("drive_inside_runloop_forever"); else CNT("drive_runloop_once_per_pass");

    // first step: populate
    auto populate = [&] {
        if (tiny) {     // everything armed at one instant; the enable order (= heap layout) is shuffled
            std::vector<int> order;
            for (int j = 0; j < nslots; ++j) order.push_back(j);
            for (int j = nslots - 1; j > 0; --j) std::swap(order[j], order[r.below(j + 1)]);
            for (int j : order) {
                if (w.failed) break;
                w.create(j);
                if (j == 0) w.init(j, tiny_p, true); else w.init(j, w.pick_d(), r.chance(1, 3));
                w.enable(j);
            }
            return;
        }
        for (int j = 0; j < nslots && !w.failed; ++j) {
            if (r.chance(1, 8)) continue;
            w.create(j); w.init(j, w.pick_d(), r.chance(1, 2));
            if (r.chance(9, 10)) w.enable(j);
        }
    };
    auto ops = [&] {
        if (tiny) {     // mostly nothing; when something, preferably re-arming an idle timer (a push, not a rebuild)
            if (!r.chance(1, 7)) return;
            if (r.chance(3, 4)) {
                std::vector<int> idle;
                for (int j = 0; j < nslots; ++j) if (w.e[j].exists && w.e[j].inited && !w.e[j].armed) idle.push_back(j);
                if (!idle.empty()) { w.enable(idle[r.below(idle.size())]); return; }
            }
            w.outside_op();
            return;
        }
        static const int kN[] = {0, 0, 1, 1, 1, 2, 3};
        int n = r.pick(kN);
        for (int k = 0; k < n && !w.failed; ++k) w.outside_op();
    };
    auto advance = [&](bool last) -> uint64_t {
        if (tiny && !last && r.chance(1, 2)) return (uint64_t)r.range(1, (int64_t)(2 * tiny_p));   // step through the periodic timer's rhythm
        return last ? w.pick_adv() + 60 : w.pick_adv();
    };

    if (!forever) {
        populate();
        for (int s = 0; s < nsteps && !w.failed; ++s) {
            if (s > 0) ops();
            w.check_wait();
            if (w.failed) break;
            uint64_t adv = advance(s == nsteps - 1);
            w.once_pass(adv, r.chance(1, 2));
            w.check_all_enabled("pass");
        }
    } else {
        populate();     // issued before the loop runs
        int s = 0;
        bool pending = false;
        std::function<void()> drive = [&] {
            if (pending) { w.end_pass(); pending = false; w.check_all_enabled("pass"); }
            if (w.failed || s >= nsteps) { w.in_pass = false; w.lb.loop->exitLoop(); return; }
            if (s > 0) { if (w.record) w.note("{task"); ops(); if (w.record) w.note("}"); }
            w.check_wait();
            if (w.failed) { w.in_pass = false; w.lb.loop->exitLoop(); return; }
            uint64_t adv = advance(s == nsteps - 1);
            ++s;
            w.begin_pass(adv);
            pending = true;
            w.lb.loop->runNext([&drive] { drive(); });
        };
        // the first pass is started from outside
        w.check_wait();
        w.begin_pass(w.pick_adv());
        pending = true; ++s;
        w.lb.loop->runNext([&drive] { drive(); });
        w.lb.loop->runLoop(Loop::Mode::kForever);
        w.in_pass = false;
    }

    // tail: half of the cases disable everything first and prove silence while the objects still exist
    if (!w.failed && r.chance(1, 2)) {
        for (int j = 0; j < nslots && !w.failed; ++j) if (w.ev[j]) w.disable(j);
        if (!w.failed) {
            w.begin_pass(200);
            w.lb.loop->runNext([] {});
            w.lb.loop->runLoop(Loop::Mode::kOnce);
            w.end_pass();
            CNT("tail_all_disabled_then_far_pass");
        }
    }
    w.finish_script();
    if (w.failed) { if (tiny) CNT("violating_cases_tiny_quiet_population"); else CNT("violating_cases_other_populations"); }
    bool nontrivial = w.max_armed >= 3 && (w.cb_mut || w.late2d) && w.callbacks > 0;
    if (w.cb_mut) CNT("cases_with_in_callback_mutation");
    if (w.late2d) CNT("cases_with_late_wake");
    CMAX("max_callbacks_in_one_case", w.callbacks);
    w.flush_rep();
    std::string log = w.log;
    uint64_t cbs = w.callbacks;
    w.teardown();
    vh::note_case(w.sig.h, nontrivial);
    if (nontrivial && !w.failed && vh::want_sample() && cbs > 3 && cbs < 40)
        vh::sample("{\"family\":\"timer\",\"callbacks\":" + std::to_string(cbs) + ",\"script\":" + vh::jstr(log.substr(0, 1500)) + "}");
}

// =========================================================================================================================
// family 2: eventx::TimerPool
// =========================================================================================================================
struct PoolWorld : Core {
    TimerPool *pool = nullptr;
    std::vector<TimerPool::TimerToken> tok;
    std::vector<bool> pre_cleanup;      // token issued before the last cleanup()
    std::set<std::pair<size_t, size_t>> issued;
    bool token_reissued = false, had_cleanup = false;
    std::vector<uint64_t> palette;
    int cb_rate = 0;
    size_t create_cap = 90;
    int firing = -1;

    PoolWorld() { fam = "pool"; }

    uint64_t pick_d() { return palette[r->below(palette.size())]; }

    void setup(bool epoll) {
        lb.make(epoll);
        pool = new TimerPool(lb.loop);
        e.reserve(256); tok.reserve(256);
        // Once the pool has handed out a token equal to one it issued before (observed at the API boundary), two timers answer
        // to one token and every later symptom (a live timer that stops firing, fires out of turn, or a loop that sleeps past it)
        // has that one cause: they are reported under one key that names the history shape.
        key_filter = [this](const std::string &k) {
            if (token_reissued) return std::string("pool/live-timer-lost-after-cleanup-reissued-its-token");
            return k;
        };
    }

    int live_count() const { return armed_count(); }

    void add(bool persist, uint64_t d) {
        if (e.size() >= create_cap) return;
        int i = (int)e.size();
        e.push_back(Ent());
        Ent &E = e[i];
        E.exists = true; E.inited = true; E.persist = persist; E.d = d;
        TimerPool::Callback cb = [this, i] { on_fire(i); };
        TimerPool::TimerToken t = persist ? pool->doEvery(Ms((int64_t)d), std::move(cb)) : pool->doAfter(Ms((int64_t)d), std::move(cb));
        tok.push_back(t);
        pre_cleanup.push_back(false);
        arm(i, false);
        auto key = std::make_pair(t.id(), t.pos());
        if (!issued.insert(key).second) { token_reissued = true; CNT("pool_token_equal_to_an_earlier_one"); }
        sig.add(0x100 + persist); sig.add(d);
        ++ops_since_pass;
        if (record) note(vh::fmt("%s#%d(%llu)", persist ? "every" : "after", i, (unsigned long long)d));
        if (persist) CNT("op_doEvery"); else CNT("op_doAfter");
        if (in_pass) CNT("op_add_inside_pass");
    }
    void cancel(int i) {
        Ent &E = e[i];
        bool was = E.armed;
        if (was) note_removal(i);
        bool ret = pool->cancel(tok[i]);
        E.armed = false; E.exists = false;
        sig.add(0x400 + i);
        ++ops_since_pass;
        if (record) note(vh::fmt("cancel#%d=%d", i, ret));
        if (was) CNT("op_cancel_live");
        else {
            CNT("op_cancel_stale_token");
            if (pre_cleanup[i]) CNT("op_cancel_token_from_before_cleanup");
            if (ret && i != firing) CNT("cancel_of_stale_token_answered_true");
        }
    }
    void cleanup() {
        int n = armed_count();
        pool->cleanup();
        for (size_t i = 0; i < e.size(); ++i) { e[i].armed = false; e[i].exists = false; pre_cleanup[i] = true; }
        had_cleanup = true;
        sig.add(0x700);
        ++ops_since_pass;
        if (record) note("cleanup");
        CNT("op_cleanup");
        if (n > 0) CNT("op_cleanup_with_live_timers");
        if (in_pass) CNT("op_cleanup_inside_pass");
    }

    void on_fire(int i) {
        if (failed) { if (++after_fail > 20000) throw AbortCase(); return; }
        if (record) note(vh::fmt("<fire#%d@+%llu>", i, (unsigned long long)(g_clock - base)));
        if (e[i].persist) CNT("pool_doEvery_callbacks"); else CNT("pool_doAfter_callbacks");
        if (!fire_oracle(i, "pool timer")) return;
        if (!e[i].persist) e[i].exists = false;   // its token is stale once the callback has returned
        firing = i;
        cb_random(i);
        firing = -1;
    }

    std::vector<int> live() const { std::vector<int> v; for (size_t i = 0; i < e.size(); ++i) if (e[i].armed) v.push_back((int)i); return v; }
    std::vector<int> stale() const { std::vector<int> v; for (size_t i = 0; i < e.size(); ++i) if (!e[i].armed) v.push_back((int)i); return v; }

    int pick_stale() {
        std::vector<int> s = stale();
        if (s.empty()) return -1;
        if (r->chance(1, 2)) { std::vector<int> p; for (int i : s) if (pre_cleanup[i]) p.push_back(i); if (!p.empty()) return p[r->below(p.size())]; }
        return s[r->below(s.size())];
    }

    void outside_op() {
        std::vector<int> l = live();
        unsigned x = (unsigned)r->below(100);
        if (l.size() < 3 || x < 38) { if (l.size() < 10) add(r->chance(1, 2), pick_d()); else cancel(l[r->below(l.size())]); }
        else if (x < 68) cancel(l[r->below(l.size())]);
        else if (x < 86) { int s = pick_stale(); if (s >= 0) cancel(s); else add(r->chance(1, 2), pick_d()); }
        else if (x < 92) cleanup();
        else add(r->chance(1, 2), pick_d());
    }

    void cb_random(int i) {
        static const unsigned rate[4] = {0, 10, 35, 70};
        if (r->below(100) >= rate[cb_rate]) return;
        int nops = 1 + (r->chance(1, 4) ? 1 : 0);
        for (int n = 0; n < nops && !failed; ++n) {
            unsigned x = (unsigned)r->below(100);
            if (record) note("{");
            if (x < 16) { bool was = e[i].armed; cancel(i); if (was) CNT("cb_cancel_self_persistent"); else CNT("cb_cancel_self_oneshot_already_fired"); cb_mut = true; }
            else if (x < 46) {
                std::vector<int> l = live(), due;
                for (int k : l) if (k != i && e[k].deadline <= pass_now) due.push_back(k);
                int j = -1;
                if (!due.empty() && r->chance(2, 3)) j = due[r->below(due.size())];
                else { std::vector<int> o; for (int k : l) if (k != i) o.push_back(k); if (!o.empty()) j = o[r->below(o.size())]; }
                if (j >= 0) { bool d2 = e[j].deadline <= pass_now; cancel(j); CNT("cb_cancel_other"); if (d2) CNT("cb_cancel_other_due_in_same_pass"); cb_mut = true; }
            }
            else if (x < 72) { if (live_count() < 12) { add(r->chance(1, 2), pick_d()); CNT("cb_add"); cb_mut = true; } }
            else if (x < 84) { int s = pick_stale(); if (s >= 0) { cancel(s); cb_mut = true; } }
            else if (x < 90) { cleanup(); CNT("cb_cleanup"); cb_mut = true; if (r->chance(2, 3)) { add(r->chance(1, 2), pick_d()); CNT("cb_add_right_after_cleanup"); } }
            else {
                uint64_t a = r->below(2 * e[i].d + 1);
                g_clock += a; CNT("cb_clock_advanced_inside_callback"); sig.add(0x900 + a);
                if (record) note(vh::fmt("clock+%llu", (unsigned long long)a));
            }
            if (record) note("}");
        }
    }

    void teardown() {
        delete pool;    // loop not running: timers are deleted at once
        pool = nullptr;
        for (auto &x : e) { x.armed = false; x.exists = false; }
        if (!failed) {
            begin_pass(500);
            lb.loop->runNext([] {});
            lb.loop->runLoop(Loop::Mode::kOnce);
            end_pass();
        }
        lb.loop->cleanup();
        lb.destroy();
    }
};

void pool_random_case(uint64_t idx, vh::Rng &r) {
    PoolWorld w;
    CoreScope scope(&w);
    w.r = &r;
    w.setup((idx & 1) == 0);
    g_clock = pick_t0(r);
    uint64_t t0 = g_clock;
    w.base = t0;
    w.palette = pick_palette(r);
    w.cb_rate = (int)r.below(4);
    bool forever = r.chance(1, 2);
    // tiny quiet population (see timer_random_case): 2-4 pool timers, one short doEvery, quiet stretches, population topped up with doAfter
    bool tiny = r.chance(3, 10);
    uint64_t tiny_p = (uint64_t)r.range(1, 10);
    int tiny_n = 0;
    w.note(vh::fmt("engine=%s drive=%s t0=%llu%s:", w.lb.epoll ? "epoll" : "select", forever ? "forever" : "once", (unsigned long long)t0, tiny ? " tiny" : ""));
    int nsteps = (int)r.range(5, 24);
    if (tiny) {
        static const int kTiny[] = {2, 3, 3, 3, 4, 4};
        tiny_n = r.pick(kTiny);
        uint64_t q = tiny_p;
        w.palette = {q, q + q / 2 + 1, 2 * q + q / 2 + 1, 3 * q + 1, 10 * q, 7 * q + 3};
        w.cb_rate = r.chance(3, 4) ? 0 : 1;
        nsteps = (int)r.range(12, 40);
        CNT("cases_tiny_quiet_population");
    }
    if (forever) CNT("drive_inside_runloop_forever"); else CNT("drive_runloop_once_per_pass");

    auto populate = [&] {
        if (tiny) {
            int at = (int)r.below(tiny_n);      // position of the short periodic timer in the creation order (= heap layout)
            for (int k = 0; k < tiny_n; ++k) { if (k == at) w.add(true, tiny_p); else w.add(r.chance(1, 3), w.pick_d()); }
            return;
        }
        int n = (int)r.range(1, 7); for (int k = 0; k < n; ++k) w.add(r.chance(1, 2), w.pick_d());
    };
    auto ops = [&] {
        if (tiny) {     // mostly nothing; a fired one-shot is replaced now and then (an insertion, not a rebuild); cancels are rare
            if (!r.chance(1, 7)) return;
            if (w.live_count() < tiny_n && r.chance(4, 5)) { w.add(false, w.pick_d()); return; }
            w.outside_op();
            return;
        }
        static const int kN[] = {0, 0, 1, 1, 1, 2, 3};
        int n = r.pick(kN);
        for (int k = 0; k < n && !w.failed; ++k) w.outside_op();
    };
    auto advance = [&](bool last) -> uint64_t {
        if (tiny && !last && r.chance(1, 2)) return (uint64_t)r.range(1, (int64_t)(2 * tiny_p));
        return last ? w.pick_adv() + 60 : w.pick_adv();
    };
    if (!forever) {
        populate();
        for (int s = 0; s < nsteps && !w.failed; ++s) {
            if (s > 0) ops();
            w.check_wait();
            if (w.failed) break;
            uint64_t adv = advance(s == nsteps - 1);
            w.once_pass(adv, r.chance(1, 2));
        }
    } else {
        populate();
        int s = 0;
        bool pending = false;
        std::function<void()> drive = [&] {
            if (pending) { w.end_pass(); pending = false; }
            if (w.failed || s >= nsteps) { w.in_pass = false; w.lb.loop->exitLoop(); return; }
            if (s > 0) { if (w.record) w.note("{task"); ops(); if (w.record) w.note("}"); }
            w.check_wait();
            if (w.failed) { w.in_pass = false; w.lb.loop->exitLoop(); return; }
            uint64_t adv = advance(s == nsteps - 1);
            ++s;
            w.begin_pass(adv);
            pending = true;
            w.lb.loop->runNext([&drive] { drive(); });
        };
        w.check_wait();
        w.begin_pass(w.pick_adv());
        pending = true; ++s;
        w.lb.loop->runNext([&drive] { drive(); });
        w.lb.loop->runLoop(Loop::Mode::kForever);
        w.in_pass = false;
    }
    if (!w.failed && r.chance(1, 2)) {
        w.cleanup();
        w.begin_pass(200);
        w.lb.loop->runNext([] {});
        w.lb.loop->runLoop(Loop::Mode::kOnce);
        w.end_pass();
        CNT("tail_cleanup_then_far_pass");
    }
    w.finish_script();
    if (w.failed) { if (tiny) CNT("violating_cases_tiny_quiet_population"); else CNT("violating_cases_other_populations"); }
    bool nontrivial = w.max_armed >= 3 && (w.cb_mut || w.late2d) && w.callbacks > 0;
    if (w.cb_mut) CNT("cases_with_in_callback_mutation");
    if (w.late2d) CNT("cases_with_late_wake");
    CMAX("max_callbacks_in_one_case", w.callbacks);
    w.flush_rep();
    std::string log = w.log;
    uint64_t cbs = w.callbacks;
    w.teardown();
    vh::note_case(w.sig.h, nontrivial);
    if (nontrivial && !w.failed && vh::want_sample() && cbs > 3 && cbs < 40)
        vh::sample("{\"family\":\"pool\",\"callbacks\":" + std::to_string(cbs) + ",\"script\":" + vh::jstr(log.substr(0, 1500)) + "}");
}

// =========================================================================================================================
// exhaustive: 3 timers, d in {1,2,3} x {one-shot, persistent}, one callback action, every script of `depth` symbols
// =========================================================================================================================
const int kAlphabet = 17;   // 0-2 enable i, 3-5 disable i, 6-8 destroy i, 9-16 pass with advance 0..7
const int kActions = 25;    // 0 none; then per firing timer a: disable b (3), restart b (3), destroy b != a (2)
const int kConfigs = 216;

struct XAction { int a = -1, kind = 0, b = -1; };   // kind: 0 none, 1 disable, 2 restart, 3 destroy
XAction decode_action(int idx) {
    XAction x;
    if (idx == 0) return x;
    --idx;
    x.a = idx / 8;
    int k = idx % 8;
    if (k < 3) { x.kind = 1; x.b = k; }
    else if (k < 6) { x.kind = 2; x.b = k - 3; }
    else { x.kind = 3; int n = k - 6; x.b = 0; for (int c = 0, seen = 0; c < 3; ++c) { if (c == x.a) continue; if (seen == n) { x.b = c; break; } ++seen; } }
    return x;
}
std::string describe_symbol(int s) {
    if (s < 3) return vh::fmt("en#%d", s);
    if (s < 6) return vh::fmt("dis#%d", s - 3);
    if (s < 9) return vh::fmt("del#%d", s - 6);
    return vh::fmt("|+%d", s - 9);
}

void exhaustive_case(uint64_t idx, vh::Rng &r, int depth) {
    int cfg = (int)(idx / kActions) % kConfigs, actidx = (int)(idx % kActions);
    XAction act = decode_action(actidx);
    uint64_t dd[3]; bool pp[3];
    for (int i = 0, c = cfg; i < 3; ++i, c /= 6) { dd[i] = (uint64_t)(c % 6) % 3 + 1; pp[i] = (c % 6) >= 3; }
    uint64_t total = 1;
    for (int i = 0; i < depth; ++i) total *= kAlphabet;

    TimerWorld w;
    CoreScope scope(&w);
    w.r = &r;
    w.setup((idx & 1) == 0, 3);
    w.record = false;
    g_clock = 1000 + (idx % 7) * 1000003ULL;
    uint64_t script = 0;
    int pos = 0;
    bool active = false, final_done = false, pending = false;
    w.lazy_desc = [&] {
        std::string s = vh::fmt("exhaustive cfg=%d [", cfg);
        for (int i = 0; i < 3; ++i) s += vh::fmt("#%d:%s d=%llu%s", i, pp[i] ? "persist" : "oneshot", (unsigned long long)dd[i], i < 2 ? ", " : "");
        s += "] all enabled at t0 in index order; callback action: ";
        static const char *kn[] = {"none", "disable", "restart", "destroy"};
        s += act.kind ? vh::fmt("when #%d fires it does %s #%d", act.a, kn[act.kind], act.b) : std::string("none");
        s += vh::fmt("; script %llu:", (unsigned long long)script);
        uint64_t v = script;
        std::vector<int> sy;
        for (int i = 0; i < depth; ++i) { sy.push_back((int)(v % kAlphabet)); v /= kAlphabet; }
        for (int i = 0; i < pos && i < depth; ++i) s += " " + describe_symbol(sy[i]);
        if (final_done) s += " |+4(final)";
        return s;
    };
    w.cb_program = [&](int i) {
        if (i != act.a || act.kind == 0) return;
        int b = act.b;
        if (!w.e[b].exists) return;
        w.cb_mut = true;
        bool due = w.e[b].armed && w.e[b].deadline <= w.pass_now;
        switch (act.kind) {
            case 1: w.disable(b); CNT("cb_disable_other_or_self"); if (due && b != i) CNT("cb_disable_other_due_in_same_pass"); break;
            case 2: w.disable(b); w.enable(b); CNT("cb_restart_other_or_self"); if (due && b != i) CNT("cb_restart_other_due_in_same_pass"); break;
            case 3: w.destroy(b); CNT("cb_destroy_other"); if (due) CNT("cb_destroy_other_due_in_same_pass"); break;
        }
    };
    auto ensure = [&](int i) { if (!w.e[i].exists) { w.create(i); w.init(i, dd[i], pp[i]); } };
    auto begin_script = [&] {
        // objects that survived the previous script are re-initialised (that disables them), destroyed ones are re-created
        for (int i = 0; i < 3; ++i) { if (w.ev[i]) w.init(i, dd[i], pp[i]); else ensure(i); }
        g_clock += 50;
        for (int i = 0; i < 3; ++i) w.enable(i);
        pos = 0; active = true; final_done = false;
        w.max_armed = 0;
    };
    std::function<void()> drive = [&] {
        if (pending) { w.end_pass(); pending = false; w.check_all_enabled("pass"); }
        for (;;) {
            if (w.failed) break;
            if (!active) {
                if (script >= total) break;
                begin_script();
            }
            uint64_t v = script;
            for (int i = 0; i < pos; ++i) v /= kAlphabet;
            while (pos < depth && !w.failed) {
                int sym = (int)(v % kAlphabet); v /= kAlphabet; ++pos;
                if (sym < 3) { ensure(sym); w.enable(sym); }
                else if (sym < 6) { if (w.ev[sym - 3]) w.disable(sym - 3); }
                else if (sym < 9) { if (w.ev[sym - 6]) w.destroy(sym - 6); }
                else {
                    w.check_wait();
                    if (w.failed) break;
                    w.begin_pass((uint64_t)(sym - 9));
                    pending = true;
                    w.lb.loop->runNext([&drive] { drive(); });
                    return;
                }
            }
            if (w.failed) break;
            if (!final_done) {
                final_done = true;
                w.check_wait();
                if (w.failed) break;
                w.begin_pass(4);
                pending = true;
                w.lb.loop->runNext([&drive] { drive(); });
                return;
            }
            w.finish_script();
            if (w.failed) break;
            CNT("x_scripts");
            active = false;
            ++script;
        }
        w.in_pass = false;
        w.lb.loop->exitLoop();
    };
    w.lb.loop->runNext([&drive] { drive(); });
    w.lb.loop->runLoop(Loop::Mode::kForever);
    w.in_pass = false;
    uint64_t cbs = w.callbacks;
    w.lazy_desc = nullptr;
    w.teardown();
    vh::Sig sg; sg.add(idx); sg.add(depth);
    vh::note_case(sg.h, cbs > 0);
    CNT("x_groups");
    if (vh::want_sample(2))
        vh::sample(vh::fmt("{\"family\":\"exhaustive\",\"config\":%d,\"action\":%d,\"scripts\":%llu,\"callbacks\":%llu}", cfg, actidx,
                           (unsigned long long)total, (unsigned long long)cbs), 2);
}

// =========================================================================================================================
// far: deadlines further away than the kernel's int milliseconds can express (enumerated, 64 cases)
// =========================================================================================================================
const uint64_t kFar[8] = {(1ULL << 31) - 1, 1ULL << 31, (1ULL << 31) + 1, (1ULL << 32) - 1, 1ULL << 32, (1ULL << 32) + 7, 2592000000ULL, 3 * (1ULL << 31) + 5};

void far_case(uint64_t idx, vh::Rng &r) {
    bool epoll = (idx & 1) == 0, persist = (idx >> 1) & 1, with_near = (idx >> 5) & 1;
    uint64_t d = kFar[(idx >> 2) & 7];
    TimerWorld w;
    CoreScope scope(&w);
    w.r = &r;
    w.setup(epoll, 2);
    g_clock = 1000 + (idx >> 6) * 77;
    w.base = g_clock;
    w.note(vh::fmt("engine=%s drive=once t0=%llu:", epoll ? "epoll" : "select", (unsigned long long)g_clock));
    w.sig.add(idx);
    w.create(0); w.init(0, d, persist); w.enable(0);
    if (with_near) { w.create(1); w.init(1, 5, false); w.enable(1); }
    auto pass = [&](uint64_t adv) { if (!w.failed) { w.check_wait(); w.once_pass(adv, false); w.check_all_enabled("pass"); w.finish_script(); } };
    pass(0);                            // the loop goes to sleep with the far deadline (or the near one) ahead
    if (with_near) pass(5);             // the near one-shot fires, the far one stays
    pass(d / 2 - (with_near ? 5 : 0));  // half way
    pass(d - d / 2 - 1);                // one ms before the deadline: nothing
    uint64_t before = w.e[0].fires;
    pass(1);                            // exactly on it
    if (!w.failed && w.e[0].fires != before + 1) w.fail("timer/missed/far-deadline-not-served", "the far timer did not fire exactly once on its deadline");
    if (persist) { pass(d); pass(2 * d + 3); }
    if (!w.failed) { w.disable(0); pass(d + 1); }
    CNT("far_cases");
    w.flush_rep();
    uint64_t cbs = w.callbacks;
    std::string log = w.log;
    w.teardown();
    vh::note_case(w.sig.h, cbs > 0);
    if (vh::want_sample(1)) vh::sample("{\"family\":\"far\",\"callbacks\":" + std::to_string(cbs) + ",\"script\":" + vh::jstr(log.substr(0, 800)) + "}", 1);
}

// =========================================================================================================================
// realtime: real steady clock, the loop really sleeps
// =========================================================================================================================
uint64_t real_ms() {
    return (uint64_t)std::chrono::duration_cast<std::chrono::milliseconds>(std::chrono::steady_clock::now().time_since_epoch()).count();
}

void realtime_case(uint64_t idx, vh::Rng &r) {
    tbox::event::verif::SetSteadyClockMs(nullptr);
    g_kw_mode = 0;
    struct RT { TimerEvent *ev = nullptr; bool persist = false, armed = false, touched = false; uint64_t d = 0, t_before = 0, t_after = 0, k = 0, fires = 0; };
    bool epoll = (idx & 1) == 0;
    Loop *loop = Loop::New(epoll ? "epoll" : "select");
    if (epoll) CNT("engine_epoll"); else CNT("engine_select");
    int n = (int)r.range(2, 6);
    std::vector<RT> t(n);
    bool failed = false;
    std::string desc = vh::fmt("realtime engine=%s:", epoll ? "epoll" : "select");
    auto fail = [&](const std::string &key, const std::string &detail) { if (failed) return; failed = true; vh::st().case_desc = desc; vh::viol(key, detail); };
    int mut_at = (int)r.range(2, 5);
    int victim = n > 1 ? (int)r.range(1, n - 1) : -1;
    int mut_kind = (int)r.below(3);    // 0 none, 1 timer 0 disables the victim, 2 timer 0 restarts the victim
    auto enable = [&](int i) {
        t[i].t_before = real_ms();
        t[i].ev->enable();
        t[i].t_after = real_ms();
        t[i].armed = true; t[i].k = 0;
    };
    for (int i = 0; i < n; ++i) {
        t[i].ev = loop->newTimerEvent("rt");
        t[i].persist = (i == 0) ? true : r.chance(1, 2);
        t[i].d = (uint64_t)r.range(1, 15);
        desc += vh::fmt(" #%d(%s,%llu)", i, t[i].persist ? "persist" : "oneshot", (unsigned long long)t[i].d);
        t[i].ev->initialize(Ms((int64_t)t[i].d), t[i].persist ? Event::Mode::kPersist : Event::Mode::kOneshot);
        t[i].ev->setCallback([&, i] {
            uint64_t now = real_ms();
            RT &T = t[i];
            CNT("rt_callbacks");
            if (!T.armed) { fail("realtime/callback/while-disabled", vh::fmt("timer #%d fired while disabled", i)); return; }
            if (now < T.t_before + (T.k + 1) * T.d) {
                fail("realtime/callback/early", vh::fmt("timer #%d invocation %llu at %llu ms, enabled not before %llu, d=%llu", i, (unsigned long long)T.k + 1,
                                                        (unsigned long long)now, (unsigned long long)T.t_before, (unsigned long long)T.d));
                return;
            }
            ++T.k; ++T.fires;
            if (!T.persist) { T.armed = false; if (T.ev->isEnabled()) fail("realtime/isenabled/oneshot-still-enabled-in-callback", vh::fmt("timer #%d", i)); }
            if (i == 0 && (int)T.fires == mut_at && victim > 0 && mut_kind) {
                RT &V = t[victim];
                V.touched = true;
                V.ev->disable(); V.armed = false;
                if (mut_kind == 2) { enable(victim); CNT("rt_restart_in_callback"); } else CNT("rt_disable_in_callback");
            }
        });
    }
    for (int i = 0; i < n; ++i) enable(i);
    uint64_t W = (uint64_t)r.range(30, 70);
    uint64_t exit_before = real_ms();
    loop->exitLoop(Ms((int64_t)W));
    loop->runLoop(Loop::Mode::kForever);
    uint64_t e_low = exit_before + W;     // the exit timer's deadline is not before this
    for (int i = 0; i < n && !failed; ++i) {
        RT &T = t[i];
        if (T.touched) continue;
        // deadlines strictly before the exit timer's must have been served before the loop stopped
        uint64_t must = 0;
        for (uint64_t k = 1; T.t_after + k * T.d < e_low; ++k) { ++must; if (!T.persist) break; }
        if (T.fires < must)
            fail(T.persist ? "realtime/missed/persistent-period-skipped" : "realtime/missed/oneshot-due-not-fired",
                 vh::fmt("timer #%d (d=%llu) fired %llu times; %llu of its deadlines precede the exit timer's (enable returned at %llu, exit deadline >= %llu)",
                         i, (unsigned long long)T.d, (unsigned long long)T.fires, (unsigned long long)must, (unsigned long long)T.t_after, (unsigned long long)e_low));
        if (!T.persist && T.fires > 1) fail("realtime/callback/oneshot-fired-again", vh::fmt("timer #%d fired %llu times", i, (unsigned long long)T.fires));
        if (must > 0) CNT("rt_lower_bound_checked");
    }
    uint64_t total = 0;
    for (auto &x : t) total += x.fires;
    for (auto &x : t) delete x.ev;
    loop->cleanup();
    delete loop;
    tbox::event::verif::SetSteadyClockMs(clock_fn);
    g_kw_mode = 1;
    vh::Sig sg; sg.add(desc); sg.add(W);
    vh::note_case(sg.h, total > 0);
    if (vh::want_sample(1)) vh::sample("{\"family\":\"realtime\",\"callbacks\":" + std::to_string(total) + ",\"timers\":" + vh::jstr(desc) + "}", 1);
}

}  // namespace

int main(int argc, char **argv) {
    vh::parse_args(argc, argv);
    const std::string mode = vh::st().args.mode;
    long depth = vh::st().args.num("depth", 3);
    tbox::event::verif::SetSteadyClockMs(clock_fn);
    g_kw_mode = 1;
    g_kw_hook = kw_hook;
    if (mode == "xcount") { printf("%d\n", kConfigs * kActions); return 0; }
    return vh::run(argc, argv, [&](uint64_t idx, vh::Rng &r) {
        try {
            if (mode == "timer") timer_random_case(idx, r);
            else if (mode == "pool") pool_random_case(idx, r);
            else if (mode == "exhaustive") exhaustive_case(idx, r, (int)depth);
            else if (mode == "realtime") realtime_case(idx, r);
            else if (mode == "far") far_case(idx, r);
            else { fprintf(stderr, "VH-FATAL: unknown-mode\n"); abort(); }
        } catch (const AbortCase &) {
            // a violation was already reported and the loop kept spinning: the loop and its timers are abandoned (leaked)
            CNT("cases_left_by_exception_after_a_violation");
        }
        flush_counters();
    });
}
