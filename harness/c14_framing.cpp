// C14 (framing half): the three JSON-RPC framings are total and resumable.
//
// modes
//   stream    1-8 generated JSON-RPC messages (requests, notifications, results, errors, batches) with random
//             JSON payloads. (a) every message written by each framing's own encoder is decoded by a fresh
//             instance of that framing into an equal value; (b) for the two stream framings the concatenation
//             is fed whole, byte by byte, in random chunks, and cut in two at every position (all positions for
//             short streams, all positions near frame edges + random ones for long streams) through the
//             documented driver loop; the callback sequence must equal the generator's list every time.
//   hostile   random bytes, mutated frames (wrong magic, extreme length fields, truncation, corrupted bytes,
//             bracket/quote/backslash games, nesting, invalid UTF-8, non-RPC JSON): no exception, return value
//             <= size, valid messages in front of the damage still decoded, unambiguously malformed complete
//             frames reported by a negative return, and the segmented decode equals the unsegmented one.
//   deepnest  (plain build) nested arrays/objects 10^3..10^6 deep in each position of a message, decoded in a
//             forked child on an 8 MiB thread stack: death by signal = crash on hostile input.
#include "c14_common.hpp"

#include <algorithm>
#include <sys/wait.h>
#include <sys/resource.h>
#include <signal.h>

using namespace c14;

namespace {

struct Piece {
    std::string bytes;
    std::vector<Event> expect;
    const char *how = "";
};

uint16_t pick_magic(vh::Rng &r) {
    static const uint16_t m[] = {0xCAFE, 0x0000, 0xFFFF, 0x7B22 /* {" */, 0x5B5B /* [[ */, 0x2020, 0x0001, 0x0100, 0x227D};
    return r.chance(1, 2) ? r.pick(m) : (uint16_t)r.next();
}

//! independent forward scanner: for every cut position of a bare JSON text stream, is the cut inside a string?
void count_cut_kinds(const std::string &s, const std::vector<size_t> &cuts) {
    std::vector<uint8_t> in_str(s.size() + 1, 0), after_bs(s.size() + 1, 0);
    bool in = false, esc = false;
    for (size_t i = 0; i < s.size(); ++i) {
        in_str[i] = in; after_bs[i] = esc;
        char c = s[i];
        if (in) {
            if (esc) esc = false;
            else if (c == '\\') esc = true;
            else if (c == '"') in = false;
        } else if (c == '"') in = true;
    }
    in_str[s.size()] = in;
    for (size_t p : cuts) {
        if (p == 0 || p >= s.size()) continue;
        if (in_str[p]) {
            vh::counter("raw_cut_inside_string");
            if (after_bs[p]) vh::counter("raw_cut_right_after_backslash_in_string");
            char c = s[p];
            if (c == '{' || c == '}' || c == '[' || c == ']') vh::counter("raw_cut_before_bracket_inside_string");
            if (c == '"' && after_bs[p]) vh::counter("raw_cut_before_escaped_quote");
        }
    }
}

struct RunResult {
    std::vector<Event> ev;
    bool closed = false;
    ssize_t err = 0;
    std::string left;
    CallStat cs;
};

//! feed `s` cut at the given ascending positions through a fresh framing instance
RunResult run_segmented(int kind, uint16_t magic, const std::string &s, const std::vector<size_t> &cuts) {
    std::unique_ptr<Proto> p = make_proto(kind, magic);
    Recorder rec;
    rec.attach(*p);
    Driver d(*p, kind);
    size_t at = 0;
    for (size_t c : cuts) {
        if (c <= at || c >= s.size()) continue;
        d.feed(s.data() + at, c - at);
        at = c;
    }
    d.feed(s.data() + at, s.size() - at);
    RunResult rr;
    rr.ev = std::move(rec.ev);
    rr.closed = d.closed; rr.err = d.err; rr.left = d.buf; rr.cs = d.cs;
    return rr;
}

std::string cuts_text(const std::vector<size_t> &cuts, size_t n) {
    std::string o = vh::fmt("%zu bytes cut at [", n);
    for (size_t i = 0; i < cuts.size() && i < 24; ++i) o += vh::fmt(i ? ",%zu" : "%zu", cuts[i]);
    if (cuts.size() > 24) o += vh::fmt(",...(%zu cuts)", cuts.size());
    return o + "]";
}

bool only_space(const std::string &s) {
    for (char c : s) if (c != ' ' && c != '\n' && c != '\r' && c != '\t') return false;
    return true;
}

std::vector<size_t> random_cuts(vh::Rng &r, size_t n, int style) {
    std::vector<size_t> c;
    size_t at = 0;
    while (at < n) {
        size_t step;
        if (style == 0) step = (size_t)r.range(1, 7);
        else if (style == 1) step = (size_t)r.range(1, 64);
        else if (style == 2) { step = 1; while (step < 400 && r.chance(3, 4)) step *= 2; step = (size_t)r.range(1, (int64_t)step); }
        else step = (size_t)r.range(1500, 70000);
        at += step;
        if (at < n) c.push_back(at);
    }
    return c;
}

// ---------------------------------------------------------------------------------------------
// stream mode
// ---------------------------------------------------------------------------------------------
//! give the message a payload whose text is 66 000 .. 200 000 bytes long
void big_payload(vh::Rng &r, JGen &g, Msg &m) {
    if (m.kind == Msg::ERROR) m.kind = Msg::RESULT;
    Json o = Json::object();
    size_t n = (size_t)r.range(66000, 200000);
    std::string blob;
    blob.reserve(n + 64);
    while (blob.size() < n) { if (r.chance(1, 50)) blob += g.str(); else blob.append((size_t)r.range(1, 400), (char)('a' + r.below(26))); }
    o["blob"] = blob;
    o["tail"] = g.value(1, 3);
    m.payload = o;
    vh::counter("frames_longer_than_65535_bytes");
}

void check_valid_run(const char *what, int kind, const RunResult &rr, const std::vector<Event> &want, const std::string &stream,
                     const std::vector<size_t> &cuts) {
    const std::string pk = pk_name(kind);
    if (rr.closed) {
        vh::viol("segmentation/" + pk + "/error-reported-on-valid-stream",
                 vh::fmt("%s: onRecvData returned %zd on a stream of valid frames after %zu events; %s", what, rr.err, rr.ev.size(), cuts_text(cuts, stream.size()).c_str()));
        return;
    }
    if (first_diff(rr.ev, want) >= 0) {
        vh::viol("segmentation/" + pk + "/sequence-differs",
                 vh::fmt("%s: %s; %s", what, diff_text(rr.ev, want).c_str(), cuts_text(cuts, stream.size()).c_str()));
        return;
    }
    if (!only_space(rr.left))
        vh::viol("segmentation/" + pk + "/bytes-left-undecoded",
                 vh::fmt("%s: %zu bytes never consumed (%s); %s", what, rr.left.size(), show(rr.left, 80).c_str(), cuts_text(cuts, stream.size()).c_str()));
}

void stream_case(uint64_t, vh::Rng &r) {
    const int kind = r.chance(1, 2) ? PK_HEADER : PK_RAW;
    const uint16_t magic = pick_magic(r);
    const std::string pk = pk_name(kind);
    JGen g(r);
    vh::Sig sig;
    sig.add((uint64_t)kind);

    int nmsg = (int)r.range(1, 8);
    // one case in 40 carries a frame longer than 65535 bytes (length field uses its upper half)
    const bool big = r.chance(1, 40);
    const int big_at = big ? (int)r.below((uint64_t)nmsg) : -1;
    std::vector<Piece> pieces;
    std::vector<Event> want;
    std::string stream;
    std::vector<size_t> edges;      // offsets where a piece ends
    int n_batch = 0, n_hand = 0;

    for (int i = 0; i < nmsg; ++i) {
        Piece pc;
        unsigned v = (unsigned)r.below(12);
        if (i == big_at) v = (unsigned)r.below(10);    // never a batch
        if (v <= 6) {                                   // the framing's own encoder
            Msg m = gen_msg(r, g);
            if (i == big_at) big_payload(r, g, m);
            std::unique_ptr<Proto> enc = make_proto(kind, magic);
            pc.bytes = encode_with_library(*enc, m);
            pc.expect.push_back(expected_event(m));
            pc.how = "library";
            // (a) round trip through every framing: own encoder -> fresh decoder of the same framing
            for (int k2 = 0; k2 < 3; ++k2) {
                uint16_t mg = k2 == kind ? magic : pick_magic(r);
                std::unique_ptr<Proto> e2 = make_proto(k2, mg);
                std::string b = k2 == kind ? pc.bytes : encode_with_library(*e2, m);
                std::unique_ptr<Proto> d2 = make_proto(k2, mg);
                Recorder rec; rec.attach(*d2);
                CallStat cs;
                ssize_t ret = call_recv(*d2, k2, b.data(), b.size(), cs);
                vh::counter(std::string("roundtrip_") + pk_name(k2));
                std::vector<Event> w1(1, expected_event(m));
                if (ret != (ssize_t)b.size())
                    vh::viol(std::string("roundtrip/") + pk_name(k2) + "/not-decoded",
                             vh::fmt("encoder wrote %zu bytes, decoder returned %zd; message %s; bytes=%s", b.size(), ret, w1[0].text().c_str(), show(b, 200).c_str()));
                else if (first_diff(rec.ev, w1) >= 0)
                    vh::viol(std::string("roundtrip/") + pk_name(k2) + "/value-differs",
                             vh::fmt("%s; bytes=%s", diff_text(rec.ev, w1).c_str(), show(b, 200).c_str()));
                // and the text the encoder wrote is the JSON value the harness would have built
                std::string text = k2 == PK_HEADER ? (b.size() >= 6 ? b.substr(6) : std::string()) : b;
                Json back = Json::parse(text, nullptr, false);
                if (back.is_discarded() || !(back == msg_json(m)))
                    vh::viol(std::string("roundtrip/") + pk_name(k2) + "/encoder-text-not-the-message",
                             vh::fmt("encoder text %s is not %s", show(text, 200).c_str(), show(msg_json(m).dump(), 200).c_str()));
                if (k2 == PK_HEADER && b.size() >= 6 && b.substr(0, 6) != header_bytes(mg, (uint32_t)text.size()))
                    vh::viol("roundtrip/header/encoder-header-wrong", vh::fmt("header %s for magic %04x and %zu text bytes", vh::hex(b.substr(0, 6)).c_str(), mg, text.size()));
            }
        } else if (v <= 9) {                            // harness-built single message, several spellings
            Msg m = gen_msg(r, g);
            if (i == big_at) big_payload(r, g, m);
            Json j = msg_json(m, r.chance(1, 3));
            unsigned sp = (unsigned)r.below(4);
            std::string text = sp == 0 ? j.dump() : sp == 1 ? j.dump((int)r.range(1, 4)) : sp == 2 ? j.dump(-1, ' ', true) : j.dump(1, '\t');
            pc.bytes = frame_text(kind, magic, text);
            pc.expect.push_back(expected_event(m));
            pc.how = "handmade";
            ++n_hand;
        } else {                                        // batch: an array of messages in one frame
            int bn = (int)r.range(1, 4);
            Json arr = Json::array();
            for (int b = 0; b < bn; ++b) {
                Msg m = gen_msg(r, g);
                arr.push_back(msg_json(m));
                pc.expect.push_back(expected_event(m));
            }
            std::string text = r.chance(1, 2) ? arr.dump() : arr.dump(2);
            pc.bytes = frame_text(kind, magic, text);
            pc.how = "batch";
            ++n_batch;
        }
        if (kind == PK_RAW && r.chance(1, 5)) {         // blanks between bare JSON texts
            static const char *ws[] = {" ", "\n", "\r\n", "\t", "  \n\t "};
            pc.bytes = std::string(r.pick(ws)) + pc.bytes;
            vh::counter("raw_whitespace_between_messages");
        }
        for (const Event &e : pc.expect) {
            want.push_back(e);
            vh::counter(e.type == 'Q' ? (e.id ? "msg_request" : "msg_notification") : (e.errcode ? "msg_error" : "msg_result"));
        }
        stream += pc.bytes;
        edges.push_back(stream.size());
        sig.add(pc.bytes);
        pieces.push_back(std::move(pc));
    }
    if (kind == PK_RAW && r.chance(1, 6)) { stream += r.chance(1, 2) ? "\n" : " \r\n"; }

    vh::st().case_desc = vh::fmt("stream %s magic=%04x pieces=%d bytes=%zu hex=%s", pk.c_str(), magic, nmsg, stream.size(), vh::hex(stream.substr(0, 2600)).c_str());
    vh::counter("stream_" + pk);
    vh::counter("messages", want.size());
    vh::counter("pieces_batch", n_batch);
    vh::counter("pieces_handmade", n_hand);
    vh::counter_max("max_stream_bytes", stream.size());
    if (big) vh::counter("streams_with_a_frame_longer_than_65535_bytes");
    vh::counter_max("max_json_depth", (uint64_t)g.f.max_depth + 1);
    if (g.f.str_bracket) vh::counter("streams_with_bracket_in_string");
    if (g.f.str_quote) vh::counter("streams_with_quote_in_string");
    if (g.f.str_backslash) vh::counter("streams_with_backslash_in_string");
    if (g.f.str_end_backslash) vh::counter("streams_with_string_ending_in_backslash");
    if (g.f.str_utf8) vh::counter("streams_with_utf8");
    if (g.f.str_ctrl) vh::counter("streams_with_control_chars");

    CallStat total;
    auto acc = [&](const RunResult &rr) {
        total.calls += rr.cs.calls; total.ret_pos += rr.cs.ret_pos; total.ret_zero_partial += rr.cs.ret_zero_partial; total.ret_neg += rr.cs.ret_neg;
    };
    std::vector<size_t> none;
    // whole
    { RunResult rr = run_segmented(kind, magic, stream, none); acc(rr); check_valid_run("unsegmented", kind, rr, want, stream, none); vh::counter("seg_whole"); }
    // byte by byte
    if (!big) {
        std::vector<size_t> c;
        for (size_t i = 1; i < stream.size(); ++i) c.push_back(i);
        RunResult rr = run_segmented(kind, magic, stream, c); acc(rr);
        check_valid_run("byte-by-byte", kind, rr, want, stream, c); vh::counter("seg_bytewise");
        if (kind == PK_RAW) count_cut_kinds(stream, c);
    }
    // random chunkings
    for (int style = 0; style < 3; ++style) {
        std::vector<size_t> c = random_cuts(r, stream.size(), big ? 3 : style);
        RunResult rr = run_segmented(kind, magic, stream, c); acc(rr);
        check_valid_run("random-chunks", kind, rr, want, stream, c); vh::counter("seg_random");
    }
    // frame-edge hugging: every frame delivered in two parts cut 1..2 bytes around its edges
    {
        std::vector<size_t> c;
        for (size_t e : edges) { if (e > 1 && r.chance(1, 2)) c.push_back(e - 1); if (r.chance(1, 2)) c.push_back(e); if (r.chance(1, 2)) c.push_back(e + 1); }
        std::sort(c.begin(), c.end());
        RunResult rr = run_segmented(kind, magic, stream, c); acc(rr);
        check_valid_run("frame-edge-cuts", kind, rr, want, stream, c); vh::counter("seg_frame_edges");
    }
    // two segments, cut at every position (short streams) / near every frame edge + random (long streams)
    {
        std::vector<size_t> pos;
        if (stream.size() <= 500) { for (size_t i = 1; i < stream.size(); ++i) pos.push_back(i); vh::counter("streams_cut_at_every_position"); }
        else {
            std::set<size_t> ps;
            size_t start = 0;
            for (size_t e : edges) {
                for (size_t k = 0; k <= 8; ++k) { if (start + k < stream.size()) ps.insert(start + k); if (e >= k && e - k > 0) ps.insert(e - k); }
                start = e;
            }
            for (int k = 0; k < (big ? 6 : 40); ++k) ps.insert((size_t)r.range(1, (int64_t)stream.size() - 1));
            ps.erase(0);
            if (big) {      // a 100 KB stream is decoded a dozen times, not hundreds of times
                std::vector<size_t> all(ps.begin(), ps.end());
                ps.clear();
                for (int k = 0; k < 12 && !all.empty(); ++k) ps.insert(all[(size_t)r.below(all.size())]);
            }
            pos.assign(ps.begin(), ps.end());
        }
        for (size_t p : pos) {
            std::vector<size_t> c(1, p);
            RunResult rr = run_segmented(kind, magic, stream, c); acc(rr);
            check_valid_run("two-segments", kind, rr, want, stream, c);
            if (kind == PK_HEADER) {
                size_t start = 0;
                for (size_t e : edges) { if (p > start && p < start + 6 && p < e) { vh::counter("header_cut_inside_magic_or_length"); break; } start = e; }
            }
        }
        vh::counter("seg_two_way_positions", pos.size());
        if (kind == PK_RAW) count_cut_kinds(stream, pos);
    }
    add_callstat_counters(total, pk.c_str());

    bool nontrivial = want.size() >= 2 || g.f.str_bracket || g.f.str_quote || g.f.str_backslash;
    vh::note_case(sig.h, nontrivial);
    if (vh::want_sample() && stream.size() < 400 && want.size() >= 2) {
        std::string evs = "[";
        for (size_t i = 0; i < want.size(); ++i) evs += (i ? "," : "") + vh::jstr(want[i].text());
        evs += "]";
        vh::sample(vh::fmt("{\"mode\":\"stream\",\"framing\":%s,\"magic\":%u,\"stream\":%s,\"expected_callbacks\":%s,"
                           "\"fed\":\"whole, byte-by-byte, 3 random chunkings, frame-edge cuts, two segments at every position\"}",
                           vh::jstr(pk).c_str(), magic, vh::jstr(show(stream, 400)).c_str(), evs.c_str()));
    }
}

// ---------------------------------------------------------------------------------------------
// hostile mode
// ---------------------------------------------------------------------------------------------
std::string nest(const char *open, const char *close, int depth, const std::string &core) {
    std::string s;
    for (int i = 0; i < depth; ++i) s += open;
    s += core;
    for (int i = 0; i < depth; ++i) s += close;
    return s;
}

std::string bracket_game(vh::Rng &r) {
    static const char *fixed[] = {
        "}", "]", "}{", "{]", "[}", "{{{{", "[[[[", "{\"a\":\"}\"", "{\"a\":\"\\\"}", "\"", "\"\"", "\"\\\"", "\\\"", "{\"a\":\"\\\\\"}",
        "{\"a\":\"\\\\\\\"}\"}", "[1,2", "{\"a\":[}", " ", "\n\n", "  \t", "{}", "[]", "{}{}", "[]]", "{\"}\":\"{\"}", "[\"]\"]", "[\"\\\\\"]", "[\"\\\\\\\"]\"]",
        "\\\\\"{", "{\"a\":\"b\\", "{\"a\\", "\"{\"", "1", "12", "-", "tr", "true", "null", "nul", "{\"a\":1}}", "[[]", "][", "{\"\":{\"\":[]}}",
    };
    if (r.chance(1, 2)) return r.pick(fixed);
    static const char alpha[] = {'{', '}', '[', ']', '"', '\\', ' ', ',', ':', 'a', '1', '\n'};
    std::string s;
    int n = (int)r.range(1, 40);
    for (int i = 0; i < n; ++i) s += r.pick(alpha);
    return s;
}

std::string non_rpc_json(vh::Rng &r) {
    static const char *t[] = {
        "{}", "[]", "[[]]", "[{}]", "{\"jsonrpc\":\"2.0\"}", "{\"jsonrpc\":\"1.0\",\"method\":\"m\",\"id\":1}", "{\"jsonrpc\":2.0,\"method\":\"m\"}",
        "{\"method\":\"m\",\"id\":1}", "{\"jsonrpc\":\"2.0\",\"method\":5,\"id\":1}", "{\"jsonrpc\":\"2.0\",\"method\":null}",
        "{\"jsonrpc\":\"2.0\",\"method\":\"m\",\"id\":\"1\"}", "{\"jsonrpc\":\"2.0\",\"method\":\"m\",\"id\":1.5}", "{\"jsonrpc\":\"2.0\",\"method\":\"m\",\"id\":null}",
        "{\"jsonrpc\":\"2.0\",\"method\":\"m\",\"id\":99999999999}", "{\"jsonrpc\":\"2.0\",\"method\":\"m\",\"id\":-99999999999}",
        "{\"jsonrpc\":\"2.0\",\"method\":\"m\",\"id\":18446744073709551615}", "{\"jsonrpc\":\"2.0\",\"method\":\"m\",\"id\":[1]}",
        "{\"jsonrpc\":\"2.0\",\"result\":1}", "{\"jsonrpc\":\"2.0\",\"id\":\"x\",\"result\":1}", "{\"jsonrpc\":\"2.0\",\"id\":1.0,\"result\":1}",
        "{\"jsonrpc\":\"2.0\",\"id\":4294967297,\"result\":1}", "{\"jsonrpc\":\"2.0\",\"id\":1,\"result\":1,\"error\":{\"code\":2}}",
        "{\"jsonrpc\":\"2.0\",\"id\":1,\"error\":5}", "{\"jsonrpc\":\"2.0\",\"id\":1,\"error\":null}", "{\"jsonrpc\":\"2.0\",\"id\":1,\"error\":\"x\"}",
        "{\"jsonrpc\":\"2.0\",\"id\":1,\"error\":[]}", "{\"jsonrpc\":\"2.0\",\"id\":1,\"error\":[{\"code\":1}]}", "{\"jsonrpc\":\"2.0\",\"id\":1,\"error\":{}}",
        "{\"jsonrpc\":\"2.0\",\"id\":1,\"error\":{\"code\":\"x\"}}", "{\"jsonrpc\":\"2.0\",\"id\":1,\"error\":{\"code\":1.5}}", "{\"jsonrpc\":\"2.0\",\"error\":{\"code\":1}}",
        "{\"jsonrpc\":\"2.0\",\"id\":1,\"error\":{\"code\":99999999999}}", "{\"jsonrpc\":[],\"method\":\"m\"}", "{\"jsonrpc\":\"2.0\",\"method\":\"m\",\"params\":null}",
        "[1,2,3]", "[null]", "[\"a\",{\"jsonrpc\":\"2.0\",\"method\":\"m\"}]", "[[{\"jsonrpc\":\"2.0\",\"method\":\"m\",\"id\":3}]]", "{\"jsonrpc\":\"2.0\",\"method\":\"m\",\"method\":\"n\"}",
        "{\"jsonrpc\":\"2.0\",\"method\":\"\\u0000\"}", "{\"jsonrpc\":\"2.0\",\"id\":true,\"result\":null}", "{\"jsonrpc\":null}", "{\"jsonrpc\":\"2.0\",\"id\":-0,\"result\":[]}",
    };
    return r.pick(t);
}

std::string invalid_json_balanced(vh::Rng &r, const std::string &valid_obj) {
    static const char *t[] = {
        "[,]", "{\"a\" 1}", "{\"a\":tru}", "[01]", "{\"a\":\"\x01\"}", "{'a':1}", "{\"a\":1,}", "[1 2]", "{\"a\":\"\xff\"}", "{\"a\":\"\xc3\"}", "{\"a\":\"\xed\xa0\x80\"}",
        "{\"a\":\"\\ud800\"}", "{\"a\":\"\\x\"}", "{\"a\":1e}", "[1e999]", "{\"a\":+1}", "[.5]", "{\"a\":\"\\u12\"}", "{a:1}", "[\"\t\"]", "{\"jsonrpc\":\"2.0\",\"method\":\"m\",}",
    };
    if (r.chance(1, 3) && valid_obj.size() > 2 && valid_obj[0] == '{') return "{," + valid_obj.substr(1);
    return r.pick(t);
}

struct Hostile {
    std::string tail;               //! the damaged part (appended after the valid prefix)
    const char *cls = "";
    bool expect_closed = false;     //! unambiguously malformed and complete: must be reported (negative return)
    bool expect_open = false;       //! incomplete but so far well-formed: must not be reported as an error
};

void hostile_case(uint64_t, vh::Rng &r) {
    unsigned cls = (unsigned)r.below(13);
    int kind_ = (int)r.below(3);
    if ((cls == 1 || cls == 2) && r.chance(4, 5)) kind_ = PK_HEADER;     // binary headers mostly go to the framing that reads them
    const int kind = kind_;
    const std::string pk = pk_name(kind);
    const uint16_t magic = pick_magic(r);
    JGen g(r);
    vh::Sig sig;
    sig.add((uint64_t)kind);

    // valid prefix
    int npre = (int)r.below(3);
    std::vector<std::string> pre;
    std::vector<Event> want_pre;
    for (int i = 0; i < npre; ++i) {
        Msg m = gen_msg(r, g);
        std::unique_ptr<Proto> enc = make_proto(kind, magic);
        pre.push_back(encode_with_library(*enc, m));
        want_pre.push_back(expected_event(m));
    }
    // one more valid message as raw material
    Msg vm = gen_msg(r, g);
    std::string vtext = msg_json(vm).dump();
    std::string vframe = frame_text(kind, magic, vtext);

    Hostile h;
    switch (cls) {
        case 0: {
            h.cls = "random-bytes";
            h.tail = r.bytes((size_t)r.below(81));
            if (kind == PK_HEADER && r.chance(1, 2)) h.tail = header_bytes(magic, (uint32_t)r.below(60)).substr(0, (size_t)r.range(2, 6)) + h.tail;
            break;
        }
        case 1: {
            h.cls = "wrong-magic";
            uint16_t bad = magic;
            unsigned w = (unsigned)r.below(4);
            if (w == 0) bad = magic ^ (uint16_t)(1u << r.below(16));
            else if (w == 1) bad = (uint16_t)((magic >> 8) | (magic << 8));
            else if (w == 2) bad = (uint16_t)(magic + 1);
            else bad = (uint16_t)r.next();
            if (bad == magic) bad = (uint16_t)~magic;
            h.tail = frame_text(PK_HEADER, bad, vtext);
            if (kind == PK_HEADER) h.expect_closed = true;
            else h.cls = "binary-header-on-text-framing";
            break;
        }
        case 2: {
            h.cls = "extreme-length";
            static const uint32_t lens[] = {0u, 1u, 2u, 0x7FFFFFFEu, 0x7FFFFFFFu, 0x80000000u, 0x80000001u, 0xFFFFFFFAu, 0xFFFFFFFBu, 0xFFFFFFFCu,
                                            0xFFFFFFFDu, 0xFFFFFFFEu, 0xFFFFFFFFu, 0xFFFFFFF9u, 0x00010000u, 0x01000000u, 0xFFFF0000u};
            uint32_t L = r.chance(3, 4) ? r.pick(lens) : (uint32_t)r.next();
            if (r.chance(1, 6)) L = (uint32_t)vtext.size() + (uint32_t)r.range(-2, 2);
            std::string body = r.chance(1, 2) ? vtext : r.bytes((size_t)r.below(40));
            if (r.chance(1, 4)) body.clear();
            h.tail = header_bytes(magic, L) + body;
            if (L >= 0xFFFFFFFAu) vh::counter("header_length_within_6_of_2pow32");
            if (L >= 0x7FFFFFFEu && L <= 0x80000001u) vh::counter("header_length_near_2pow31");
            if (L <= 2) vh::counter("header_length_0_1_2");
            if (kind != PK_HEADER) h.cls = "binary-header-on-text-framing";
            else if ((uint64_t)L > body.size()) { h.expect_open = true; vh::counter("header_length_larger_than_available"); }   // announced more than there is: wait
            else if (!Json::accept(body.substr(0, L))) h.expect_closed = true;                     // complete frame, text is not JSON
            break;
        }
        case 3: case 4: case 5: {
            h.cls = "complete-frame-invalid-json";
            std::string bad = invalid_json_balanced(r, vtext);
            if (Json::accept(bad)) { bad = "[,]"; }
            h.tail = frame_text(kind, magic, bad);
            h.expect_closed = true;
            vh::counter("complete_frame_invalid_json_" + pk);
            break;
        }
        case 6: {
            h.cls = "truncated";
            size_t cut = (size_t)r.range(0, (int64_t)vframe.size() - 1);
            h.tail = vframe.substr(0, cut);
            if (kind == PK_PACKET) { if (cut >= 2 && !Json::accept(h.tail)) h.expect_closed = true; }
            else if (kind == PK_HEADER) h.expect_open = true;
            else if (vtext[0] == '{') h.expect_open = true;
            vh::counter("truncated_" + pk);
            break;
        }
        case 7: {
            h.cls = "corrupted-bytes";
            h.tail = vframe;
            int k = (int)r.range(1, 3);
            for (int i = 0; i < k && !h.tail.empty(); ++i) {
                size_t p = (size_t)r.below(h.tail.size());
                static const char ins[] = {'"', '\\', '{', '}', '[', ']', ',', ':', '\0', '\xff', ' ', 'e'};
                unsigned op = (unsigned)r.below(4);
                if (op == 0) h.tail[p] = (char)r.byte();
                else if (op == 1) h.tail.erase(p, 1);
                else if (op == 2) h.tail.insert(p, 1, r.pick(ins));
                else h.tail[p] = r.pick(ins);
            }
            break;
        }
        case 8: case 9: {
            h.cls = "bracket-quote-backslash";
            std::string t = bracket_game(r);
            h.tail = kind == PK_HEADER && r.chance(3, 4) ? frame_text(kind, magic, t) : t;
            vh::counter("bracket_games");
            break;
        }
        case 10: {
            h.cls = "nested";
            int depth = (int)r.range(20, 400);
            unsigned shape = (unsigned)r.below(4);
            std::string t;
            if (shape == 0) t = nest("[", "]", depth, "");
            else if (shape == 1) t = "{\"jsonrpc\":\"2.0\",\"method\":\"m\",\"id\":1,\"params\":" + nest("[", "]", depth, "1") + "}";
            else if (shape == 2) t = "{\"jsonrpc\":\"2.0\",\"id\":1,\"result\":" + nest("{\"a\":", "}", depth, "null") + "}";
            else t = nest("[", "]", depth, "{\"jsonrpc\":\"2.0\",\"method\":\"m\"}");
            h.tail = frame_text(kind, magic, t);
            vh::counter("nested_inputs");
            vh::counter_max("max_nesting_asan", (uint64_t)depth);
            break;
        }
        case 11: {
            h.cls = "valid-json-not-rpc";
            h.tail = frame_text(kind, magic, non_rpc_json(r));
            vh::counter("non_rpc_json");
            break;
        }
        default: {
            h.cls = "valid-then-garbage";
            h.tail = vframe + (r.chance(1, 2) ? bracket_game(r) : r.bytes((size_t)r.range(1, 12)));
            break;
        }
    }
    sig.add(h.tail);
    for (const std::string &p : pre) sig.add(p);
    vh::counter(std::string("hostile_") + h.cls);
    vh::counter("hostile_" + pk);

    std::string all;
    for (const std::string &p : pre) all += p;
    size_t pre_len = all.size();
    all += h.tail;
    vh::st().case_desc = vh::fmt("hostile %s class=%s magic=%04x valid-prefix=%d(%zu bytes) tail(%zu)=%s", pk.c_str(), h.cls, magic, npre, pre_len,
                                 h.tail.size(), vh::hex(h.tail.substr(0, 1200)).c_str());

    if (kind == PK_PACKET) {
        std::unique_ptr<Proto> p = make_proto(kind, magic);
        Recorder rec; rec.attach(*p);
        CallStat cs;
        for (size_t i = 0; i < pre.size(); ++i) {
            ssize_t ret = call_recv(*p, kind, pre[i].data(), pre[i].size(), cs);
            if (ret != (ssize_t)pre[i].size())
                vh::viol("hostile/packet/valid-prefix-not-decoded", vh::fmt("valid packet %zu returned %zd of %zu", i, ret, pre[i].size()));
        }
        if (first_diff(rec.ev, want_pre) >= 0)
            vh::viol("hostile/packet/valid-prefix-not-decoded", diff_text(rec.ev, want_pre));
        size_t before = rec.ev.size();
        ssize_t ret = call_recv(*p, kind, h.tail.data(), h.tail.size(), cs);
        if (h.expect_closed && ret >= 0 && ret != -1000)
            vh::viol("hostile/packet/malformed-not-reported", vh::fmt("class %s: a packet that is not JSON returned %zd (and %zu callbacks): %s", h.cls, ret,
                                                                  rec.ev.size() - before, show(h.tail, 160).c_str()));
        if (ret < 0) vh::counter("packet_malformed_reported");
        add_callstat_counters(cs, "hostile_packet");
        vh::note_case(sig.h, !h.tail.empty());
        return;
    }

    std::vector<size_t> none;
    RunResult whole = run_segmented(kind, magic, all, none);
    CallStat total = whole.cs;
    // valid frames in front of the damage are decoded
    {
        std::vector<Event> head(whole.ev.begin(), whole.ev.begin() + (long)std::min(whole.ev.size(), want_pre.size()));
        if (first_diff(head, want_pre) >= 0)
            vh::viol("hostile/" + pk + "/valid-prefix-not-decoded", vh::fmt("class %s: %s", h.cls, diff_text(head, want_pre).c_str()));
    }
    if (h.expect_closed && whole.cs.exceptions == 0) {
        if (!whole.closed)
            vh::viol("hostile/" + pk + "/malformed-not-reported",
                     vh::fmt("class %s: complete malformed frame, driver saw no negative return (%zu events, %zu bytes left): %s", h.cls, whole.ev.size(),
                             whole.left.size(), show(h.tail, 160).c_str()));
        else vh::counter(pk + "_malformed_reported");
        if (whole.ev.size() != want_pre.size())
            vh::viol("hostile/" + pk + "/callback-for-malformed-frame", vh::fmt("class %s: %zu callbacks, %zu valid frames", h.cls, whole.ev.size(), want_pre.size()));
    }
    if (h.expect_open && whole.cs.exceptions == 0) {
        if (whole.closed)
            vh::viol("hostile/" + pk + "/incomplete-frame-reported-as-error",
                     vh::fmt("class %s: a strict prefix of a valid frame returned %zd: %s", h.cls, whole.err, show(h.tail, 160).c_str()));
        else if (whole.ev.size() != want_pre.size())
            vh::viol("hostile/" + pk + "/callback-for-incomplete-frame", vh::fmt("%zu callbacks, %zu complete frames", whole.ev.size(), want_pre.size()));
        else vh::counter(pk + "_incomplete_waits");
    }
    if (whole.closed) vh::counter("hostile_stream_closed_by_negative_return");
    if (!whole.closed && !whole.left.empty()) vh::counter("hostile_stream_left_waiting");
    if (kind == PK_RAW && !whole.closed && !whole.left.empty()) {
        // unbalanced closer at top level: the decoder can never make progress; only counted (see findings, not claimed)
        size_t i = 0;
        while (i < whole.left.size() && (whole.left[i] == ' ' || whole.left[i] == '\n' || whole.left[i] == '\r' || whole.left[i] == '\t')) ++i;
        if (i < whole.left.size() && (whole.left[i] == '}' || whole.left[i] == ']')) vh::counter("raw_unbalanced_closer_waits_forever_observed");
    }

    // segmented == unsegmented (message sequence and final status)
    for (int style = -1; style < 3; ++style) {
        std::vector<size_t> c;
        if (style < 0) { for (size_t i = 1; i < all.size(); ++i) c.push_back(i); }
        else c = random_cuts(r, all.size(), style);
        RunResult rr = run_segmented(kind, magic, all, c);
        total.calls += rr.cs.calls; total.ret_pos += rr.cs.ret_pos; total.ret_zero_partial += rr.cs.ret_zero_partial; total.ret_neg += rr.cs.ret_neg;
        if (first_diff(rr.ev, whole.ev) >= 0)
            vh::viol("segmentation/" + pk + "/hostile-sequence-differs",
                     vh::fmt("class %s, %s: segmented vs whole: %s; %s", h.cls, style < 0 ? "byte-by-byte" : "random-chunks", diff_text(rr.ev, whole.ev).c_str(),
                             cuts_text(c, all.size()).c_str()));
        else if (rr.closed != whole.closed || (!whole.closed && rr.left != whole.left))
            vh::viol("segmentation/" + pk + "/hostile-final-state-differs",
                     vh::fmt("class %s, %s: whole: closed=%d err=%zd left=%zu; segmented: closed=%d err=%zd left=%zu; %s", h.cls,
                             style < 0 ? "byte-by-byte" : "random-chunks", whole.closed, whole.err, whole.left.size(), rr.closed, rr.err, rr.left.size(),
                             cuts_text(c, all.size()).c_str()));
        vh::counter("hostile_segmentations");
    }
    add_callstat_counters(total, ("hostile_" + pk).c_str());
    vh::note_case(sig.h, !h.tail.empty());
    if (vh::want_sample(2) && all.size() < 200 && !h.tail.empty())
        vh::sample(vh::fmt("{\"mode\":\"hostile\",\"framing\":%s,\"class\":%s,\"magic\":%u,\"valid_frames_in_front\":%d,\"damaged_part\":%s,"
                           "\"observed\":{\"callbacks\":%zu,\"negative_return\":%s,\"bytes_left_waiting\":%zu}}",
                           vh::jstr(pk).c_str(), vh::jstr(h.cls).c_str(), magic, npre, vh::jstr(show(h.tail, 200)).c_str(), whole.ev.size(),
                           whole.closed ? "true" : "false", whole.left.size()), 2);
}

// ---------------------------------------------------------------------------------------------
// deepnest mode (plain build): one case = (shape, framing, depth); decoded in a forked child on an 8 MiB stack
// ---------------------------------------------------------------------------------------------
const char *kShape[] = {"batch-array", "request-params-arrays", "response-result-arrays", "request-params-objects", "batch-array-around-request",
                        "response-result-objects", "error-data-arrays"};
//! violation keys name the position of the nesting in the message (one key per code path that handles that position)
const char *kShapeKey[] = {"top-level-arrays", "request-params", "response-result", "request-params", "top-level-arrays", "response-result", "error-object"};
const int kDepths[] = {1000, 10000, 100000, 1000000};
enum { N_SHAPES = 7, N_DEPTHS = 4 };

std::string deep_text(int shape, int depth) {
    switch (shape) {
        case 0: return nest("[", "]", depth, "");
        case 1: return "{\"jsonrpc\":\"2.0\",\"method\":\"m\",\"id\":1,\"params\":" + nest("[", "]", depth, "") + "}";
        case 2: return "{\"jsonrpc\":\"2.0\",\"id\":1,\"result\":" + nest("[", "]", depth, "") + "}";
        case 3: return "{\"jsonrpc\":\"2.0\",\"method\":\"m\",\"params\":" + nest("{\"a\":", "}", depth, "null") + "}";
        case 4: return nest("[", "]", depth, "{\"jsonrpc\":\"2.0\",\"method\":\"m\",\"id\":1}");
        case 5: return "{\"jsonrpc\":\"2.0\",\"id\":1,\"result\":" + nest("{\"a\":", "}", depth, "null") + "}";
        default: return "{\"jsonrpc\":\"2.0\",\"id\":1,\"error\":{\"code\":-32000,\"data\":" + nest("[", "]", depth, "") + "}}";
    }
}

struct DeepArg { int kind; uint16_t magic; const std::string *bytes; long ret; int threw; unsigned long callbacks; };

void *deep_thread(void *ap) {
    DeepArg *a = static_cast<DeepArg *>(ap);
    std::unique_ptr<Proto> p = make_proto(a->kind, a->magic);
    unsigned long n = 0;
    p->setRecvCallback([&](int, const std::string &, const Json &) { ++n; }, [&](int, int, const Json &) { ++n; });
    try {
        a->ret = (long)p->onRecvData(a->bytes->data(), a->bytes->size());
    } catch (...) { a->threw = 1; }
    a->callbacks = n;
    return nullptr;
}

void deepnest_case(uint64_t idx, vh::Rng &) {
    int depth_i = (int)(idx % N_DEPTHS);
    int kind = (int)((idx / N_DEPTHS) % 3);
    int shape = (int)((idx / N_DEPTHS / 3) % N_SHAPES);
    int depth = kDepths[depth_i];
    const uint16_t magic = 0xCAFE;
    std::string bytes = frame_text(kind, magic, deep_text(shape, depth));
    vh::st().case_desc = vh::fmt("deepnest shape=%s framing=%s depth=%d bytes=%zu", kShape[shape], pk_name(kind), depth, bytes.size());
    vh::counter(std::string("deepnest_") + kShape[shape]);
    vh::counter(std::string("deepnest_") + pk_name(kind));
    vh::counter_max("max_nesting_plain", (uint64_t)depth);
    fflush(stdout);
    pid_t pid = fork();
    if (pid < 0) { fprintf(stderr, "VH-FATAL: fork\n"); abort(); }
    if (pid == 0) {
        alarm(120);
        DeepArg a; a.kind = kind; a.magic = magic; a.bytes = &bytes; a.ret = 0; a.threw = 0; a.callbacks = 0;
        pthread_attr_t at;
        pthread_attr_init(&at);
        pthread_attr_setstacksize(&at, 8u << 20);
        pthread_t t;
        if (pthread_create(&t, &at, deep_thread, &a) != 0) _exit(90);
        pthread_join(t, nullptr);
        _exit(a.threw ? 3 : (a.ret > (long)bytes.size() ? 4 : 0));
    }
    int st = 0;
    while (waitpid(pid, &st, 0) < 0 && errno == EINTR) {}
    vh::Sig sig; sig.add(idx);
    if (WIFSIGNALED(st)) {
        int sg = WTERMSIG(st);
        if (sg == SIGALRM)
            vh::viol(std::string("deepnest/") + kShapeKey[shape] + "/no-return", vh::fmt("framing %s, nesting depth %d (%zu bytes): no return within 120 s", pk_name(kind), depth, bytes.size()));
        else
            vh::viol(std::string("deepnest/") + kShapeKey[shape] + "/crash-on-nested-input",
                     vh::fmt("%s, framing %s, nesting depth %d (%zu-byte message): onRecvData died with signal %d (%s) on an 8 MiB stack", kShape[shape],
                             pk_name(kind), depth, bytes.size(), sg, strsignal(sg)));
        vh::counter("deepnest_child_died");
    } else if (WIFEXITED(st) && WEXITSTATUS(st) == 3) {
        vh::viol(std::string("deepnest/") + kShapeKey[shape] + "/exception-escaped", vh::fmt("framing %s depth %d", pk_name(kind), depth));
    } else if (WIFEXITED(st) && WEXITSTATUS(st) == 4) {
        vh::viol(std::string("deepnest/") + kShapeKey[shape] + "/return-exceeds-size", vh::fmt("framing %s depth %d", pk_name(kind), depth));
    } else if (WIFEXITED(st) && WEXITSTATUS(st) == 0) {
        vh::counter("deepnest_child_returned");
    } else {
        fprintf(stderr, "VH-FATAL: deepnest-child-status-%d\n", st);
        abort();
    }
    vh::note_case(sig.h, true);
    if (vh::want_sample(1) && depth == 10000)
        vh::sample(vh::fmt("{\"mode\":\"deepnest\",\"shape\":%s,\"framing\":%s,\"depth\":%d,\"bytes\":%zu,\"child_status\":%d}", vh::jstr(kShape[shape]).c_str(),
                           vh::jstr(pk_name(kind)).c_str(), depth, bytes.size(), st), 1);
}

}  // namespace

int main(int argc, char **argv) {
    vh::parse_args(argc, argv);
    const std::string mode = vh::st().args.mode;
    if (mode == "deepcount") { printf("%d\n", N_SHAPES * 3 * N_DEPTHS); return 0; }
    return vh::run(argc, argv, [&](uint64_t idx, vh::Rng &r) {
        if (mode == "hostile") hostile_case(idx, r);
        else if (mode == "deepnest") deepnest_case(idx, r);
        else stream_case(idx, r);
    });
}
