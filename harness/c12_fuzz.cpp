// C12, thorough tier only: coverage-guided exploration (libFuzzer + ASan + UBSan) of RequestParser on bytes that are
// not promised to be anything. No reference is involved: only what the property demands of *every* byte sequence in
// *every* segmentation - parse() returns (no exception), never claims more than it was given, makes progress, hands
// out complete request objects - with the readable bytes presented as an exactly sized heap block.
//
// Input layout: byte 0 = number of cut bytes k (mod 8), bytes 1..k = cut positions (scaled to the payload length), rest =
// payload. The payload is fed whole and then in the chosen segmentation, the way server_imp.cpp feeds its receive buffer.
//
// Framing: the runner's `--seed S --first I --count N` is kept. One *case* is one bounded libFuzzer session
// (`-seed=f(S,i) -runs=R`) over a corpus of generated well-formed and mutated request streams written for that
// case, run in a forked child so that case i is reproducible alone. LLVMFuzzerInitialize does the framing.
#include "c12_gen.hpp"
#include <tbox/http/server/request_parser.h>

#include <memory>
#include <typeinfo>
#include <cxxabi.h>
#include <sys/mman.h>
#include <sys/stat.h>
#include <sys/wait.h>
#include <signal.h>
#include <errno.h>

using tbox::http::Request;
using tbox::http::server::RequestParser;
using namespace c12;

namespace {

struct Shared {
    uint64_t execs, threw, rejected, yielded, waiting, multi_segment, high_byte, requests, boundary_seeds;
};
Shared *g_sh = nullptr;

void fatal(const char *what) {
    fprintf(stderr, "VH-FATAL: %s errno=%d\n", what, errno);
    _exit(98);
}

std::string exc_name() {
    int st = 0;
    std::type_info *ti = abi::__cxa_current_exception_type();
    if (!ti) return "unknown";
    char *d = abi::__cxa_demangle(ti->name(), nullptr, nullptr, &st);
    std::string n = (st == 0 && d) ? d : ti->name();
    free(d);
    return n;
}

//! returns false when a violation was reported
bool feed(const std::string &payload, const Cuts &cuts) {
    RequestParser parser;
    std::string pending;
    size_t requests = 0;
    bool failed = false;
    for (const std::string &seg : split_at(payload, cuts)) {
        pending += seg;
        size_t spins = 0;
        while (!pending.empty()) {
            size_t n = pending.size();
            std::unique_ptr<char[]> blk(new char[n]);
            memcpy(blk.get(), pending.data(), n);
            size_t used = 0;
            try {
                used = parser.parse(blk.get(), n);
            } catch (...) {
                ++g_sh->threw;
                vh::viol("fuzz/parser/exception/" + exc_name(), "pending bytes: " + printable(pending, 300));
                return false;
            }
            if (used > n) { vh::viol("fuzz/parser/consumed-more-than-given", vh::fmt("%zu of %zu", used, n)); return false; }
            pending.erase(0, used);
            RequestParser::State st = parser.state();
            if (st == RequestParser::State::kFinishedAll) {
                Request *r = parser.getRequest();
                if (!r) { vh::viol("fuzz/parser/finished-without-request", "getRequest() returned null in kFinishedAll"); return false; }
                if (!r->isValid()) { vh::viol("fuzz/parser/incomplete-request-handed-out", canon(*r).substr(0, 200)); delete r; return false; }
                std::string declared;
                if (!declared_length_honoured(*r, &declared)) {
                    vh::viol("fuzz/parser/body-differs-from-declared-length", vh::fmt("Content-Length %s, body of %zu bytes, parse() returned %zu of %zu", declared.c_str(),
                                                                                       r->body.size(), used, n));
                    delete r; return false;
                }
                delete r;
                ++requests;
                (void)spins;
                if (used == 0) { vh::viol("fuzz/parser/no-progress/finished-without-consuming", "parse() returned 0 with state kFinishedAll"); return false; }
            } else if (st == RequestParser::State::kFail) {
                failed = true;
                break;
            } else
                break;
        }
        if (failed) break;
    }
    g_sh->requests += requests;
    if (failed) ++g_sh->rejected; else if (requests) ++g_sh->yielded; else ++g_sh->waiting;
    return true;
}

}  // namespace

extern "C" int LLVMFuzzerTestOneInput(const uint8_t *data, size_t size) {
    if (size < 1 || !g_sh) return 0;
    size_t k = data[0] % 8;
    if (size < 1 + k) return 0;
    std::string payload((const char *)data + 1 + k, size - 1 - k);
    ++g_sh->execs;
    for (unsigned char c : payload) if (c >= 0x80) { ++g_sh->high_byte; break; }
    Cuts cuts;
    if (payload.size() >= 2)
        for (size_t i = 0; i < k; ++i) cuts.push_back(1 + ((size_t)data[1 + i] * 131 + i * 17) % (payload.size() - 1));
    std::sort(cuts.begin(), cuts.end());
    cuts.erase(std::unique(cuts.begin(), cuts.end()), cuts.end());
    vh::st().case_desc = vh::fmt("fuzz cuts=%zu payload(%zu)=%s", cuts.size(), payload.size(), printable(payload, 500).c_str());
    if (!feed(payload, Cuts())) return 0;
    if (!cuts.empty()) { ++g_sh->multi_segment; feed(payload, cuts); }
    return 0;
}

extern "C" int LLVMFuzzerInitialize(int *argc, char ***argv) {
    vh::parse_args(*argc, *argv);
    vh::Args &a = vh::st().args;
    const long runs = a.num("runs", 200000);
    g_sh = (Shared *)mmap(nullptr, sizeof(Shared), PROT_READ | PROT_WRITE, MAP_SHARED | MAP_ANONYMOUS, -1, 0);
    if (g_sh == MAP_FAILED) fatal("mmap");
    memset(g_sh, 0, sizeof *g_sh);
    for (uint64_t i = a.first; i < a.first + a.count; ++i) {
        vh::begin_case(i);
        // corpus for this session: generated well-formed streams and mutated ones
        std::string dir = (a.out.empty() ? std::string("/var/tmp") : a.out) + "/c12-corpus-" + std::to_string((long)getpid()) + "-" + std::to_string(i);
        mkdir(dir.c_str(), 0755);
        {
            vh::Rng r(vh::mix(a.seed, i));
            GenOpts o; o.max_body = 24;
            for (int f = 0; f < 24; ++f) {
                std::vector<Truth> v;
                int m = (int)r.range(1, 3);
                for (int q = 0; q < m; ++q) v.push_back(gen_request(r, q, o, -1));
                std::string what, bytes;
                if (f % 3 == 0) for (auto &t : v) bytes += t.wire;
                else if (f % 3 == 1 && f < 16) { std::string cls; bool tail; bytes = boundary_length_stream(r, 0, &what, &cls, &tail); ++g_sh->boundary_seeds; }
                else bytes = mutate(r, v, &what);
                size_t k = (size_t)r.below(4);
                std::string file(1, (char)k);
                for (size_t q = 0; q < k; ++q) file += (char)r.byte();
                file += bytes;
                FILE *fp = fopen((dir + "/seed" + std::to_string(f)).c_str(), "wb");
                if (fp) { fwrite(file.data(), 1, file.size(), fp); fclose(fp); }
            }
        }
        fflush(stdout); fflush(stderr);
        pid_t pid = fork();
        if (pid < 0) fatal("fork");
        if (pid == 0) {
            static std::vector<std::string> args;
            args.push_back((*argv)[0]);
            args.push_back("-seed=" + std::to_string((vh::mix(a.seed, i) & 0x7ffffffe) + 1));
            args.push_back("-runs=" + std::to_string(runs));
            args.push_back("-max_len=" + std::to_string(a.num("maxlen", 600)));
            args.push_back("-verbosity=0");
            args.push_back("-print_final_stats=0");
            args.push_back("-detect_leaks=0");
            args.push_back("-timeout=60");
            args.push_back("-artifact_prefix=" + dir + "/crash-");
            args.push_back(dir);
            static std::vector<char *> av;
            for (auto &s : args) av.push_back(&s[0]);
            av.push_back(nullptr);
            *argc = (int)args.size();
            *argv = av.data();
            return 0;
        }
        int st = 0;
        while (waitpid(pid, &st, 0) < 0 && errno == EINTR) {}
        std::string rm = "rm -rf '" + dir + "'";
        if (system(rm.c_str()) != 0) {}
        if (!(WIFEXITED(st) && WEXITSTATUS(st) == 0)) {
            fflush(stdout);
            if (WIFSIGNALED(st)) { signal(WTERMSIG(st), SIG_DFL); kill(getpid(), WTERMSIG(st)); }
            _exit(WIFEXITED(st) ? WEXITSTATUS(st) : 70);
        }
        vh::note_case(vh::mix(a.seed, i), true);
        vh::end_case();
    }
    vh::counter("fuzz_execs", g_sh->execs);
    vh::counter("fuzz_exceptions", g_sh->threw);
    vh::counter("fuzz_feeds_rejected", g_sh->rejected);
    vh::counter("fuzz_feeds_yielding_requests", g_sh->yielded);
    vh::counter("fuzz_feeds_waiting_for_more", g_sh->waiting);
    vh::counter("fuzz_multi_segment_execs", g_sh->multi_segment);
    vh::counter("fuzz_inputs_with_byte_ge_0x80", g_sh->high_byte);
    vh::counter("fuzz_requests_handed_out", g_sh->requests);
    vh::counter("fuzz_seeds_with_boundary_content_length", g_sh->boundary_seeds);
    vh::counter("fuzz_sessions", vh::st().cases);
    vh::finish();
    fflush(stdout);
    _exit(0);
}
