// C19, thorough tier only: coverage-guided exploration (libFuzzer + ASan + UBSan) of the decoders.
//
// No reference here: only what must hold for *every* input - exactly sized inputs (ASan sees an over-read),
// canary-guarded outputs, return values within the capacity, refusal of unambiguously invalid text,
// format invariants of what was accepted, and decode(encode(x)) == x on the bytes the fuzzer produced.
//
// Framing: the runner's `--seed S --first I --count N` is kept. One *case* is one bounded libFuzzer session
// (`-seed=f(S,i) -runs=R`, empty corpus), run in a forked child so that case i is reproducible alone
// (`--first i --count 1` replays the identical session). LLVMFuzzerInitialize does the framing: libFuzzer
// calls it before it looks at argv.
#include "common/vh.hpp"
#include "c19_support.hpp"

#include <tbox/util/base64.h>
#include <tbox/util/string.h>
#include <tbox/util/scalable_integer.h>
#include <tbox/util/serializer.h>
#include <tbox/util/checksum.h>
#include <tbox/http/url.h>
#include <tbox/crypto/md5.h>

#include <memory>
#include <stdexcept>
#include <sys/mman.h>

using namespace c19;
namespace b64 = tbox::util::base64;
namespace tstr = tbox::util::string;

namespace {

enum { T_B64, T_HEX, T_SINT, T_URL, T_DES, T_MD5, T_RT, T_SUM, T_COUNT };
const char *kTarget[T_COUNT] = {"base64_decode", "hex_decode", "scalable_parse", "url_decode", "deserializer", "md5_split", "roundtrip", "checksum_large"};

struct Shared {           // counters shared between the session children and the framing parent
    uint64_t execs[T_COUNT];
    uint64_t accepted[T_COUNT];
    uint64_t refused[T_COUNT];
    uint64_t high_byte_inputs;
    uint64_t sum16_wraps;
};
Shared *g_sh = nullptr;

bool b64_alpha(unsigned char c) { return (c >= 'A' && c <= 'Z') || (c >= 'a' && c <= 'z') || (c >= '0' && c <= '9') || c == '+' || c == '/'; }

template <typename F> bool threw(F f) {
    try { f(); } catch (const std::exception &) { return true; } catch (...) { return true; }
    return false;
}

void t_base64(const std::string &h, unsigned sel) {
    bool must_fail = (h.size() % 4) != 0;
    if (!must_fail) for (unsigned char c : h) { if (c == '=') break; if (!b64_alpha(c)) { must_fail = true; break; } }
    In in(h);
    size_t dl = b64::DecodeLength((const char *)in.p, h.size());
    VH_CHECK(dl <= h.size() / 4 * 3, "fuzz/base64/decode-length-larger-than-possible", "DecodeLength=%zu for %zu characters %s", dl, h.size(), show(h).c_str());
    size_t caps[] = {dl, dl ? dl - 1 : 0, 0, h.size() / 4 * 3 + 2};
    size_t cap = caps[sel % 4];
    Out out(cap);
    step("base64::Decode(ptr,len=%zu,cap=%zu) text=%s", h.size(), cap, show(h).c_str());
    size_t ret = b64::Decode((const char *)in.p, h.size(), out.p(), cap);
    out.check("base64-decode");
    VH_CHECK(ret <= cap, "fuzz/base64/returned-more-than-capacity", "ret=%zu cap=%zu text=%s", ret, cap, show(h).c_str());
    if (must_fail) VH_CHECK(ret == 0, "fuzz/base64/invalid-input-accepted", "ret=%zu text=%s", ret, show(h).c_str());
    if (cap < dl) VH_CHECK(ret == 0, "fuzz/base64/short-capacity-not-refused", "ret=%zu cap=%zu DecodeLength=%zu", ret, cap, dl);
    std::unique_ptr<std::string> hs(new std::string(h.data(), h.size()));
    std::vector<uint8_t> v;
    size_t r2 = b64::Decode(*hs, v);
    VH_CHECK(v.size() <= h.size() / 4 * 3, "fuzz/base64/vector-more-bytes-than-possible", "%zu bytes from %zu characters", v.size(), h.size());
    if (must_fail) VH_CHECK(r2 == 0, "fuzz/base64/vector-invalid-input-accepted", "ret=%zu text=%s", r2, show(h).c_str());
    if (ret && cap >= dl && r2) VH_CHECK(v.size() >= ret && memcmp(v.data(), out.p(), ret) == 0, "fuzz/base64/overloads-disagree", "pointer overload %zu bytes, vector overload %zu, text=%s", ret, v.size(), show(h).c_str());
    ++(ret ? g_sh->accepted : g_sh->refused)[T_B64];
}

void t_hex(const std::string &h, unsigned sel) {
    static const char *delims[] = {"", " ", ":", ", ", " \t"};
    std::string d = delims[sel % 5];
    std::unique_ptr<std::string> src(new std::string(h.data(), h.size()));
    std::vector<uint8_t> v;
    size_t ret = 0;
    step("HexStrToRawData(vector, delim=%s) text=%s", show(d).c_str(), show(h).c_str());
    bool t = threw([&] { ret = tstr::HexStrToRawData(*src, v, d); });
    if (!t) {
        VH_CHECK(ret == v.size() && ret <= (h.size() + 1) / 2 + 1, "fuzz/hex/vector-size", "ret=%zu size=%zu from %zu characters", ret, v.size(), h.size());
        // what was accepted contains nothing but hex digits, blanks/tabs at the ends and delimiter characters
        for (unsigned char c : h)
            if (!isxdigit(c) && d.find((char)c) == std::string::npos && !(d.empty() && (c == ' ' || c == '\t'))) {
                vh::viol("fuzz/hex/invalid-text-accepted", vh::fmt("%zu bytes from text %s (delimiter %s)", ret, show(h).c_str(), show(d).c_str()));
                break;
            }
    }
    size_t np = h.size() / 2, caps[] = {np, np ? np - 1 : 0, 0, np + 3};
    size_t cap = caps[(sel / 5) % 4];
    Out out(cap);
    size_t r2 = 0;
    step("HexStrToRawData(ptr, cap=%zu) text=%s", cap, show(h).c_str());
    bool t2 = threw([&] { r2 = tstr::HexStrToRawData(*src, out.p(), (uint16_t)cap); });
    out.check("hex-decode-fixed");
    if (!t2) VH_CHECK(r2 <= cap && r2 <= np, "fuzz/hex/fixed-returned-too-much", "ret=%zu cap=%zu pairs=%zu", r2, cap, np);
    ++(t ? g_sh->refused : g_sh->accepted)[T_HEX];
}

void t_sint(const std::string &b) {
    In in(b);
    uint64_t v = 0;
    step("ParseScalableInteger(%s)", vh::hex(b).c_str());
    size_t ret = tbox::util::ParseScalableInteger(in.p, b.size(), v);
    VH_CHECK(ret <= b.size() && ret <= 10, "fuzz/scalable/consumed-too-much", "ret=%zu for %zu bytes %s", ret, b.size(), vh::hex(b).c_str());
    size_t lead = 0;
    while (lead < b.size() && ((unsigned char)b[lead] & 0x80)) ++lead;
    if (lead >= b.size() || lead >= 10) VH_CHECK(ret == 0, "fuzz/scalable/unterminated-accepted", "ret=%zu for %s", ret, vh::hex(b).c_str());
    else if (ret) {
        VH_CHECK(ret == lead + 1, "fuzz/scalable/wrong-length", "ret=%zu but the terminator is byte %zu of %s", ret, lead + 1, vh::hex(b).c_str());
        if (ret < 10) {   // below the 10-byte form nothing can overflow: dumping the value must give the same bytes back
            Out out(ret);
            size_t n = tbox::util::DumpScalableInteger(v, out.p(), ret);
            out.check("scalable-dump");
            VH_CHECK(n == ret && memcmp(out.p(), b.data(), ret) == 0, "fuzz/scalable/parse-dump-mismatch", "Parse(%s)=%llu dumps as %s", vh::hex(b.substr(0, ret)).c_str(),
                     (unsigned long long)v, vh::hex(out.p(), n <= ret ? n : ret).c_str());
        }
    }
    ++(ret ? g_sh->accepted : g_sh->refused)[T_SINT];
}

void t_url(const std::string &h) {
    std::unique_ptr<std::string> src(new std::string(h.data(), h.size()));
    std::string got;
    step("UrlDecode(%s)", show(h).c_str());
    bool t = threw([&] { got = tbox::http::UrlDecode(*src); });
    if (!t) {
        VH_CHECK(got.size() <= h.size(), "fuzz/url/decode-longer-than-input", "%zu from %zu", got.size(), h.size());
        if (h.find('%') == std::string::npos) VH_CHECK(got == h, "fuzz/url/plain-text-changed", "UrlDecode(%s) = %s", show(h).c_str(), show(got).c_str());
    }
    (void)threw([&] {
        tbox::http::Url u;
        if (tbox::http::StringToUrl(*src, u)) (void)tbox::http::UrlToString(u);
        tbox::http::Url::Host hh; (void)tbox::http::StringToUrlHost(*src, hh);
        tbox::http::Url::Path pp; (void)tbox::http::StringToUrlPath(*src, pp);
    });
    ++(t ? g_sh->refused : g_sh->accepted)[T_URL];
}

// the input drives the deserializer: first half is the program (op, size bytes), second half the data
void t_des(const std::string &h) {
    size_t half = h.size() / 2;
    std::string prog = h.substr(0, half), data = h.substr(half);
    In in(data);
    tbox::util::Deserializer d(in.p, data.size(), (prog.size() && (prog[0] & 1)) ? tbox::util::Endian::kLittle : tbox::util::Endian::kBig);
    size_t pos = 0;
    for (size_t i = 0; i + 1 < prog.size(); i += 2) {
        unsigned op = (unsigned char)prog[i] % 10;
        size_t arg = (unsigned char)prog[i + 1];
        if (arg >= 0xf0) { size_t k = 0xff - arg; arg = (arg & 1) ? (size_t)0 - pos + k : (size_t)-1 - k; }   // sizes next to SIZE_MAX, and ones that wrap pos+size round to k
        size_t rem = data.size() - pos, need = 0;
        bool ok = false;
        step("Deserializer op %u arg %zu at %zu of %zu", op, arg, pos, data.size());
        switch (op) {
            case 0: { uint8_t v; need = 1; ok = d.fetch(v); break; }
            case 1: { uint16_t v; need = 2; ok = d.fetch(v); break; }
            case 2: { uint32_t v; need = 4; ok = d.fetch(v); break; }
            case 3: { uint64_t v; need = 8; ok = d.fetch(v); break; }
            case 4: need = arg; ok = d.skip(arg); break;
            case 5: need = arg; ok = d.fetchNoCopy(arg) != nullptr; break;
            case 6: need = arg; ok = d.checkSize(arg); if (ok) need = 0; break;
            case 7: { need = arg & 0x3f; Out o(need); ok = d.fetch(o.p(), need); o.check("deserializer-fetch"); break; }
            case 8: { need = arg & 0x1f; Out o(need); ok = d.fetchPOD(o.p(), need); o.check("deserializer-fetchPOD"); break; }
            default: { size_t p = arg; bool r = d.set_pos(p); if (r) { VH_CHECK(p < data.size(), "fuzz/deserializer/set_pos-beyond-input", "set_pos(%zu) of %zu", p, data.size()); pos = p; } continue; }
        }
        size_t want_need = (op == 6) ? arg : need;
        bool fits = want_need <= rem;
        if (ok != fits) {
            vh::viol(fits ? "fuzz/deserializer/refused-although-available" : "fuzz/deserializer/accepted-size-beyond-input",
                     vh::fmt("op %u: request for %zu bytes at position %zu of %zu answered %d", op, want_need, pos, data.size(), (int)ok));
            return;
        }
        if (ok) pos += need;
        if (d.pos() != pos) { vh::viol("fuzz/deserializer/pos-wrong", vh::fmt("pos()=%zu expected %zu", d.pos(), pos)); return; }
        ++(ok ? g_sh->accepted : g_sh->refused)[T_DES];
    }
}

// MD5 of the message fed in pieces chosen by the input equals MD5 of the message fed at once
void t_md5(const std::string &h) {
    if (h.size() < 4) return;
    size_t ncut = (unsigned char)h[0] % 4;
    std::string msg = h.substr(1 + ncut);
    for (int rep = 0; rep < 3 && msg.size() < 200; ++rep) msg += msg;     // reach several 64-byte blocks
    std::vector<size_t> cuts;
    for (size_t i = 0; i < ncut; ++i) cuts.push_back(((unsigned char)h[1 + i] * 3) % (msg.size() + 1));
    cuts.push_back(0); cuts.push_back(msg.size());
    std::sort(cuts.begin(), cuts.end());
    In in(msg);
    uint8_t a[16], b[16];
    { tbox::crypto::MD5 m; if (!msg.empty() || (h[0] & 0x80)) m.update(in.p, msg.size()); m.finish(a); }
    { tbox::crypto::MD5 m; for (size_t i = 0; i + 1 < cuts.size(); ++i) m.update(in.p + cuts[i], cuts[i + 1] - cuts[i]); m.finish(b); }
    VH_CHECK(memcmp(a, b, 16) == 0, "fuzz/md5/split-changes-digest", "message of %zu bytes, cuts %zu/%zu/%zu", msg.size(), cuts[1], cuts.size() > 3 ? cuts[2] : 0, cuts.size() > 4 ? cuts[3] : 0);
    ++g_sh->accepted[T_MD5];
}

// decode(encode(x)) == x for the bytes the fuzzer made, at exact capacity
void t_roundtrip(const std::string &x, unsigned sel) {
    if (x.empty()) return;
    In in(x);
    {
        size_t L = b64::EncodeLength(x.size());
        Out e(L);
        size_t n = b64::Encode(in.p, x.size(), (char *)e.p(), L);
        e.check("base64-encode");
        VH_CHECK(n == L, "fuzz/roundtrip/base64-encode-size", "Encode returned %zu, EncodeLength %zu", n, L);
        In t(std::string((char *)e.p(), n));
        Out o(x.size());
        size_t m = b64::Decode((const char *)t.p, n, o.p(), x.size());
        o.check("base64-decode");
        VH_CHECK(m == x.size() && memcmp(o.p(), x.data(), m) == 0, "fuzz/roundtrip/base64", "raw %s -> %s -> %zu bytes", show(x).c_str(), show(std::string((char *)e.p(), n)).c_str(), m);
    }
    {
        static const char *delims[] = {"", " ", ":"};
        std::string d = delims[sel % 3];
        std::unique_ptr<std::string> txt(new std::string(tstr::RawDataToHexStr(in.p, (uint16_t)x.size(), sel & 4, d)));
        std::vector<uint8_t> v;
        bool t = threw([&] { tstr::HexStrToRawData(*txt, v, d); });
        VH_CHECK(!t && v.size() == x.size() && memcmp(v.data(), x.data(), x.size()) == 0, "fuzz/roundtrip/hex", "raw %s -> %s", show(x).c_str(), show(*txt).c_str());
    }
    {
        std::unique_ptr<std::string> s(new std::string(x.data(), x.size()));
        std::unique_ptr<std::string> e(new std::string(tbox::http::UrlEncode(*s, sel & 8)));
        std::string back;
        bool t = threw([&] { back = tbox::http::UrlDecode(*e); });
        VH_CHECK(!t && back == x, "fuzz/roundtrip/url", "raw %s -> %s -> %s", show(x).c_str(), show(*e).c_str(), show(back).c_str());
    }
    if (x.size() >= 8) {
        uint64_t v; memcpy(&v, x.data(), 8);
        v >>= ((unsigned char)x[x.size() - 1] % 64);
        Out o(10);
        size_t n = tbox::util::DumpScalableInteger(v, o.p(), 10);
        o.check("scalable-dump");
        In t(std::string((char *)o.p(), n));
        uint64_t got = ~v;
        size_t m = tbox::util::ParseScalableInteger(t.p, n, got);
        VH_CHECK(n >= 1 && m == n && got == v, "fuzz/roundtrip/scalable", "value %llu dumped in %zu bytes parsed as %llu (%zu bytes)", (unsigned long long)v, n, (unsigned long long)got, m);
    }
    ++g_sh->accepted[T_RT];
}

// 8/16-bit ones'-complement sums of the input repeated to a chosen size (mostly small, for one selector value in 32: 64..400 KiB) against the
// RFC 1071 sum done in a 64-bit accumulator and folded at the end
void t_sum(const std::string &block, unsigned sel) {
    if (block.empty()) return;
    static const size_t big[] = {65535, 65537, 131074, 131075, 131076, 262144, 262146, 400001};
    size_t n = (sel % 32 == 0) ? big[(sel / 32) % 8] : (size_t)sel * 9 + block.size();
    std::string data(n, '\0');
    for (size_t i = 0; i < n; ++i) data[i] = block[i % block.size()];
    In in(data);
    uint64_t ws = 0, bs = 0;
    for (size_t i = 0; i + 1 < n; i += 2) ws += ((unsigned)(uint8_t)data[i] << 8) | (uint8_t)data[i + 1];
    if (n & 1) ws += (unsigned)(uint8_t)data[n - 1] << 8;
    for (size_t i = 0; i < n; ++i) bs += (uint8_t)data[i];
    if (ws >> 32) ++g_sh->sum16_wraps;
    uint64_t f16 = ws; while (f16 >> 16) f16 = (f16 & 0xffff) + (f16 >> 16);
    uint64_t f8 = bs; while (f8 >> 8) f8 = (f8 & 0xff) + (f8 >> 8);
    step("CalcCheckSum16/8 of %zu bytes, block %s", n, vh::hex(block).substr(0, 80).c_str());
    unsigned g16 = tbox::util::CalcCheckSum16(in.p, n), g8 = tbox::util::CalcCheckSum8(in.p, n);
    VH_CHECK(g16 == ((~f16) & 0xffff), "fuzz/checksum16/wrong", "CalcCheckSum16(%zu bytes, block %s)=0x%04x, wide-accumulator sum gives 0x%04x (word sum %llu)",
             n, vh::hex(block).substr(0, 80).c_str(), g16, (unsigned)((~f16) & 0xffff), (unsigned long long)ws);
    VH_CHECK(g8 == ((~f8) & 0xff), "fuzz/checksum8/wrong", "CalcCheckSum8(%zu bytes, block %s)=0x%02x, wide-accumulator sum gives 0x%02x",
             n, vh::hex(block).substr(0, 80).c_str(), g8, (unsigned)((~f8) & 0xff));
    ++g_sh->accepted[T_SUM];
}

}  // namespace

extern "C" int LLVMFuzzerTestOneInput(const uint8_t *data, size_t size) {
    if (size < 2 || !g_sh) return 0;
    unsigned target = data[0] % T_COUNT, sel = data[1];
    std::string body((const char *)data + 2, size - 2);
    ++g_sh->execs[target];
    for (unsigned char c : body) if (c >= 0x80) { ++g_sh->high_byte_inputs; break; }
    vh::st().case_desc = vh::fmt("fuzz target=%s sel=%u input=%s", kTarget[target], sel, vh::hex(body).substr(0, 400).c_str());
    switch (target) {
        case T_B64: t_base64(body, sel); break;
        case T_HEX: t_hex(body, sel); break;
        case T_SINT: t_sint(body); break;
        case T_URL: t_url(body); break;
        case T_DES: t_des(body); break;
        case T_MD5: t_md5(body); break;
        case T_SUM: t_sum(body, sel); break;
        default: t_roundtrip(body, sel); break;
    }
    return 0;
}

// ---- framing: the runner's protocol on top of libFuzzer --------------------------------------------------------
extern "C" int LLVMFuzzerInitialize(int *argc, char ***argv) {
    vh::parse_args(*argc, *argv);
    vh::Args &a = vh::st().args;
    const long runs = a.num("runs", 200000);
    g_sh = (Shared *)mmap(nullptr, sizeof(Shared), PROT_READ | PROT_WRITE, MAP_SHARED | MAP_ANONYMOUS, -1, 0);
    if (g_sh == MAP_FAILED) fatal("mmap");
    memset(g_sh, 0, sizeof *g_sh);
    std::vector<uint64_t> sigs;
    for (uint64_t i = a.first; i < a.first + a.count; ++i) {
        vh::begin_case(i);
        fflush(stdout); fflush(stderr);
        pid_t pid = fork();
        if (pid < 0) fatal("fork");
        if (pid == 0) {
            // the child becomes one libFuzzer session: fixed seed, fixed number of runs, no corpus directory
            static std::vector<std::string> args;
            args.push_back((*argv)[0]);
            args.push_back("-seed=" + std::to_string((vh::mix(a.seed, i) & 0x7ffffffe) + 1));
            args.push_back("-runs=" + std::to_string(runs));
            args.push_back("-max_len=" + std::to_string(a.num("maxlen", 96)));
            args.push_back("-verbosity=0");
            args.push_back("-print_final_stats=0");
            args.push_back("-detect_leaks=0");
            args.push_back("-timeout=60");
            args.push_back("-artifact_prefix=" + (a.out.empty() ? std::string("/dev/null") : a.out + "/fuzz-case" + std::to_string(i) + "-"));
            static std::vector<char *> av;
            for (auto &s : args) av.push_back(&s[0]);
            av.push_back(nullptr);
            *argc = (int)args.size();
            *argv = av.data();
            return 0;
        }
        int st = 0;
        while (waitpid(pid, &st, 0) < 0 && errno == EINTR) {}
        if (!(WIFEXITED(st) && WEXITSTATUS(st) == 0)) {
            // the session died: its sanitizer report is already on our stderr; die the same way so the runner records case i
            fflush(stdout);
            if (WIFSIGNALED(st)) { signal(WTERMSIG(st), SIG_DFL); kill(getpid(), WTERMSIG(st)); }
            _exit(WIFEXITED(st) ? WEXITSTATUS(st) : 70);
        }
        sigs.push_back(vh::mix(a.seed, i));
        vh::note_case(sigs.back(), true);
        vh::end_case();
    }
    uint64_t total = 0;
    for (int t = 0; t < T_COUNT; ++t) {
        vh::counter(std::string("fuzz_execs_") + kTarget[t], g_sh->execs[t]);
        vh::counter(std::string("fuzz_accepted_") + kTarget[t], g_sh->accepted[t]);
        vh::counter(std::string("fuzz_refused_") + kTarget[t], g_sh->refused[t]);
        total += g_sh->execs[t];
    }
    vh::counter("fuzz_execs", total);
    vh::counter("fuzz_inputs_with_byte_ge_0x80", g_sh->high_byte_inputs);
    vh::counter("fuzz_sum16_word_sum_exceeds_2p32", g_sh->sum16_wraps);
    vh::counter("fuzz_sessions", vh::st().cases);
    vh::finish();
    fflush(stdout);
    _exit(0);
}
